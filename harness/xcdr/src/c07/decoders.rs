//! The decoders under test and the instrumented call around them.
use super::bt::{self, Origin, PanicRec};
use crate::alloc_track::{self, Stats};
use dust_dds::rtps_messages::overall_structure::{RtpsMessageRead, RtpsSubmessageReadKind};
use dust_dds::verif_hooks::data_representation_builtin_endpoints::{
    discovered_reader_data::DiscoveredReaderData, discovered_topic_data::DiscoveredTopicData,
    discovered_writer_data::DiscoveredWriterData, spdp_discovered_participant_data::SpdpDiscoveredParticipantData,
    type_lookup::{TypeLookupReply, TypeLookupRequest},
};
use dust_dds::verif_hooks::deserializer::deserialize_top_level_type;
use dust_dds::xtypes::dynamic_type::DynamicType;
use dust_dds::xtypes::type_support::{Type, TypeSupport};
use std::panic::{AssertUnwindSafe, catch_unwind};

#[derive(Clone, Copy, Debug, PartialEq, Eq, PartialOrd, Ord)]
pub enum Decoder {
    Rtps,
    Participant,
    Writer,
    Reader,
    Topic,
    TlRequest,
    TlReply,
    Xtypes,
}

pub const ALL: [Decoder; 8] = [
    Decoder::Rtps,
    Decoder::Participant,
    Decoder::Writer,
    Decoder::Reader,
    Decoder::Topic,
    Decoder::TlRequest,
    Decoder::TlReply,
    Decoder::Xtypes,
];

impl Decoder {
    pub fn name(self) -> &'static str {
        match self {
            Decoder::Rtps => "rtps_message",
            Decoder::Participant => "spdp_participant",
            Decoder::Writer => "discovered_writer",
            Decoder::Reader => "discovered_reader",
            Decoder::Topic => "discovered_topic",
            Decoder::TlRequest => "type_lookup_request",
            Decoder::TlReply => "type_lookup_reply",
            Decoder::Xtypes => "xtypes_payload",
        }
    }
    pub fn from_name(s: &str) -> Option<Decoder> {
        ALL.iter().copied().find(|d| d.name() == s)
    }
    pub fn id(self) -> u8 {
        ALL.iter().position(|d| *d == self).unwrap_or(0) as u8
    }
    pub fn from_id(i: u8) -> Option<Decoder> {
        ALL.get(i as usize).copied()
    }
}

const KIND_NAMES: [&str; 12] = [
    "ACKNACK",
    "DATA",
    "DATA_FRAG",
    "GAP",
    "HEARTBEAT",
    "HEARTBEAT_FRAG",
    "INFO_DST",
    "INFO_REPLY",
    "INFO_SRC",
    "INFO_TS",
    "NACK_FRAG",
    "PAD",
];

pub fn kind_names(mask: u16) -> Vec<&'static str> {
    (0..12).filter(|i| mask & (1 << i) != 0).map(|i| KIND_NAMES[i]).collect()
}

/// Walk a decoded message the way a consumer does (plain accessors only; the stateful receiver is
/// C06's subject). Returns a bit mask of the submessage kinds seen.
fn touch(m: &RtpsMessageRead) -> (u16, usize) {
    fn w(acc: &mut usize, v: usize) {
        *acc = acc.wrapping_add(v);
    }
    let h = m.header();
    let mut acc = 0usize;
    w(&mut acc, h.guid_prefix()[0] as usize);
    w(&mut acc, h.vendor_id()[0] as usize);
    let mut mask = 0u16;
    for s in m.submessages() {
        match s {
            RtpsSubmessageReadKind::AckNack(a) => {
                mask |= 1;
                w(&mut acc, a.reader_sn_state().base() as usize);
                w(&mut acc, a.count() as usize);
            }
            RtpsSubmessageReadKind::Data(d) => {
                mask |= 2;
                w(&mut acc, d.serialized_payload().as_ref().len());
                for p in d.inline_qos().parameter() {
                    w(&mut acc, p.value().len());
                    w(&mut acc, p.parameter_id() as usize);
                }
            }
            RtpsSubmessageReadKind::DataFrag(d) => {
                mask |= 4;
                w(&mut acc, d.serialized_payload().as_ref().len());
                w(&mut acc, d.inline_qos().parameter().len());
                w(&mut acc, d.fragment_size() as usize);
            }
            RtpsSubmessageReadKind::Gap(g) => {
                mask |= 8;
                w(&mut acc, g.gap_list().base() as usize);
                w(&mut acc, g.gap_start() as usize);
            }
            RtpsSubmessageReadKind::Heartbeat(hb) => {
                mask |= 16;
                w(&mut acc, hb.first_sn() as usize);
                w(&mut acc, hb.last_sn() as usize);
            }
            RtpsSubmessageReadKind::HeartbeatFrag(hf) => {
                mask |= 32;
                w(&mut acc, hf.count() as usize);
            }
            RtpsSubmessageReadKind::InfoDestination(i) => {
                mask |= 64;
                w(&mut acc, i.guid_prefix()[0] as usize);
            }
            RtpsSubmessageReadKind::InfoReply(_) => {
                mask |= 128;
            }
            RtpsSubmessageReadKind::InfoSource(i) => {
                mask |= 256;
                w(&mut acc, i.guid_prefix()[0] as usize);
            }
            RtpsSubmessageReadKind::InfoTimestamp(t) => {
                mask |= 512;
                w(&mut acc, t.timestamp().seconds() as usize);
            }
            RtpsSubmessageReadKind::NackFrag(n) => {
                mask |= 1024;
                w(&mut acc, n.fragment_number_state().base() as usize);
                w(&mut acc, n.count() as usize);
            }
            RtpsSubmessageReadKind::Pad(_) => {
                mask |= 2048;
            }
        }
    }
    (mask, acc)
}

/// What the decoder returned (formatting of the error happens after tracking is switched off).
pub enum Ret {
    Ok { kinds: u16 },
    Err(String),
}

#[inline(never)]
fn call(dec: Decoder, dt: Option<DynamicType<'static>>, input: &[u8]) -> Result<u16, Box<dyn std::fmt::Debug>> {
    match dec {
        Decoder::Rtps => match RtpsMessageRead::try_from(input) {
            Ok(m) => {
                let (mask, acc) = touch(&m);
                std::hint::black_box(acc);
                drop(m);
                Ok(mask)
            }
            Err(e) => Err(Box::new(e)),
        },
        Decoder::Participant => SpdpDiscoveredParticipantData::from_bytes(input).map(|v| {
            drop(v);
            0
        }).map_err(|e| Box::new(e) as Box<dyn std::fmt::Debug>),
        Decoder::Writer => DiscoveredWriterData::from_bytes(input).map(|v| {
            drop(v);
            0
        }).map_err(|e| Box::new(e) as Box<dyn std::fmt::Debug>),
        Decoder::Reader => DiscoveredReaderData::from_bytes(input).map(|v| {
            drop(v);
            0
        }).map_err(|e| Box::new(e) as Box<dyn std::fmt::Debug>),
        Decoder::Topic => DiscoveredTopicData::from_bytes(input).map(|v| {
            drop(v);
            0
        }).map_err(|e| Box::new(e) as Box<dyn std::fmt::Debug>),
        // the way discovery_methods.rs decodes type lookup samples
        Decoder::TlRequest => match deserialize_top_level_type(TypeLookupRequest::TYPE, input) {
            Ok(mut d) => match TypeLookupRequest::create_sample(&mut d) {
                Some(v) => {
                    drop(v);
                    Ok(0)
                }
                None => Err(Box::new("CreateSampleNone")),
            },
            Err(e) => Err(Box::new(e)),
        },
        Decoder::TlReply => match deserialize_top_level_type(TypeLookupReply::TYPE, input) {
            Ok(mut d) => match TypeLookupReply::create_sample(&mut d) {
                Some(v) => {
                    drop(v);
                    Ok(0)
                }
                None => Err(Box::new("CreateSampleNone")),
            },
            Err(e) => Err(Box::new(e)),
        },
        Decoder::Xtypes => match dt {
            Some(dt) => match deserialize_top_level_type(dt, input) {
                Ok(d) => {
                    drop(d);
                    Ok(0)
                }
                Err(e) => Err(Box::new(e)),
            },
            None => Err(Box::new("NoType")),
        },
    }
}

pub struct Run {
    pub ret: Option<Ret>,
    pub panic: Option<PanicRec>,
    pub stats: Stats,
    /// the allocation cap was hit (1 = single request, 2 = live bytes; refused size): the request was
    /// not attempted and the decoder thread was given up
    pub cap: Option<(u8, u64)>,
    /// the decoder thread vanished without a result (harness problem)
    pub lost: bool,
}

struct SendType(Option<DynamicType<'static>>);
// DynamicType<'static> is a pair of shared references to immutable leaked descriptors.
unsafe impl Send for SendType {}

struct Job {
    id: u64,
    idx: u64,
    flags: u8,
    class: String,
    input: Vec<u8>,
    limit: u64,
}

struct Batch {
    dec: Decoder,
    dt: SendType,
    jobs: Vec<Job>,
    results: std::sync::Arc<std::sync::Mutex<Vec<Run>>>,
}

/// One decoder invocation to make: case index, announce flags (1 = shrink candidate), input class,
/// input bytes.
pub struct Spec<'a> {
    pub idx: u64,
    pub flags: u8,
    pub class: &'a str,
    pub input: &'a [u8],
}

/// The decoder runs on a sacrificial thread (stack size as configured). Work is handed over in
/// batches (a thread hand-over per case costs more than the decoding itself); the decoder thread
/// announces each case in the announce file right before it calls the decoder. A request above the
/// allocation cap parks that thread for good (see alloc_track): the results so far are collected, a
/// new thread takes over the rest of the batch, and such an event does not cost a process restart.
pub struct Pool {
    stack: usize,
    ann: std::sync::Arc<std::sync::Mutex<super::child::Announcer>>,
    tx: Option<std::sync::mpsc::Sender<Batch>>,
    rx: Option<std::sync::mpsc::Receiver<()>>,
    pub threads_given_up: u64,
    /// added to the allocation bound of every call (what decoding the current *type* needs
    /// independently of the input: fixed-size arrays, default members)
    pub extra_limit: u64,
    seq: u64,
}

impl Pool {
    pub fn new(stack_bytes: usize, ann: super::child::Announcer) -> Pool {
        let mut p = Pool {
            extra_limit: 0,
            stack: stack_bytes,
            ann: std::sync::Arc::new(std::sync::Mutex::new(ann)),
            tx: None,
            rx: None,
            threads_given_up: 0,
            seq: 0,
        };
        p.respawn();
        p
    }
    /// Announce something from the supervising thread (set-up / generation phases).
    pub fn announce(&self, idx: u64, dec: u8, flags: u8, class: &str, input: &[u8]) {
        if let Ok(mut a) = self.ann.lock() {
            a.announce(idx, dec, flags, class, input);
        }
    }
    fn respawn(&mut self) {
        let (jtx, jrx) = std::sync::mpsc::channel::<Batch>();
        let (rtx, rrx) = std::sync::mpsc::channel::<()>();
        let ann = self.ann.clone();
        let h = std::thread::Builder::new()
            .name("c07-decoder".into())
            .stack_size(self.stack)
            .spawn(move || {
                while let Ok(b) = jrx.recv() {
                    for j in &b.jobs {
                        if let Ok(mut a) = ann.lock() {
                            a.announce(j.idx, b.dec.id(), j.flags, &j.class, &j.input);
                        }
                        let r = run_job(b.dec, b.dt.0, &j.input, j.limit, j.id);
                        if let Ok(mut v) = b.results.lock() {
                            v.push(r);
                        }
                    }
                    if rtx.send(()).is_err() {
                        break;
                    }
                }
            });
        if h.is_ok() {
            self.tx = Some(jtx);
            self.rx = Some(rrx);
        } else {
            self.tx = None;
            self.rx = None;
        }
    }

    pub fn run(&mut self, dec: Decoder, dt: Option<DynamicType<'static>>, spec: Spec, k: u64, c: u64) -> Run {
        self.run_batch(dec, dt, &[spec], k, c).pop().unwrap_or_else(lost_run)
    }

    /// Run the specs in order; one `Run` per spec.
    pub fn run_batch(&mut self, dec: Decoder, dt: Option<DynamicType<'static>>, specs: &[Spec], k: u64, c: u64) -> Vec<Run> {
        let mut out: Vec<Run> = Vec::with_capacity(specs.len());
        let mut attempts = 0;
        while out.len() < specs.len() {
            attempts += 1;
            if attempts > specs.len() + 4 {
                while out.len() < specs.len() {
                    out.push(lost_run());
                }
                break;
            }
            if self.tx.is_none() {
                self.respawn();
            }
            let rest = &specs[out.len()..];
            let first_id = self.seq + 1;
            let jobs: Vec<Job> = rest
                .iter()
                .enumerate()
                .map(|(i, s)| Job {
                    id: first_id + i as u64,
                    idx: s.idx,
                    flags: s.flags,
                    class: s.class.to_string(),
                    input: s.input.to_vec(),
                    limit: bound(k, c, s.input.len()).saturating_add(self.extra_limit),
                })
                .collect();
            self.seq += rest.len() as u64;
            let last_id = self.seq;
            let results = std::sync::Arc::new(std::sync::Mutex::new(Vec::with_capacity(rest.len())));
            let sent = match &self.tx {
                Some(tx) => tx
                    .send(Batch {
                        dec,
                        dt: SendType(dt),
                        jobs,
                        results: results.clone(),
                    })
                    .is_ok(),
                None => false,
            };
            if !sent {
                self.respawn();
                out.push(lost_run());
                continue;
            }
            loop {
                let r = match &self.rx {
                    Some(rx) => rx.recv_timeout(std::time::Duration::from_millis(1)),
                    None => Err(std::sync::mpsc::RecvTimeoutError::Disconnected),
                };
                match r {
                    Ok(()) => {
                        if let Ok(mut v) = results.lock() {
                            out.append(&mut v);
                        }
                        break;
                    }
                    Err(std::sync::mpsc::RecvTimeoutError::Timeout) => {
                        if let Some((tag, size, job)) = alloc_track::cap_pending_any() {
                            if job >= first_id && job <= last_id {
                                let stats = alloc_track::snapshot();
                                alloc_track::clear_cap();
                                if let Ok(mut v) = results.lock() {
                                    out.append(&mut v);
                                }
                                out.push(Run {
                                    ret: None,
                                    panic: None,
                                    stats,
                                    cap: Some((tag, size)),
                                    lost: false,
                                });
                                self.threads_given_up += 1;
                                self.respawn();
                                break;
                            }
                        }
                    }
                    Err(std::sync::mpsc::RecvTimeoutError::Disconnected) => {
                        // the decoder thread is gone (harness problem): keep what it delivered
                        if let Ok(mut v) = results.lock() {
                            out.append(&mut v);
                        }
                        out.push(lost_run());
                        self.respawn();
                        break;
                    }
                }
            }
        }
        out.truncate(specs.len());
        out
    }
}

fn lost_run() -> Run {
    Run {
        ret: None,
        panic: None,
        stats: Stats::default(),
        cap: None,
        lost: true,
    }
}

/// Allocation bound for an input of `len` bytes.
pub fn bound(k: u64, c: u64, len: usize) -> u64 {
    k.saturating_mul(len as u64).saturating_add(c)
}

/// The instrumented call: catch_unwind + allocation tracking only around the decoder.
pub fn run(dec: Decoder, dt: Option<DynamicType<'static>>, input: &[u8], limit: u64) -> Run {
    run_job(dec, dt, input, limit, 0)
}

fn run_job(dec: Decoder, dt: Option<DynamicType<'static>>, input: &[u8], limit: u64, job: u64) -> Run {
    let _ = bt::take_last();
    alloc_track::begin_job(limit, job);
    let res = catch_unwind(AssertUnwindSafe(|| call(dec, dt, input)));
    let stats = alloc_track::end();
    match res {
        Ok(Ok(kinds)) => Run {
            ret: Some(Ret::Ok { kinds }),
            panic: None,
            stats,
            cap: None,
            lost: false,
        },
        Ok(Err(e)) => Run {
            ret: Some(Ret::Err(vcore::normalize_msg(&format!("{:?}", e)).replace('"', ""))),
            panic: None,
            stats,
            cap: None,
            lost: false,
        },
        Err(payload) => {
            let rec = bt::take_last().unwrap_or_else(|| PanicRec {
                msg: "<panic not seen by hook>".into(),
                ..Default::default()
            });
            // dropping the payload must not happen while a second panic could be confused with it
            drop(payload);
            Run {
                ret: None,
                panic: Some(rec),
                stats,
                cap: None,
                lost: false,
            }
        }
    }
}

#[derive(Clone, Debug, PartialEq)]
pub enum Verdict {
    /// genuine finding with signature
    Violation { sig: String, msg: String },
    /// harness problem
    Inconclusive(String),
}

/// Short outcome label for non-triviality hashing and statistics.
pub fn outcome_label(run: &Run) -> String {
    match run.cap {
        Some((3, _)) => return "alloc_stopped".to_string(),
        Some(_) => return "alloc_cap".to_string(),
        None => {}
    }
    match (&run.ret, &run.panic) {
        (_, Some(_)) => "panic".to_string(),
        (Some(Ret::Ok { .. }), _) => "ok".to_string(),
        (Some(Ret::Err(e)), _) => format!("err:{}", e),
        _ => "?".to_string(),
    }
}

fn class_base(class: &str) -> &str {
    class.split('=').next().unwrap_or(class)
}

/// Turn the observations of one call into findings.
pub fn verdicts(dec: Decoder, class: &str, run: &Run) -> Vec<Verdict> {
    let mut out = Vec::new();
    if let Some(p) = &run.panic {
        let nm = vcore::normalize_msg(&p.msg);
        match bt::origin(&p.backtrace) {
            Origin::Dust(sym) => out.push(Verdict::Violation {
                sig: format!("panic|{}|{}|{}", dec.name(), sym, nm),
                msg: format!("panicked at {}:{}: {}", p.file, p.line, p.msg.replace('\n', " ")),
            }),
            Origin::Harness(sym) => out.push(Verdict::Inconclusive(format!(
                "panic in harness code {} at {}:{}: {}",
                sym, p.file, p.line, p.msg
            ))),
            Origin::Unknown => {
                if p.file.contains("/dds/src/") {
                    let f = p.file.rsplit("/dds/src/").next().unwrap_or("").to_string();
                    out.push(Verdict::Violation {
                        sig: format!("panic|{}|@{}|{}", dec.name(), f, nm),
                        msg: format!("panicked at {}:{}: {}", p.file, p.line, p.msg.replace('\n', " ")),
                    });
                } else {
                    out.push(Verdict::Inconclusive(format!(
                        "panic without resolvable dust_dds frame at {}:{}: {}",
                        p.file, p.line, p.msg
                    )));
                }
            }
        }
    }
    if run.lost {
        out.push(Verdict::Inconclusive("decoder thread vanished without a result".into()));
    }
    if let Some((tag, size)) = run.cap.filter(|c| c.0 != 3) {
        let site = match run.stats.over_backtrace.as_deref().map(bt::origin) {
            Some(Origin::Dust(sym)) => sym,
            Some(Origin::Harness(sym)) => {
                out.push(Verdict::Inconclusive(format!("allocation cap hit in harness frame {}", sym)));
                return out;
            }
            _ => format!("class:{}", class_base(class)),
        };
        out.push(Verdict::Violation {
            sig: format!("abort|{}|alloc_cap|{}", dec.name(), site),
            msg: format!(
                "{} of {} bytes not attempted (hard cap {}); outside the harness this request aborts the process or commits that much memory",
                if tag == 2 { "live allocations" } else { "a single allocation request" },
                size,
                if tag == 2 { alloc_track::LIVE_CAP } else { alloc_track::HARD_CAP }
            ),
        });
        return out;
    }
    if run.stats.over {
        // a request that is a sizeable part of the bound names its function; a bound crossed by
        // many small requests is attributed to the decoder as a whole (the crossing request is an
        // arbitrary one of them)
        let limit = run.stats.limit.max(1);
        let stack = if run.stats.over_req >= limit / 8 {
            run.stats.over_backtrace.as_deref()
        } else {
            run.stats.big_backtrace.as_deref()
        };
        let site = match stack.map(bt::origin) {
            None => Some("many_small_requests".to_string()),
            Some(Origin::Dust(sym)) => Some(sym),
            Some(Origin::Harness(sym)) => {
                out.push(Verdict::Inconclusive(format!("allocation bound crossed in harness frame {}", sym)));
                None
            }
            _ => Some(format!("class:{}", class_base(class))),
        };
        if let Some(site) = site {
            out.push(Verdict::Violation {
                sig: format!("alloc|{}|{}", dec.name(), site),
                msg: format!(
                    "{}requested {} bytes in {} allocations (largest {}, crossing request {}{})",
                    if matches!(run.cap, Some((3, _))) { "call stopped after it had " } else { "" },
                    run.stats.total,
                    run.stats.count,
                    run.stats.max_single,
                    run.stats.over_req,
                    if run.stats.failed > 0 { ", allocator refused a request" } else { "" }
                ),
            });
        }
    }
    out
}
