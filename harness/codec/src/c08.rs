//! C08: every RTPS message dust-dds builds decodes back to the same header and submessages, every
//! submessage length field matches the encoded content, and the big-endian encoding of the same
//! message decodes to the same value.
//!
//! A case is a generated message model (header + 1..5 submessages). It is
//!   (A) built with `RtpsMessageWrite`, walked with the independent `vcore::rtpswalk` (length
//!       oracle; the real length of submessage i is measured as the growth of the buffer when the
//!       message is built with i and with i+1 submessages), decoded with `RtpsMessageRead`, compared
//!       field by field with the model through the accessors, re-encoded and compared byte-wise;
//!   (B) encoded big-endian by the independent encoder below (written from the RTPS 2.x wire
//!       layout, shares nothing with dust-dds), decoded with `RtpsMessageRead`, compared with the
//!       model and (PartialEq) with the little-endian decode.
use crate::{Run, util};
use dust_dds::rtps_messages::overall_structure::{
    RtpsMessageHeader, RtpsMessageRead, RtpsMessageWrite, RtpsSubmessageReadKind, Submessage,
};
use dust_dds::rtps_messages::submessage_elements::{
    Data, FragmentNumberSet, LocatorList, Parameter, ParameterList, SequenceNumberSet,
    SerializedDataFragment,
};
use dust_dds::rtps_messages::submessages::{
    ack_nack::AckNackSubmessage, data::DataSubmessage, data_frag::DataFragSubmessage,
    gap::GapSubmessage, heartbeat::HeartbeatSubmessage, heartbeat_frag::HeartbeatFragSubmessage,
    info_destination::InfoDestinationSubmessage, info_reply::InfoReplySubmessage,
    info_source::InfoSourceSubmessage, info_timestamp::InfoTimestampSubmessage,
    nack_frag::NackFragSubmessage, pad::PadSubmessage,
};
use dust_dds::rtps_messages::types::{TIME_INVALID, Time as MsgTime};
use dust_dds::transport::types::{EntityId, Locator, ProtocolVersion};
use std::sync::Arc;
use vcore::{Json, Report, Rng, rtpswalk};

// ------------------------------------------------------------------ model

#[derive(Clone, Debug, PartialEq)]
struct Loc {
    kind: i32,
    port: u32,
    addr: [u8; 16],
}

#[derive(Clone, Debug)]
enum Sub {
    Data {
        q: bool,
        d: bool,
        k: bool,
        n: bool,
        reader: [u8; 4],
        writer: [u8; 4],
        sn: i64,
        qos: Vec<(i16, Vec<u8>)>,
        payload: Vec<u8>,
    },
    DataFrag {
        q: bool,
        k: bool,
        n: bool,
        reader: [u8; 4],
        writer: [u8; 4],
        sn: i64,
        frag_start: u32,
        frags: u16,
        frag_size: u16,
        data_size: u32,
        qos: Vec<(i16, Vec<u8>)>,
        payload: Vec<u8>,
    },
    Heartbeat { f: bool, l: bool, reader: [u8; 4], writer: [u8; 4], first: i64, last: i64, count: i32 },
    HeartbeatFrag { reader: [u8; 4], writer: [u8; 4], sn: i64, last_frag: u32, count: i32 },
    AckNack { f: bool, reader: [u8; 4], writer: [u8; 4], base: i64, members: Vec<i64>, count: i32 },
    Gap { reader: [u8; 4], writer: [u8; 4], start: i64, base: i64, members: Vec<i64> },
    NackFrag { reader: [u8; 4], writer: [u8; 4], sn: i64, base: u32, members: Vec<u32>, count: i32 },
    InfoTs { invalidate: bool, sec: u32, frac: u32 },
    InfoDst { prefix: [u8; 12] },
    InfoSrc { version: (u8, u8), vendor: [u8; 2], prefix: [u8; 12] },
    InfoReply { m: bool, uni: Vec<Loc>, multi: Vec<Loc> },
    Pad,
}

#[derive(Clone, Debug)]
struct Msg {
    version: (u8, u8),
    vendor: [u8; 2],
    prefix: [u8; 12],
    subs: Vec<Sub>,
}

impl Sub {
    fn kind(&self) -> &'static str {
        match self {
            Sub::Data { .. } => "DATA",
            Sub::DataFrag { .. } => "DATA_FRAG",
            Sub::Heartbeat { .. } => "HEARTBEAT",
            Sub::HeartbeatFrag { .. } => "HEARTBEAT_FRAG",
            Sub::AckNack { .. } => "ACKNACK",
            Sub::Gap { .. } => "GAP",
            Sub::NackFrag { .. } => "NACK_FRAG",
            Sub::InfoTs { .. } => "INFO_TS",
            Sub::InfoDst { .. } => "INFO_DST",
            Sub::InfoSrc { .. } => "INFO_SRC",
            Sub::InfoReply { .. } => "INFO_REPLY",
            Sub::Pad => "PAD",
        }
    }
    fn id(&self) -> u8 {
        match self {
            Sub::Data { .. } => rtpswalk::DATA,
            Sub::DataFrag { .. } => rtpswalk::DATA_FRAG,
            Sub::Heartbeat { .. } => rtpswalk::HEARTBEAT,
            Sub::HeartbeatFrag { .. } => rtpswalk::HEARTBEAT_FRAG,
            Sub::AckNack { .. } => rtpswalk::ACKNACK,
            Sub::Gap { .. } => rtpswalk::GAP,
            Sub::NackFrag { .. } => rtpswalk::NACK_FRAG,
            Sub::InfoTs { .. } => rtpswalk::INFO_TS,
            Sub::InfoDst { .. } => rtpswalk::INFO_DST,
            Sub::InfoSrc { .. } => rtpswalk::INFO_SRC,
            Sub::InfoReply { .. } => rtpswalk::INFO_REPLY,
            Sub::Pad => rtpswalk::PAD,
        }
    }
    fn is_data(&self) -> bool {
        matches!(self, Sub::Data { .. } | Sub::DataFrag { .. })
    }
}

// ------------------------------------------------------------------ independent encoder

struct Enc {
    le: bool,
    out: Vec<u8>,
}
impl Enc {
    fn u16(&mut self, x: u16) {
        if self.le {
            self.out.extend_from_slice(&x.to_le_bytes())
        } else {
            self.out.extend_from_slice(&x.to_be_bytes())
        }
    }
    fn u32(&mut self, x: u32) {
        if self.le {
            self.out.extend_from_slice(&x.to_le_bytes())
        } else {
            self.out.extend_from_slice(&x.to_be_bytes())
        }
    }
    fn i32(&mut self, x: i32) {
        self.u32(x as u32)
    }
    fn sn(&mut self, x: i64) {
        // SequenceNumber_t { long high; unsigned long low; }
        self.i32((x >> 32) as i32);
        self.u32(x as u32);
    }
    fn bytes(&mut self, b: &[u8]) {
        self.out.extend_from_slice(b)
    }
    fn bitmap(&mut self, deltas: &[u32]) {
        // numBits, then M = (numBits+31)/32 longs; bit for delta d is bit (31 - d%32) of word d/32
        let num_bits = deltas.iter().map(|d| d + 1).max().unwrap_or(0);
        let mut words = [0u32; 8];
        for d in deltas {
            words[(d / 32) as usize] |= 1u32 << (31 - d % 32);
        }
        self.u32(num_bits);
        for w in words.iter().take(num_bits.div_ceil(32) as usize) {
            self.u32(*w);
        }
    }
    fn sn_set(&mut self, base: i64, members: &[i64]) {
        self.sn(base);
        let deltas: Vec<u32> = members.iter().map(|m| (*m as i128 - base as i128) as u32).collect();
        self.bitmap(&deltas);
    }
    fn fn_set(&mut self, base: u32, members: &[u32]) {
        self.u32(base);
        let deltas: Vec<u32> = members.iter().map(|m| m - base).collect();
        self.bitmap(&deltas);
    }
    fn qos(&mut self, qos: &[(i16, Vec<u8>)]) {
        for (pid, v) in qos {
            let padded = v.len().div_ceil(4) * 4;
            self.u16(*pid as u16);
            self.u16(padded as u16);
            self.bytes(v);
            for _ in v.len()..padded {
                self.out.push(0);
            }
        }
        self.u16(1); // PID_SENTINEL
        self.u16(0);
    }
    fn locs(&mut self, l: &[Loc]) {
        self.u32(l.len() as u32);
        for x in l {
            self.i32(x.kind);
            self.u32(x.port);
            self.bytes(&x.addr);
        }
    }
}

/// Returns the datagram and, per submessage, (offset of its header, body length).
fn encode(m: &Msg, le: bool) -> (Vec<u8>, Vec<(usize, usize)>) {
    let mut e = Enc { le, out: Vec::new() };
    e.bytes(b"RTPS");
    e.bytes(&[m.version.0, m.version.1]);
    e.bytes(&m.vendor);
    e.bytes(&m.prefix);
    let mut spans = Vec::new();
    let n = m.subs.len();
    for (i, s) in m.subs.iter().enumerate() {
        let off = e.out.len();
        let mut flags: u8 = if le { 1 } else { 0 };
        e.bytes(&[s.id(), 0, 0, 0]);
        match s {
            Sub::Data { q, d, k, n, reader, writer, sn, qos, payload } => {
                flags |= (*q as u8) << 1 | (*d as u8) << 2 | (*k as u8) << 3 | (*n as u8) << 4;
                e.u16(0);
                e.u16(16);
                e.bytes(reader);
                e.bytes(writer);
                e.sn(*sn);
                if *q {
                    e.qos(qos);
                }
                if *d || *k {
                    e.bytes(payload);
                }
            }
            Sub::DataFrag { q, k, n, reader, writer, sn, frag_start, frags, frag_size, data_size, qos, payload } => {
                flags |= (*q as u8) << 1 | (*k as u8) << 2 | (*n as u8) << 3;
                e.u16(0);
                e.u16(28);
                e.bytes(reader);
                e.bytes(writer);
                e.sn(*sn);
                e.u32(*frag_start);
                e.u16(*frags);
                e.u16(*frag_size);
                e.u32(*data_size);
                if *q {
                    e.qos(qos);
                }
                e.bytes(payload);
            }
            Sub::Heartbeat { f, l, reader, writer, first, last, count } => {
                flags |= (*f as u8) << 1 | (*l as u8) << 2;
                e.bytes(reader);
                e.bytes(writer);
                e.sn(*first);
                e.sn(*last);
                e.i32(*count);
            }
            Sub::HeartbeatFrag { reader, writer, sn, last_frag, count } => {
                e.bytes(reader);
                e.bytes(writer);
                e.sn(*sn);
                e.u32(*last_frag);
                e.i32(*count);
            }
            Sub::AckNack { f, reader, writer, base, members, count } => {
                flags |= (*f as u8) << 1;
                e.bytes(reader);
                e.bytes(writer);
                e.sn_set(*base, members);
                e.i32(*count);
            }
            Sub::Gap { reader, writer, start, base, members } => {
                e.bytes(reader);
                e.bytes(writer);
                e.sn(*start);
                e.sn_set(*base, members);
            }
            Sub::NackFrag { reader, writer, sn, base, members, count } => {
                e.bytes(reader);
                e.bytes(writer);
                e.sn(*sn);
                e.fn_set(*base, members);
                e.i32(*count);
            }
            Sub::InfoTs { invalidate, sec, frac } => {
                flags |= (*invalidate as u8) << 1;
                if !*invalidate {
                    e.u32(*sec);
                    e.u32(*frac);
                }
            }
            Sub::InfoDst { prefix } => e.bytes(prefix),
            Sub::InfoSrc { version, vendor, prefix } => {
                e.u32(0);
                e.bytes(&[version.0, version.1]);
                e.bytes(vendor);
                e.bytes(prefix);
            }
            Sub::InfoReply { m, uni, multi } => {
                flags |= (*m as u8) << 1;
                e.locs(uni);
                if *m {
                    e.locs(multi);
                }
            }
            Sub::Pad => {}
        }
        let body = e.out.len() - off - 4;
        // octetsToNextHeader: the body length; 0 = "extends to the end of the message", the only
        // way to express a last DATA/DATA_FRAG larger than 65535 octets
        let wire: u16 = if body > 0xFFFF && i == n - 1 { 0 } else { body as u16 };
        e.out[off + 1] = flags;
        let lb = if le { wire.to_le_bytes() } else { wire.to_be_bytes() };
        e.out[off + 2] = lb[0];
        e.out[off + 3] = lb[1];
        spans.push((off, body));
    }
    (e.out, spans)
}

// ------------------------------------------------------------------ generator

/// A valid sequence number (RTPS 8.3.5.4): 1..=i64::MAX, with the 2^31 / 2^32 / maximum boundaries.
fn gen_sn(rng: &mut Rng) -> (i64, &'static str) {
    match rng.below(10) {
        0 => (1, "one"),
        1 => (rng.range(2, 1000), "small"),
        2 => ((1i64 << 32) + rng.range(-2, 2), "b32"),
        3 => ((1i64 << 31) + rng.range(-2, 2), "b31"),
        4 => (((rng.below((1 << 20) - 1) as i64 + 1) << 32) + rng.range(-2, 2), "k*2^32"),
        5 => (i64::MAX - rng.below(3) as i64, "max"),
        6 => (i64::MAX - 255 - rng.below(3) as i64, "max-255"),
        7 => ((1i64 << 62) + rng.range(-2, 2), "b62"),
        _ => (rng.range(1, i64::MAX), "pos"),
    }
}

fn gen_deltas(rng: &mut Rng) -> (Vec<u32>, &'static str) {
    const EDGES: [u32; 17] = [0, 1, 30, 31, 32, 33, 63, 64, 95, 96, 127, 128, 191, 192, 223, 224, 255];
    match rng.below(8) {
        0 => (vec![], "empty"),
        1 => (vec![0], "first"),
        2 => (vec![255], "last"),
        3 => ((0..256).collect(), "full"),
        4 => {
            let mut v: Vec<u32> = EDGES.iter().copied().filter(|_| rng.bool()).collect();
            v.dedup();
            (v, "edges")
        }
        5 => (vec![*rng.pick(&EDGES)], "single_edge"),
        6 => {
            let n = rng.below(40) + 1;
            let mut v: Vec<u32> = (0..n).map(|_| rng.below(256) as u32).collect();
            v.sort();
            v.dedup();
            (v, "random")
        }
        _ => {
            let hi = rng.below(256) as u32;
            ((0..=hi).filter(|_| rng.chance(0.5)).collect(), "prefix_dense")
        }
    }
}

/// A valid SequenceNumberSet (RTPS 8.3.5.5 / 9.4.2.6): base >= 1 (`zero_base`: the base 0 some
/// vendors use in the ACKNACK sent before anything was received, which dust-dds documents as
/// accepted), members in [base, base+255], and base + numBits still a sequence number.
fn gen_sn_set(rng: &mut Rng, zero_base: bool) -> (i64, Vec<i64>, String) {
    let (base, bc) = if zero_base && rng.chance(0.08) { (0, "zero") } else { gen_sn(rng) };
    let (deltas, dc) = gen_deltas(rng);
    let members: Vec<i64> = deltas
        .iter()
        .filter_map(|d| base.checked_add(*d as i64))
        .filter(|m| *m < i64::MAX)
        .collect();
    (base, members, format!("base={bc},set={dc}"))
}

/// A valid fragment number (RTPS 8.3.5.6): 1..=u32::MAX.
fn gen_fn(rng: &mut Rng) -> (u32, &'static str) {
    match rng.below(8) {
        0 | 1 => (1, "one"),
        2 => (rng.below(1000) as u32 + 1, "small"),
        3 => ((1u32 << 31).wrapping_add(rng.range(-2, 2) as u32), "b31"),
        4 => (u32::MAX - rng.below(3) as u32, "max"),
        5 => (u32::MAX - 255 - rng.below(3) as u32, "max-255"),
        6 => ((1u32 << 16).wrapping_add(rng.range(-2, 2) as u32), "b16"),
        _ => (rng.next_u32().max(1), "any"),
    }
}

fn gen_fn_set(rng: &mut Rng) -> (u32, Vec<u32>, String) {
    let (base, bc) = gen_fn(rng);
    let (deltas, dc) = gen_deltas(rng);
    let members: Vec<u32> = deltas.iter().filter_map(|d| base.checked_add(*d)).collect();
    (base, members, format!("base={bc},set={dc}"))
}

fn gen_entity(rng: &mut Rng) -> [u8; 4] {
    const KINDS: [u8; 12] = [0x00, 0x02, 0x03, 0x04, 0x07, 0xc2, 0xc7, 0xc1, 0xc3, 0xc4, 0x08, 0x09];
    match rng.below(4) {
        0 => [0, 0, 0, 0],
        1 => [0xff, 0xff, 0xff, 0xff],
        2 => {
            let k = rng.next_u32().to_le_bytes();
            [k[0], k[1], k[2], *rng.pick(&KINDS)]
        }
        _ => rng.next_u32().to_le_bytes(),
    }
}

fn gen_count(rng: &mut Rng) -> i32 {
    match rng.below(6) {
        0 => 0,
        1 => 1,
        2 => i32::MAX,
        3 => i32::MIN,
        4 => -1,
        _ => rng.next_u32() as i32,
    }
}

fn gen_prefix(rng: &mut Rng) -> [u8; 12] {
    let mut p = [0u8; 12];
    match rng.below(4) {
        0 => {}
        1 => p = [0xff; 12],
        _ => p.copy_from_slice(&rng.bytes(12)),
    }
    p
}

fn gen_qos(rng: &mut Rng, last: bool) -> (Vec<(i16, Vec<u8>)>, &'static str) {
    let (n, class) = match rng.below(6) {
        0 => (0, "q0"),
        1 => (1, "q1"),
        2 => (2, "q2"),
        3 => (rng.below(6) as usize + 3, "q3-8"),
        4 => (1, "q_big"),
        _ => (rng.below(3) as usize + 1, "q_unaligned"),
    };
    let mut v = Vec::new();
    for _ in 0..n {
        // any parameter id except PID_SENTINEL (1), which terminates the list by definition
        let mut pid = match rng.below(5) {
            0 => 0x0070, // PID_KEY_HASH
            1 => 0x0071, // PID_STATUS_INFO
            2 => (0x8000u16 | rng.below(0x4000) as u16) as i16,
            3 => 0, // PID_PAD
            _ => rng.next_u32() as i16,
        };
        if pid == 1 {
            pid = 2;
        }
        let len = match class {
            // a parameter of 65528/65532 octets makes the body exceed 65535: only expressible last
            "q_big" if last => *rng.pick(&[1024usize, 32764, 32768, 65000, 65528, 65532]),
            "q_big" => *rng.pick(&[1024usize, 32764, 32768, 65000]),
            "q_unaligned" => rng.below(40) as usize,
            _ => *rng.pick(&[0usize, 4, 4, 16, 16, 8, 12, 64]),
        };
        v.push((pid, rng.bytes(len)));
    }
    (v, class)
}

fn qos_encoded_len(qos: &[(i16, Vec<u8>)]) -> usize {
    qos.iter().map(|(_, v)| 4 + v.len().div_ceil(4) * 4).sum::<usize>() + 4
}

/// Payload length so that the submessage body gets the wanted size class.
/// `fixed` = body octets before the payload. Large bodies only for the last submessage, where
/// RTPS can express them (octetsToNextHeader = 0).
fn gen_payload_len(rng: &mut Rng, fixed: usize, last: bool) -> (usize, &'static str) {
    let room = 0xFFFFusize.saturating_sub(fixed);
    let pick = rng.below(100);
    let (len, class) = if pick < 8 {
        (0, "p0")
    } else if pick < 50 {
        (rng.below(64) as usize + 1, "p1-64")
    } else if pick < 70 {
        (rng.below(1400) as usize + 65, "p65-1464")
    } else if pick < 78 {
        (rng.below(8000) as usize + 1465, "p<9465")
    } else if pick < 84 {
        (rng.below(56_000) as usize + 9465, "p<65535")
    } else if pick < 90 {
        // body length exactly at / just below the 16-bit limit
        (room.saturating_sub(rng.below(6) as usize), "body=65535-")
    } else if last {
        if pick < 95 {
            (room + 1 + rng.below(6) as usize, "body=65536+")
        } else {
            (room + 1 + rng.below(4500) as usize, "body<=70000")
        }
    } else {
        (rng.below(300) as usize, "p1-64")
    };
    if last {
        (len, class)
    } else {
        // keep following submessages 4-byte aligned, as RTPS requires
        ((len.min(room)) & !3, class)
    }
}

fn gen_locs(rng: &mut Rng) -> Vec<Loc> {
    let n = rng.below(4) as usize;
    (0..n)
        .map(|_| {
            let mut addr = [0u8; 16];
            if rng.bool() {
                addr[12..].copy_from_slice(&rng.bytes(4));
            } else {
                addr.copy_from_slice(&rng.bytes(16));
            }
            Loc {
                kind: *rng.pick(&[1, 2, -1, 0, i32::MAX, i32::MIN]),
                port: *rng.pick(&[0u32, 7400, 7410, 65535, 65536, u32::MAX]),
                addr,
            }
        })
        .collect()
}

/// Returns the submessage and its field-class string (the feature that is hashed as evidence).
fn gen_sub(rng: &mut Rng, kind: u64, last: bool) -> (Sub, String) {
    match kind {
        0 => {
            let q = rng.chance(0.5);
            let (d, k) = *rng.pick(&[(true, false), (true, false), (false, true), (false, false)]);
            let n = rng.chance(0.1);
            let (qos, qc) = if q { gen_qos(rng, last) } else { (vec![], "-") };
            let (sn, snc) = gen_sn(rng);
            let fixed = 20 + if q { qos_encoded_len(&qos) } else { 0 };
            let (plen, pc) = if d || k { gen_payload_len(rng, fixed, last) } else { (0, "none") };
            let s = Sub::Data {
                q,
                d,
                k,
                n,
                reader: gen_entity(rng),
                writer: gen_entity(rng),
                sn,
                qos,
                payload: rng.bytes(plen),
            };
            (s, format!("DATA|Q{}D{}K{}N{}|sn={snc}|qos={qc}|{pc}", q as u8, d as u8, k as u8, n as u8))
        }
        1 => {
            let q = rng.chance(0.4);
            let k = rng.chance(0.3);
            let n = rng.chance(0.1);
            let (qos, qc) = if q { gen_qos(rng, last) } else { (vec![], "-") };
            let (sn, snc) = gen_sn(rng);
            let fixed = 32 + if q { qos_encoded_len(&qos) } else { 0 };
            let (plen, pc) = gen_payload_len(rng, fixed, last);
            // fragment fields that make a valid DATA_FRAG (RTPS 8.3.7.3.3): fragmentStartingNum >= 1,
            // fragmentSize <= dataSize, the fragments lie inside the sample, payload <= frags * size
            let min_frags = plen.div_ceil(65535).max(1) as u64;
            let frags = match rng.below(5) {
                0 => min_frags,
                1 => min_frags + 1,
                2 => (min_frags + rng.below(300)).min(65535),
                3 => 65535,
                _ => (min_frags + rng.below(4)).min(65535),
            };
            let min_size = (plen as u64).div_ceil(frags).max(1);
            let frag_size = match rng.below(4) {
                0 => min_size,
                1 => 65535,
                2 => min_size.max(*rng.pick(&[1u64, 8, 1344, 65000])),
                _ => min_size + rng.below(65535 - min_size + 1),
            };
            let max_start = (u32::MAX as u64 / frag_size).saturating_sub(frags).max(1);
            let (frag_start, fc) = match rng.below(5) {
                0 => (1u64, "one"),
                1 => (max_start, "max"),
                2 => (rng.below(1000).min(max_start - 1) + 1, "small"),
                3 => (((1u64 << 16) + rng.below(5)).saturating_sub(2).clamp(1, max_start), "b16"),
                _ => (rng.below(max_start) + 1, "any"),
            };
            // the sample must reach at least into the last fragment of this submessage
            let min_data = ((frag_start + frags - 2) * frag_size + 1).max(frag_size);
            let data_size = match rng.below(4) {
                0 => min_data,
                1 => u32::MAX as u64,
                2 => (frag_start + frags - 1) * frag_size,
                _ => min_data + rng.below(u32::MAX as u64 - min_data + 1),
            }
            .clamp(min_data, u32::MAX as u64);
            let s = Sub::DataFrag {
                q,
                k,
                n,
                reader: gen_entity(rng),
                writer: gen_entity(rng),
                sn,
                frag_start: frag_start as u32,
                frags: frags as u16,
                frag_size: frag_size as u16,
                data_size: data_size as u32,
                qos,
                payload: rng.bytes(plen),
            };
            (s, format!("DATA_FRAG|Q{}K{}N{}|sn={snc}|frag={fc}|qos={qc}|{pc}", q as u8, k as u8, n as u8))
        }
        2 => {
            // valid HEARTBEAT (RTPS 8.3.7.5.3): firstSN >= 1, lastSN >= firstSN - 1
            let (first, c1) = gen_sn(rng);
            let (last_sn, c2) = match rng.below(6) {
                0 => (first - 1, "first-1"),
                1 => (first, "first"),
                2 => (first.saturating_add(rng.range(1, 300)), "first+n"),
                3 => (i64::MAX, "max"),
                4 => (first.saturating_add(1i64 << 32), "first+2^32"),
                _ => (rng.range(first, i64::MAX), "any"),
            };
            let f = rng.bool();
            let l = rng.bool();
            (
                Sub::Heartbeat { f, l, reader: gen_entity(rng), writer: gen_entity(rng), first, last: last_sn, count: gen_count(rng) },
                format!("HEARTBEAT|F{}L{}|first={c1}|last={c2}", f as u8, l as u8),
            )
        }
        3 => {
            let (sn, c) = gen_sn(rng);
            let (lf, fc) = gen_fn(rng);
            (
                Sub::HeartbeatFrag { reader: gen_entity(rng), writer: gen_entity(rng), sn, last_frag: lf, count: gen_count(rng) },
                format!("HEARTBEAT_FRAG|sn={c}|frag={fc}"),
            )
        }
        4 => {
            let (base, members, c) = gen_sn_set(rng, true);
            let f = rng.bool();
            (
                Sub::AckNack { f, reader: gen_entity(rng), writer: gen_entity(rng), base, members, count: gen_count(rng) },
                format!("ACKNACK|F{}|{c}", f as u8),
            )
        }
        5 => {
            let (start, sc) = gen_sn(rng);
            let (base, members, c) = gen_sn_set(rng, false);
            (
                Sub::Gap { reader: gen_entity(rng), writer: gen_entity(rng), start, base, members },
                format!("GAP|start={sc}|{c}"),
            )
        }
        6 => {
            let (sn, sc) = gen_sn(rng);
            let (base, members, c) = gen_fn_set(rng);
            (
                Sub::NackFrag { reader: gen_entity(rng), writer: gen_entity(rng), sn, base, members, count: gen_count(rng) },
                format!("NACK_FRAG|sn={sc}|{c}"),
            )
        }
        7 => {
            let invalidate = rng.chance(0.25);
            if invalidate {
                // an invalidated timestamp carries no value on the wire: TIME_INVALID by definition
                (Sub::InfoTs { invalidate, sec: TIME_INVALID.seconds(), frac: TIME_INVALID.fraction() }, "INFO_TS|I1".into())
            } else {
                let sec = *rng.pick(&[0u32, 1, 0x7fff_ffff, 0x8000_0000, 0xffff_ffff, 1_700_000_000]);
                let frac = match rng.below(4) {
                    0 => 0,
                    1 => u32::MAX,
                    2 => 0x8000_0000,
                    _ => rng.next_u32(),
                };
                (Sub::InfoTs { invalidate, sec, frac }, "INFO_TS|I0".into())
            }
        }
        8 => (Sub::InfoDst { prefix: gen_prefix(rng) }, "INFO_DST".into()),
        9 => (
            Sub::InfoSrc {
                version: (*rng.pick(&[2u8, 1, 0, 255]), *rng.pick(&[4u8, 1, 3, 0, 255])),
                vendor: [rng.next_u32() as u8, rng.next_u32() as u8],
                prefix: gen_prefix(rng),
            },
            "INFO_SRC".into(),
        ),
        10 => {
            let m = rng.bool();
            let uni = gen_locs(rng);
            let multi = if m { gen_locs(rng) } else { vec![] };
            let c = format!("INFO_REPLY|M{}|u{}|m{}", m as u8, uni.len(), multi.len());
            (Sub::InfoReply { m, uni, multi }, c)
        }
        _ => (Sub::Pad, "PAD".into()),
    }
}

fn gen_msg(case_seed: u64) -> (Msg, Vec<String>) {
    let mut rng = Rng::new(case_seed);
    let n = rng.below(5) as usize + 1;
    let mut subs = Vec::new();
    let mut classes = Vec::new();
    for i in 0..n {
        // DATA / DATA_FRAG get a larger share, they carry the aim point
        let kind = if rng.chance(0.3) { rng.below(2) } else { rng.below(12) };
        let (s, c) = gen_sub(&mut rng, kind, i == n - 1);
        subs.push(s);
        classes.push(c);
    }
    let m = Msg {
        version: (*rng.pick(&[2u8, 2, 2, 1, 255]), *rng.pick(&[4u8, 4, 3, 1, 0, 255])),
        vendor: *rng.pick(&[[0x01, 0x14], [0, 0], [0xff, 0xff], [0x01, 0x0f]]),
        prefix: gen_prefix(&mut rng),
        subs,
    };
    (m, classes)
}

// ------------------------------------------------------------------ dust-dds side

fn eid(b: &[u8; 4]) -> EntityId {
    EntityId::new([b[0], b[1], b[2]], b[3])
}
fn plist(q: &[(i16, Vec<u8>)]) -> ParameterList {
    ParameterList::new(
        q.iter()
            .map(|(pid, v)| Parameter::new(*pid, Arc::from(v.as_slice())))
            .collect(),
    )
}
fn dlocs(l: &[Loc]) -> LocatorList {
    LocatorList::new(l.iter().map(|x| Locator::new(x.kind, x.port, x.addr)).collect())
}

fn build_sub(s: &Sub) -> Box<dyn Submessage + Send> {
    match s {
        Sub::Data { q, d, k, n, reader, writer, sn, qos, payload } => Box::new(DataSubmessage::new(
            *q,
            *d,
            *k,
            *n,
            eid(reader),
            eid(writer),
            *sn,
            plist(qos),
            Data::new(Arc::from(payload.as_slice())),
        )),
        Sub::DataFrag { q, k, n, reader, writer, sn, frag_start, frags, frag_size, data_size, qos, payload } => {
            Box::new(DataFragSubmessage::new(
                *q,
                *n,
                *k,
                eid(reader),
                eid(writer),
                *sn,
                *frag_start,
                *frags,
                *frag_size,
                *data_size,
                plist(qos),
                SerializedDataFragment::from(payload.as_slice()),
            ))
        }
        Sub::Heartbeat { f, l, reader, writer, first, last, count } => {
            Box::new(HeartbeatSubmessage::new(*f, *l, eid(reader), eid(writer), *first, *last, *count))
        }
        Sub::HeartbeatFrag { reader, writer, sn, last_frag, count } => {
            Box::new(HeartbeatFragSubmessage::_new(eid(reader), eid(writer), *sn, *last_frag, *count))
        }
        Sub::AckNack { f, reader, writer, base, members, count } => Box::new(AckNackSubmessage::new(
            *f,
            eid(reader),
            eid(writer),
            SequenceNumberSet::new(*base, members.iter().copied()),
            *count,
        )),
        Sub::Gap { reader, writer, start, base, members } => Box::new(GapSubmessage::new(
            eid(reader),
            eid(writer),
            *start,
            SequenceNumberSet::new(*base, members.iter().copied()),
        )),
        Sub::NackFrag { reader, writer, sn, base, members, count } => Box::new(NackFragSubmessage::new(
            eid(reader),
            eid(writer),
            *sn,
            FragmentNumberSet::new(*base, members.iter().copied()),
            *count,
        )),
        Sub::InfoTs { invalidate, sec, frac } => {
            Box::new(InfoTimestampSubmessage::new(*invalidate, MsgTime::new(*sec, *frac)))
        }
        Sub::InfoDst { prefix } => Box::new(InfoDestinationSubmessage::new(*prefix)),
        Sub::InfoSrc { version, vendor, prefix } => Box::new(InfoSourceSubmessage::_new(
            ProtocolVersion::new(version.0, version.1),
            *vendor,
            *prefix,
        )),
        Sub::InfoReply { m, uni, multi } => Box::new(InfoReplySubmessage::_new(*m, dlocs(uni), dlocs(multi))),
        Sub::Pad => Box::new(PadSubmessage::new()),
    }
}

fn header_of(m: &Msg) -> RtpsMessageHeader {
    RtpsMessageHeader::new(ProtocolVersion::new(m.version.0, m.version.1), m.vendor, m.prefix)
}

/// Build the message with its first `upto` submessages.
fn build(m: &Msg, upto: usize) -> Vec<u8> {
    let subs: Vec<Box<dyn Submessage + Send>> = m.subs[..upto].iter().map(build_sub).collect();
    let refs: Vec<&(dyn Submessage + Send)> = subs.iter().map(|b| b.as_ref()).collect();
    RtpsMessageWrite::new(&header_of(m), &refs).buffer().to_vec()
}

fn read_as_sub(k: &RtpsSubmessageReadKind) -> &(dyn Submessage + Send) {
    match k {
        RtpsSubmessageReadKind::AckNack(s) => s,
        RtpsSubmessageReadKind::Data(s) => s,
        RtpsSubmessageReadKind::DataFrag(s) => s,
        RtpsSubmessageReadKind::Gap(s) => s,
        RtpsSubmessageReadKind::Heartbeat(s) => s,
        RtpsSubmessageReadKind::HeartbeatFrag(s) => s,
        RtpsSubmessageReadKind::InfoDestination(s) => s,
        RtpsSubmessageReadKind::InfoReply(s) => s,
        RtpsSubmessageReadKind::InfoSource(s) => s,
        RtpsSubmessageReadKind::InfoTimestamp(s) => s,
        RtpsSubmessageReadKind::NackFrag(s) => s,
        RtpsSubmessageReadKind::Pad(s) => s,
    }
}

fn read_kind_name(k: &RtpsSubmessageReadKind) -> &'static str {
    match k {
        RtpsSubmessageReadKind::AckNack(_) => "ACKNACK",
        RtpsSubmessageReadKind::Data(_) => "DATA",
        RtpsSubmessageReadKind::DataFrag(_) => "DATA_FRAG",
        RtpsSubmessageReadKind::Gap(_) => "GAP",
        RtpsSubmessageReadKind::Heartbeat(_) => "HEARTBEAT",
        RtpsSubmessageReadKind::HeartbeatFrag(_) => "HEARTBEAT_FRAG",
        RtpsSubmessageReadKind::InfoDestination(_) => "INFO_DST",
        RtpsSubmessageReadKind::InfoReply(_) => "INFO_REPLY",
        RtpsSubmessageReadKind::InfoSource(_) => "INFO_SRC",
        RtpsSubmessageReadKind::InfoTimestamp(_) => "INFO_TS",
        RtpsSubmessageReadKind::NackFrag(_) => "NACK_FRAG",
        RtpsSubmessageReadKind::Pad(_) => "PAD",
    }
}

fn qos_eq(model: &[(i16, Vec<u8>)], got: &ParameterList) -> bool {
    let g = got.parameter();
    if g.len() != model.len() {
        return false;
    }
    for ((pid, v), p) in model.iter().zip(g) {
        if p.parameter_id() != *pid {
            return false;
        }
        // a parameter value travels padded with zeros to a multiple of 4
        let pv = p.value();
        let padded = v.len().div_ceil(4) * 4;
        if pv.len() != padded || pv[..v.len()] != v[..] || pv[v.len()..].iter().any(|b| *b != 0) {
            return false;
        }
    }
    true
}

fn locs_eq(model: &[Loc], got: &LocatorList) -> bool {
    let g = got.value();
    g.len() == model.len()
        && model
            .iter()
            .zip(g)
            .all(|(m, l)| l.kind() == m.kind && l.port() == m.port && l.address() == m.addr)
}

/// First field of the decoded submessage that differs from the model.
fn compare_sub(model: &Sub, got: &RtpsSubmessageReadKind) -> Option<&'static str> {
    use RtpsSubmessageReadKind as R;
    macro_rules! chk {
        ($cond:expr, $field:expr) => {
            if !($cond) {
                return Some($field);
            }
        };
    }
    match (model, got) {
        (Sub::Data { q, d, k, n, reader, writer, sn, qos, payload }, R::Data(g)) => {
            chk!(g._inline_qos_flag() == *q && g._data_flag() == *d && g._key_flag() == *k && g._non_standard_payload_flag() == *n, "flags");
            chk!(g.reader_id() == eid(reader) && g.writer_id() == eid(writer), "entity_id");
            chk!(g.writer_sn() == *sn, "sequence_number");
            chk!(qos_eq(qos, g.inline_qos()), "inline_qos");
            let want: &[u8] = if *d || *k { payload } else { &[] };
            chk!(g.serialized_payload().as_ref() == want, "payload");
        }
        (Sub::DataFrag { q, k, n, reader, writer, sn, frag_start, frags, frag_size, data_size, qos, payload }, R::DataFrag(g)) => {
            chk!(g.inline_qos_flag() == *q && g.key_flag() == *k && g._non_standard_payload_flag() == *n, "flags");
            chk!(g.reader_id() == eid(reader) && g.writer_id() == eid(writer), "entity_id");
            chk!(g.writer_sn() == *sn, "sequence_number");
            chk!(
                g.fragment_starting_num() == *frag_start
                    && g.fragments_in_submessage() == *frags
                    && g.fragment_size() == *frag_size
                    && g.data_size() == *data_size,
                "fragment_fields"
            );
            chk!(qos_eq(qos, g.inline_qos()), "inline_qos");
            chk!(g.serialized_payload().as_ref() == payload.as_slice(), "payload");
        }
        (Sub::Heartbeat { f, l, reader, writer, first, last, count }, R::Heartbeat(g)) => {
            chk!(g.final_flag() == *f && g.liveliness_flag() == *l, "flags");
            chk!(g._reader_id() == eid(reader) && g.writer_id() == eid(writer), "entity_id");
            chk!(g.first_sn() == *first && g.last_sn() == *last, "sequence_number");
            chk!(g.count() == *count, "count");
        }
        (Sub::HeartbeatFrag { reader, writer, sn, last_frag, count }, R::HeartbeatFrag(g)) => {
            chk!(g._reader_id() == eid(reader) && g.writer_id() == eid(writer), "entity_id");
            chk!(g._writer_sn() == *sn, "sequence_number");
            chk!(g._last_fragment_num() == *last_frag, "fragment_fields");
            chk!(g.count() == *count, "count");
        }
        (Sub::AckNack { f, reader, writer, base, members, count }, R::AckNack(g)) => {
            chk!(g._final_flag() == *f, "flags");
            chk!(*g.reader_id() == eid(reader) && *g.writer_id() == eid(writer), "entity_id");
            chk!(g.reader_sn_state().base() == *base, "set_base");
            chk!(g.reader_sn_state().set().collect::<Vec<_>>() == *members, "set_members");
            chk!(g.count() == *count, "count");
        }
        (Sub::Gap { reader, writer, start, base, members }, R::Gap(g)) => {
            chk!(g._reader_id() == eid(reader) && g.writer_id() == eid(writer), "entity_id");
            chk!(g.gap_start() == *start, "sequence_number");
            chk!(g.gap_list().base() == *base, "set_base");
            chk!(g.gap_list().set().collect::<Vec<_>>() == *members, "set_members");
        }
        (Sub::NackFrag { reader, writer, sn, base, members, count }, R::NackFrag(g)) => {
            chk!(g.reader_id() == eid(reader) && g._writer_id() == eid(writer), "entity_id");
            chk!(g.writer_sn() == *sn, "sequence_number");
            chk!(g.fragment_number_state().base() == *base, "set_base");
            chk!(g.fragment_number_state().set().collect::<Vec<_>>() == *members, "set_members");
            chk!(g.count() == *count, "count");
        }
        (Sub::InfoTs { invalidate, sec, frac }, R::InfoTimestamp(g)) => {
            chk!(g.invalidate_flag() == *invalidate, "flags");
            chk!(g.timestamp().seconds() == *sec && g.timestamp().fraction() == *frac, "timestamp");
        }
        (Sub::InfoDst { prefix }, R::InfoDestination(g)) => {
            chk!(g.guid_prefix() == *prefix, "guid_prefix");
        }
        (Sub::InfoSrc { version, vendor, prefix }, R::InfoSource(g)) => {
            chk!(g.protocol_version() == ProtocolVersion::new(version.0, version.1), "version");
            chk!(g.vendor_id() == *vendor, "vendor_id");
            chk!(g.guid_prefix() == *prefix, "guid_prefix");
        }
        (Sub::InfoReply { m, uni, multi }, R::InfoReply(g)) => {
            chk!(g._multicast_flag() == *m, "multicast_flag");
            chk!(locs_eq(uni, g._unicast_locator_list()), "unicast_locators");
            let want: &[Loc] = if *m { multi } else { &[] };
            chk!(locs_eq(want, g._multicast_locator_list()), "multicast_locators");
        }
        (Sub::Pad, R::Pad(_)) => {}
        _ => return Some("submessage_kind"),
    }
    None
}

struct Finding {
    class: &'static str,
    kind: String,
    field: String,
    size: &'static str,
    enc: &'static str,
    what: String,
}
impl Finding {
    fn sig(&self) -> String {
        format!("{}|kind={}|field={}|size={}|enc={}", self.class, self.kind, self.field, self.size, self.enc)
    }
}

fn size_class(body: usize) -> &'static str {
    if body > 0xFFFF { "gt65535" } else { "le65535" }
}

/// Compare a decode result with the model; `spans` = expected body length per submessage.
fn compare_msg(m: &Msg, got: &RtpsMessageRead, spans: &[(usize, usize)], enc: &'static str) -> Option<Finding> {
    let h = got.header();
    if h.version() != ProtocolVersion::new(m.version.0, m.version.1) || h.vendor_id() != m.vendor || h.guid_prefix() != m.prefix {
        return Some(Finding {
            class: "value_mismatch",
            kind: "HEADER".into(),
            field: "header".into(),
            size: "le65535",
            enc,
            what: format!("decoded header {h:?} differs from the built one"),
        });
    }
    let subs = got.submessages();
    for (i, s) in m.subs.iter().enumerate() {
        let Some(g) = subs.get(i) else {
            return Some(Finding {
                class: "value_mismatch",
                kind: s.kind().into(),
                field: "submessage_missing".into(),
                size: size_class(spans[i].1),
                enc,
                what: format!(
                    "submessage {i} ({}, body {} octets) missing after decode: {} of {} submessages decoded",
                    s.kind(),
                    spans[i].1,
                    subs.len(),
                    m.subs.len()
                ),
            });
        };
        if let Some(field) = compare_sub(s, g) {
            return Some(Finding {
                class: "value_mismatch",
                kind: s.kind().into(),
                field: field.into(),
                size: size_class(spans[i].1),
                enc,
                what: format!(
                    "submessage {i} ({}, body {} octets): field class `{field}` differs after decode (decoded as {})",
                    s.kind(),
                    spans[i].1,
                    read_kind_name(g)
                ),
            });
        }
    }
    if subs.len() != m.subs.len() {
        let last = m.subs.last().unwrap();
        return Some(Finding {
            class: "value_mismatch",
            kind: last.kind().into(),
            field: "extra_submessages".into(),
            size: size_class(spans.last().unwrap().1),
            enc,
            what: format!("{} submessages decoded, {} built", subs.len(), m.subs.len()),
        });
    }
    None
}

#[derive(Default)]
struct CaseOut {
    findings: Vec<Finding>,
    panics: Vec<(String, String)>,
    le_len: usize,
    be_len: usize,
    le_equal_independent: bool,
    spans: Vec<(usize, usize)>,
}

fn run_case(m: &Msg) -> CaseOut {
    let mut out = CaseOut::default();
    let (ref_le, spans) = encode(m, true);
    let (ref_be, _) = encode(m, false);
    out.spans = spans.clone();
    out.be_len = ref_be.len();
    let n = m.subs.len();

    // ---- (A) little endian: what dust-dds builds
    let mut le_read: Option<RtpsMessageRead> = None;
    'le: {
        // prefix builds: real encoded length of every submessage
        let built = util::guarded(|| (0..=n).map(|i| build(m, i)).collect::<Vec<_>>());
        let prefixes = match built {
            Ok(p) => p,
            Err(p) => {
                out.panics.push((util::panic_sig(&p), format!("building the message panicked: {} at {}", p.msg, p.loc)));
                break 'le;
            }
        };
        let bytes = prefixes[n].clone();
        out.le_len = bytes.len();
        out.le_equal_independent = bytes == ref_le;
        // (2) length oracle
        let w = rtpswalk::walk(&bytes);
        let mut off = 20usize;
        for i in 0..n {
            let real = prefixes[i + 1].len().wrapping_sub(prefixes[i].len()).wrapping_sub(4);
            let s = &m.subs[i];
            let size = size_class(real);
            let bad = |what: String| Finding {
                class: "length_mismatch",
                kind: s.kind().into(),
                field: "octetsToNextHeader".into(),
                size,
                enc: "le",
                what,
            };
            if prefixes[i + 1].len() < prefixes[i].len() + 4 || bytes[..prefixes[i + 1].len()] != prefixes[i + 1][..] {
                out.findings.push(bad(format!("submessage {i} ({}): encoding is not a prefix-stable sequence of submessages", s.kind())));
                break 'le;
            }
            let Some(ws) = w.subs.get(i) else {
                out.findings.push(bad(format!(
                    "independent walk found only {} of {n} submessages (truncated={}); submessage {i} ({}) has {real} body octets",
                    w.subs.len(),
                    w.truncated,
                    s.kind()
                )));
                break 'le;
            };
            if ws.offset != off || ws.id != s.id() {
                out.findings.push(bad(format!(
                    "independent walk is at offset {} (id {:#04x}) where submessage {i} ({}) starts at {off}",
                    ws.offset,
                    ws.id,
                    s.kind()
                )));
                break 'le;
            }
            let zero_ok = i == n - 1 && s.is_data();
            if !(ws.wire_len as usize == real || (ws.wire_len == 0 && zero_ok)) {
                out.findings.push(bad(format!(
                    "submessage {i} ({}{}): octetsToNextHeader = {} but the encoded submessage has {real} octets after its header",
                    s.kind(),
                    if i == n - 1 { ", last" } else { "" },
                    ws.wire_len
                )));
                break 'le;
            }
            off += 4 + real;
        }
        if off != bytes.len() || w.truncated || w.subs.len() != n {
            let s = &m.subs[n - 1];
            out.findings.push(Finding {
                class: "length_mismatch",
                kind: s.kind().into(),
                field: "datagram_not_consumed".into(),
                size: size_class(spans[n - 1].1),
                enc: "le",
                what: format!("walk ends at {off} of {} octets ({} submessages walked, {n} built)", bytes.len(), w.subs.len()),
            });
            break 'le;
        }
        // (1) decode and compare
        let dec = util::guarded(|| RtpsMessageRead::try_from(bytes.as_slice()));
        let read = match dec {
            Err(p) => {
                out.panics.push((util::panic_sig(&p), format!("decoding the built message panicked: {} at {}", p.msg, p.loc)));
                break 'le;
            }
            Ok(Err(e)) => {
                out.findings.push(Finding {
                    class: "decode_error",
                    kind: m.subs[0].kind().into(),
                    field: format!("{e:?}"),
                    size: "le65535",
                    enc: "le",
                    what: format!("RtpsMessageRead::try_from failed on a message built by RtpsMessageWrite: {e:?}"),
                });
                break 'le;
            }
            Ok(Ok(r)) => r,
        };
        if let Some(f) = compare_msg(m, &read, &spans, "le") {
            out.findings.push(f);
            break 'le;
        }
        // re-encode what was decoded
        let re = util::guarded(|| {
            let refs: Vec<&(dyn Submessage + Send)> = read.submessages().iter().map(read_as_sub).collect();
            RtpsMessageWrite::new(&read.header(), &refs).buffer().to_vec()
        });
        match re {
            Err(p) => out.panics.push((util::panic_sig(&p), format!("re-encoding the decoded message panicked: {} at {}", p.msg, p.loc))),
            Ok(b) => {
                if b != bytes {
                    let i = b.iter().zip(&bytes).position(|(x, y)| x != y).unwrap_or(b.len().min(bytes.len()));
                    let idx = spans.iter().rposition(|(o, _)| *o <= i).unwrap_or(0);
                    out.findings.push(Finding {
                        class: "reencode_mismatch",
                        kind: m.subs[idx].kind().into(),
                        field: "bytes".into(),
                        size: size_class(spans[idx].1),
                        enc: "le",
                        what: format!("decoded message re-encodes to different bytes (first difference at octet {i}, {} vs {} octets)", b.len(), bytes.len()),
                    });
                    break 'le;
                }
            }
        }
        le_read = Some(read);
    }

    // ---- (B) big endian, independent encoder
    'be: {
        let dec = util::guarded(|| RtpsMessageRead::try_from(ref_be.as_slice()));
        let read = match dec {
            Err(p) => {
                out.panics.push((util::panic_sig(&p), format!("decoding the big-endian message panicked: {} at {}", p.msg, p.loc)));
                break 'be;
            }
            Ok(Err(e)) => {
                out.findings.push(Finding {
                    class: "decode_error",
                    kind: m.subs[0].kind().into(),
                    field: format!("{e:?}"),
                    size: "le65535",
                    enc: "be",
                    what: format!("RtpsMessageRead::try_from failed on the big-endian encoding: {e:?}"),
                });
                break 'be;
            }
            Ok(Ok(r)) => r,
        };
        if let Some(f) = compare_msg(m, &read, &spans, "be") {
            out.findings.push(f);
            break 'be;
        }
        if let Some(le) = &le_read {
            if *le != read {
                let idx = le
                    .submessages()
                    .iter()
                    .zip(read.submessages())
                    .position(|(a, b)| a != b)
                    .unwrap_or(0);
                out.findings.push(Finding {
                    class: "le_be_differ",
                    kind: m.subs[idx.min(n - 1)].kind().into(),
                    field: "partial_eq".into(),
                    size: size_class(spans[idx.min(n - 1)].1),
                    enc: "be",
                    what: format!("big-endian decode != little-endian decode (PartialEq) at submessage {idx}"),
                });
            }
        }
    }
    out
}

fn sub_json(s: &Sub, body: usize) -> Json {
    let j = Json::obj().set("kind", s.kind()).set("body_octets", body);
    match s {
        Sub::Data { q, d, k, sn, qos, payload, .. } => j
            .set("flags", format!("Q{}D{}K{}", *q as u8, *d as u8, *k as u8))
            .set("writer_sn", *sn)
            .set("inline_qos_parameters", qos.len())
            .set("payload_octets", payload.len()),
        Sub::DataFrag { q, k, sn, frag_start, frags, frag_size, data_size, qos, payload, .. } => j
            .set("flags", format!("Q{}K{}", *q as u8, *k as u8))
            .set("writer_sn", *sn)
            .set("fragment_starting_num", *frag_start)
            .set("fragments_in_submessage", *frags)
            .set("fragment_size", *frag_size)
            .set("data_size", *data_size)
            .set("inline_qos_parameters", qos.len())
            .set("payload_octets", payload.len()),
        Sub::Heartbeat { first, last, count, .. } => j.set("first_sn", *first).set("last_sn", *last).set("count", *count),
        Sub::HeartbeatFrag { sn, last_frag, count, .. } => j.set("writer_sn", *sn).set("last_fragment_num", *last_frag).set("count", *count),
        Sub::AckNack { base, members, count, .. } => j
            .set("base", *base)
            .set("members", members.len())
            .set("last_member", members.last().copied())
            .set("count", *count),
        Sub::Gap { start, base, members, .. } => j
            .set("gap_start", *start)
            .set("base", *base)
            .set("members", members.len())
            .set("last_member", members.last().copied()),
        Sub::NackFrag { sn, base, members, count, .. } => j
            .set("writer_sn", *sn)
            .set("base", *base)
            .set("members", members.len())
            .set("last_member", members.last().copied())
            .set("count", *count),
        Sub::InfoTs { invalidate, sec, frac } => j.set("invalidate", *invalidate).set("seconds", *sec).set("fraction", *frac),
        Sub::InfoReply { m, uni, multi } => j.set("multicast_flag", *m).set("unicast", uni.len()).set("multicast", multi.len()),
        _ => j,
    }
}

fn one(r: &mut Report, case_seed: u64, sample: bool) {
    let (m, classes) = gen_msg(case_seed);
    let out = run_case(&m);
    r.eval();
    r.stat("messages_built", 1);
    r.stat("submessages_built", m.subs.len() as i128);
    r.stat("le_octets", out.le_len as i128);
    r.stat("be_octets", out.be_len as i128);
    r.maxstat("max_message_octets", out.le_len as i128);
    if out.le_equal_independent {
        r.stat("le_bytes_equal_independent_encoder", 1);
    } else if out.findings.is_empty() && out.panics.is_empty() {
        // informational only: no oracle failed, yet dust-dds chose other octets than the reference
        r.stat("le_bytes_differ_from_independent_encoder_without_finding", 1);
    } else {
        r.stat("le_bytes_differ_from_independent_encoder", 1);
    }
    for (i, s) in m.subs.iter().enumerate() {
        r.stat(&format!("sub_{}", s.kind()), 1);
        let body = out.spans[i].1;
        if body > 0xFFFF {
            r.stat("submessages_gt65535", 1);
        }
        r.maxstat("max_submessage_body_octets", body as i128);
        let pos = if i == m.subs.len() - 1 { "last" } else { "inner" };
        r.nontrivial(util::hash_str(&format!("{}|{}|{}", classes[i], size_class(body), pos)));
    }
    let shape: Vec<&str> = m.subs.iter().map(|s| s.kind()).collect();
    r.nontrivial(util::hash_str(&format!("shape|{}", shape.join(","))));
    let summary = Json::obj()
        .set("case_seed", util::u64_json(case_seed))
        .set("header", format!("version {}.{} vendor {:02x}{:02x} prefix {}", m.version.0, m.version.1, m.vendor[0], m.vendor[1], vcore::hex(&m.prefix)))
        .set("submessages", m.subs.iter().enumerate().map(|(i, s)| sub_json(s, out.spans[i].1)).collect::<Vec<_>>())
        .set("message_octets", out.le_len);
    if sample {
        r.sample(summary.clone().set("outcome", if out.findings.is_empty() && out.panics.is_empty() { "round trip ok (LE + BE)" } else { "violation" }));
    }
    let replay = Json::obj().set("case_seed", util::u64_json(case_seed)).set("model", summary);
    if out.findings.is_empty() && out.panics.is_empty() {
        r.stat("roundtrip_ok", 1);
    }
    for (sig, what) in out.panics {
        r.stat("panics", 1);
        r.violation(sig, what, replay.clone());
    }
    for f in out.findings {
        r.set("finding_classes", f.class);
        r.violation(f.sig(), f.what.clone(), replay.clone());
    }
}

pub fn run(run: &Run) -> Report {
    let mut r = Report::new("C08");
    r.max_samples = 3;
    if let Some(rep) = &run.replay {
        for w in util::replay_objects(rep) {
            match util::json_u64(w.get("case_seed")) {
                Some(cs) => one(&mut r, cs, true),
                None => r.inconclusive("replay witness without case_seed"),
            }
        }
        return r;
    }
    let (lo, hi) = run.my_range(run.cases);
    for i in lo..hi {
        let case_seed = vcore::mix(run.seed ^ 0xC08, i);
        one(&mut r, case_seed, i - lo < 3);
    }
    r
}
