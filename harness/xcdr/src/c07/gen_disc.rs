//! Own (independent) writer for the PL_CDR parameter lists of the four discovery data types, an own
//! walker over such lists, and the per-PID knowledge of where length-like fields sit inside a
//! parameter value. Valid seeds produced here are additionally passed through dust-dds'
//! `from_bytes` / `into_bytes` by the caller, so that the encoder of the repository is the source of
//! the mutated encodings wherever it accepts the seed.
use vcore::Rng;

#[derive(Clone, Copy, Debug, PartialEq, Eq)]
pub enum Disc {
    Participant,
    Writer,
    Reader,
    Topic,
}

pub const PID_PAD: u16 = 0x0000;
pub const PID_SENTINEL: u16 = 0x0001;
pub const PID_PARTICIPANT_LEASE_DURATION: u16 = 0x0002;
pub const PID_TIME_BASED_FILTER: u16 = 0x0004;
pub const PID_TOPIC_NAME: u16 = 0x0005;
pub const PID_OWNERSHIP_STRENGTH: u16 = 0x0006;
pub const PID_TYPE_NAME: u16 = 0x0007;
pub const PID_DOMAIN_ID: u16 = 0x000f;
pub const PID_PROTOCOL_VERSION: u16 = 0x0015;
pub const PID_VENDORID: u16 = 0x0016;
pub const PID_RELIABILITY: u16 = 0x001a;
pub const PID_LIVELINESS: u16 = 0x001b;
pub const PID_DURABILITY: u16 = 0x001d;
pub const PID_OWNERSHIP: u16 = 0x001f;
pub const PID_PRESENTATION: u16 = 0x0021;
pub const PID_DEADLINE: u16 = 0x0023;
pub const PID_DESTINATION_ORDER: u16 = 0x0025;
pub const PID_LATENCY_BUDGET: u16 = 0x0027;
pub const PID_PARTITION: u16 = 0x0029;
pub const PID_LIFESPAN: u16 = 0x002b;
pub const PID_USER_DATA: u16 = 0x002c;
pub const PID_GROUP_DATA: u16 = 0x002d;
pub const PID_TOPIC_DATA: u16 = 0x002e;
pub const PID_UNICAST_LOCATOR: u16 = 0x002f;
pub const PID_MULTICAST_LOCATOR: u16 = 0x0030;
pub const PID_DEFAULT_UNICAST_LOCATOR: u16 = 0x0031;
pub const PID_METATRAFFIC_UNICAST_LOCATOR: u16 = 0x0032;
pub const PID_METATRAFFIC_MULTICAST_LOCATOR: u16 = 0x0033;
pub const PID_PARTICIPANT_MANUAL_LIVELINESS_COUNT: u16 = 0x0034;
pub const PID_HISTORY: u16 = 0x0040;
pub const PID_RESOURCE_LIMITS: u16 = 0x0041;
pub const PID_EXPECTS_INLINE_QOS: u16 = 0x0043;
pub const PID_DEFAULT_MULTICAST_LOCATOR: u16 = 0x0048;
pub const PID_TRANSPORT_PRIORITY: u16 = 0x0049;
pub const PID_PARTICIPANT_GUID: u16 = 0x0050;
pub const PID_GROUP_ENTITYID: u16 = 0x0053;
pub const PID_BUILTIN_ENDPOINT_SET: u16 = 0x0058;
pub const PID_ENDPOINT_GUID: u16 = 0x005a;
pub const PID_DATA_REPRESENTATION: u16 = 0x0073;
pub const PID_TYPE_CONSISTENCY_ENFORCEMENT: u16 = 0x0074;
pub const PID_TYPE_INFORMATION: u16 = 0x0075;
pub const PID_BUILTIN_ENDPOINT_QOS: u16 = 0x0077;
pub const PID_DOMAIN_TAG: u16 = 0x4014;

pub const ALL_PIDS: [u16; 43] = [
    PID_PAD,
    PID_SENTINEL,
    PID_PARTICIPANT_LEASE_DURATION,
    PID_TIME_BASED_FILTER,
    PID_TOPIC_NAME,
    PID_OWNERSHIP_STRENGTH,
    PID_TYPE_NAME,
    PID_DOMAIN_ID,
    PID_PROTOCOL_VERSION,
    PID_VENDORID,
    PID_RELIABILITY,
    PID_LIVELINESS,
    PID_DURABILITY,
    PID_OWNERSHIP,
    PID_PRESENTATION,
    PID_DEADLINE,
    PID_DESTINATION_ORDER,
    PID_LATENCY_BUDGET,
    PID_PARTITION,
    PID_LIFESPAN,
    PID_USER_DATA,
    PID_GROUP_DATA,
    PID_TOPIC_DATA,
    PID_UNICAST_LOCATOR,
    PID_MULTICAST_LOCATOR,
    PID_DEFAULT_UNICAST_LOCATOR,
    PID_METATRAFFIC_UNICAST_LOCATOR,
    PID_METATRAFFIC_MULTICAST_LOCATOR,
    PID_PARTICIPANT_MANUAL_LIVELINESS_COUNT,
    PID_HISTORY,
    PID_RESOURCE_LIMITS,
    PID_EXPECTS_INLINE_QOS,
    PID_DEFAULT_MULTICAST_LOCATOR,
    PID_TRANSPORT_PRIORITY,
    PID_PARTICIPANT_GUID,
    PID_GROUP_ENTITYID,
    PID_BUILTIN_ENDPOINT_SET,
    PID_ENDPOINT_GUID,
    PID_DATA_REPRESENTATION,
    PID_TYPE_CONSISTENCY_ENFORCEMENT,
    PID_TYPE_INFORMATION,
    PID_BUILTIN_ENDPOINT_QOS,
    PID_DOMAIN_TAG,
];

/// Kind of length-like field at the start of a parameter value.
#[derive(Clone, Copy, Debug, PartialEq, Eq)]
pub enum Lead {
    /// u32 string length (incl. NUL)
    StrLen,
    /// u32 element count of a byte / short sequence
    SeqLen,
    /// u32 element count of a string sequence (each element has its own u32 length)
    StrSeqLen,
    /// XCDR2 DHEADER / EMHEADER structure (type information)
    TypeInfo,
    /// u32 enumerator
    Enum,
    None,
}

pub fn lead_of(pid: u16) -> Lead {
    match pid & 0x7fff {
        PID_TOPIC_NAME | PID_TYPE_NAME | PID_DOMAIN_TAG => Lead::StrLen,
        PID_USER_DATA | PID_GROUP_DATA | PID_TOPIC_DATA | PID_DATA_REPRESENTATION => Lead::SeqLen,
        PID_PARTITION => Lead::StrSeqLen,
        PID_TYPE_INFORMATION => Lead::TypeInfo,
        PID_RELIABILITY | PID_LIVELINESS | PID_DURABILITY | PID_OWNERSHIP | PID_PRESENTATION
        | PID_DESTINATION_ORDER | PID_HISTORY => Lead::Enum,
        _ => Lead::None,
    }
}

pub struct Pl {
    pub le: bool,
    pub buf: Vec<u8>,
}

pub struct Val {
    le: bool,
    pub b: Vec<u8>,
}

impl Val {
    pub fn new(le: bool) -> Val {
        Val { le, b: Vec::new() }
    }
    pub fn align(&mut self, a: usize) -> &mut Self {
        while self.b.len() % a != 0 {
            self.b.push(0);
        }
        self
    }
    pub fn u8(&mut self, v: u8) -> &mut Self {
        self.b.push(v);
        self
    }
    pub fn u16(&mut self, v: u16) -> &mut Self {
        self.align(2);
        if self.le {
            self.b.extend_from_slice(&v.to_le_bytes())
        } else {
            self.b.extend_from_slice(&v.to_be_bytes())
        }
        self
    }
    pub fn u32(&mut self, v: u32) -> &mut Self {
        self.align(4);
        if self.le {
            self.b.extend_from_slice(&v.to_le_bytes())
        } else {
            self.b.extend_from_slice(&v.to_be_bytes())
        }
        self
    }
    pub fn i32(&mut self, v: i32) -> &mut Self {
        self.u32(v as u32)
    }
    pub fn raw(&mut self, v: &[u8]) -> &mut Self {
        self.b.extend_from_slice(v);
        self
    }
    pub fn string(&mut self, s: &[u8]) -> &mut Self {
        self.u32(s.len() as u32 + 1);
        self.b.extend_from_slice(s);
        self.b.push(0);
        self
    }
    pub fn duration(&mut self, r: &mut Rng) -> &mut Self {
        match r.below(6) {
            0 => self.i32(0x7fffffff).u32(0xffffffff),
            1 => self.i32(0).u32(0),
            2 => self.i32(r.range(0, 1000) as i32).u32(r.below(1_000_000_000) as u32),
            3 => self.i32(r.next_u32() as i32).u32(r.next_u32()),
            4 => self.i32(-1).u32(999_999_999),
            _ => self.i32(r.range(0, 100) as i32).u32(0),
        }
    }
    pub fn locator(&mut self, r: &mut Rng) -> &mut Self {
        let any = r.next_u32() as i32;
        self.i32(*r.pick(&[1i32, 2, 0, -1, 16, any]));
        self.u32(r.next_u32() >> r.below(32));
        let a = r.bytes(16);
        if r.chance(0.7) {
            self.raw(&[0; 12]).raw(&a[..4])
        } else {
            self.raw(&a)
        }
    }
}

impl Pl {
    pub fn new(le: bool) -> Pl {
        Pl {
            le,
            buf: vec![0, if le { 3 } else { 2 }, 0, 0],
        }
    }
    pub fn val(&self) -> Val {
        Val::new(self.le)
    }
    pub fn param(&mut self, pid: u16, v: &[u8]) {
        let padded = v.len().div_ceil(4) * 4;
        let mut h = Val::new(self.le);
        h.u16(pid).u16(padded as u16);
        self.buf.extend_from_slice(&h.b);
        self.buf.extend_from_slice(v);
        for _ in v.len()..padded {
            self.buf.push(0);
        }
    }
    pub fn sentinel(&mut self) {
        self.param(PID_SENTINEL, &[]);
    }
}

fn name(r: &mut Rng) -> Vec<u8> {
    const NAMES: [&str; 8] = ["", "a", "ab", "Square", "HelloWorldTopic", "rt/chatter", "x::y::Type", "DCPSParticipant"];
    match r.below(10) {
        0 => {
            let n = r.usize(300);
            (0..n).map(|_| b'a' + r.below(26) as u8).collect()
        }
        1 => "Zürich/töpic".as_bytes().to_vec(),
        _ => r.pick(&NAMES).as_bytes().to_vec(),
    }
}

fn guid(r: &mut Rng) -> Vec<u8> {
    let mut g = r.bytes(16);
    if r.chance(0.5) {
        g[12] = 0;
        g[13] = 0;
        g[14] = 1;
        g[15] = *r.pick(&[0xc1u8, 0xc2, 0xc7, 0x02, 0x03, 0x04, 0x07]);
    }
    g
}

fn byte_seq(r: &mut Rng, v: &mut Val) {
    let n = *r.pick(&[0usize, 1, 2, 3, 4, 5, 17, 100, 1000]);
    v.u32(n as u32);
    v.raw(&r.bytes(n));
}

fn enum_val(r: &mut Rng, max: u32) -> u32 {
    if r.chance(0.9) { r.below(max as u64 + 1) as u32 } else { *r.pick(&[max + 1, 0xffff_ffff, 0x8000_0000, 255]) }
}

/// Value of parameter `pid` (well-formed; enumerators occasionally out of range).
pub fn param_value(pid: u16, le: bool, r: &mut Rng, typeinfo: Option<&[u8]>) -> Vec<u8> {
    let mut v = Val::new(le);
    match pid {
        PID_PARTICIPANT_GUID | PID_ENDPOINT_GUID => {
            v.raw(&guid(r));
        }
        PID_TOPIC_NAME | PID_TYPE_NAME | PID_DOMAIN_TAG => {
            v.string(&name(r));
        }
        PID_USER_DATA | PID_GROUP_DATA | PID_TOPIC_DATA => byte_seq(r, &mut v),
        PID_DATA_REPRESENTATION => {
            let n = r.below(4) as u32;
            v.u32(n);
            for _ in 0..n {
                v.u16(*r.pick(&[0u16, 1, 2, 0xffff, 7]));
            }
        }
        PID_PARTITION => {
            let n = *r.pick(&[0u32, 1, 2, 3, 10]);
            v.u32(n);
            for _ in 0..n {
                v.string(&name(r));
            }
        }
        PID_DURABILITY => {
            v.u32(enum_val(r, 3));
        }
        PID_OWNERSHIP | PID_DESTINATION_ORDER => {
            v.u32(enum_val(r, 1));
        }
        PID_DEADLINE | PID_LATENCY_BUDGET | PID_LIFESPAN | PID_TIME_BASED_FILTER | PID_PARTICIPANT_LEASE_DURATION => {
            v.duration(r);
        }
        PID_LIVELINESS => {
            v.u32(enum_val(r, 2));
            v.duration(r);
        }
        PID_RELIABILITY => {
            v.u32(if r.chance(0.9) { 1 + r.below(2) as u32 } else { enum_val(r, 2) });
            v.duration(r);
        }
        PID_PRESENTATION => {
            v.u32(enum_val(r, 2));
            v.u8(r.below(2) as u8).u8(if r.chance(0.9) { r.below(2) as u8 } else { 7 });
        }
        PID_OWNERSHIP_STRENGTH | PID_TRANSPORT_PRIORITY | PID_DOMAIN_ID | PID_PARTICIPANT_MANUAL_LIVELINESS_COUNT => {
            v.i32(*r.pick(&[0i32, 1, -1, i32::MAX, i32::MIN, 7, 232]));
        }
        PID_HISTORY => {
            v.u32(enum_val(r, 1));
            v.i32(*r.pick(&[1i32, 0, -1, 10, i32::MAX]));
        }
        PID_RESOURCE_LIMITS => {
            for _ in 0..3 {
                v.i32(*r.pick(&[-1i32, 0, 1, 100, i32::MAX, i32::MIN]));
            }
        }
        PID_TYPE_CONSISTENCY_ENFORCEMENT => {
            v.u16(*r.pick(&[0u16, 1, 2, 0xffff]));
            for _ in 0..5 {
                v.u8(r.below(2) as u8);
            }
        }
        PID_PROTOCOL_VERSION => {
            v.u8(2).u8(r.below(6) as u8);
        }
        PID_VENDORID => {
            v.u8(1).u8(r.below(20) as u8);
        }
        PID_EXPECTS_INLINE_QOS => {
            v.u8(*r.pick(&[0u8, 1, 1, 2, 255]));
        }
        PID_UNICAST_LOCATOR
        | PID_MULTICAST_LOCATOR
        | PID_DEFAULT_UNICAST_LOCATOR
        | PID_DEFAULT_MULTICAST_LOCATOR
        | PID_METATRAFFIC_UNICAST_LOCATOR
        | PID_METATRAFFIC_MULTICAST_LOCATOR => {
            v.locator(r);
        }
        PID_GROUP_ENTITYID => {
            v.raw(&r.bytes(4));
        }
        PID_BUILTIN_ENDPOINT_SET | PID_BUILTIN_ENDPOINT_QOS => {
            let any = r.next_u32();
            v.u32(*r.pick(&[0u32, 0x3f, 0xc3f, 0x3000_fc3f, 0xffff_ffff, any]));
        }
        PID_TYPE_INFORMATION => {
            if let Some(t) = typeinfo {
                v.raw(t);
            } else {
                // shape of an (empty-ish) XCDR2 mutable struct: DHEADER only
                v.u32(0);
            }
        }
        _ => {
            let n = r.usize(24);
            v.raw(&r.bytes(n));
        }
    }
    v.b
}

fn pid_sets(kind: Disc) -> (&'static [u16], &'static [u16], &'static [u16]) {
    // (mandatory-ish, optional, repeatable)
    match kind {
        Disc::Participant => (
            &[PID_PARTICIPANT_GUID, PID_PROTOCOL_VERSION, PID_VENDORID, PID_BUILTIN_ENDPOINT_SET],
            &[
                PID_USER_DATA,
                PID_DOMAIN_ID,
                PID_DOMAIN_TAG,
                PID_EXPECTS_INLINE_QOS,
                PID_PARTICIPANT_MANUAL_LIVELINESS_COUNT,
                PID_BUILTIN_ENDPOINT_QOS,
                PID_PARTICIPANT_LEASE_DURATION,
            ],
            &[
                PID_METATRAFFIC_UNICAST_LOCATOR,
                PID_METATRAFFIC_MULTICAST_LOCATOR,
                PID_DEFAULT_UNICAST_LOCATOR,
                PID_DEFAULT_MULTICAST_LOCATOR,
            ],
        ),
        Disc::Writer => (
            &[PID_ENDPOINT_GUID, PID_PARTICIPANT_GUID, PID_TOPIC_NAME, PID_TYPE_NAME],
            &[
                PID_TYPE_INFORMATION,
                PID_DURABILITY,
                PID_DEADLINE,
                PID_LATENCY_BUDGET,
                PID_LIVELINESS,
                PID_RELIABILITY,
                PID_LIFESPAN,
                PID_USER_DATA,
                PID_OWNERSHIP,
                PID_OWNERSHIP_STRENGTH,
                PID_DESTINATION_ORDER,
                PID_PRESENTATION,
                PID_PARTITION,
                PID_TOPIC_DATA,
                PID_GROUP_DATA,
                PID_DATA_REPRESENTATION,
                PID_GROUP_ENTITYID,
            ],
            &[PID_UNICAST_LOCATOR, PID_MULTICAST_LOCATOR],
        ),
        Disc::Reader => (
            &[PID_ENDPOINT_GUID, PID_PARTICIPANT_GUID, PID_TOPIC_NAME, PID_TYPE_NAME],
            &[
                PID_TYPE_INFORMATION,
                PID_DURABILITY,
                PID_DEADLINE,
                PID_LATENCY_BUDGET,
                PID_LIVELINESS,
                PID_RELIABILITY,
                PID_OWNERSHIP,
                PID_DESTINATION_ORDER,
                PID_USER_DATA,
                PID_TIME_BASED_FILTER,
                PID_PRESENTATION,
                PID_PARTITION,
                PID_TOPIC_DATA,
                PID_GROUP_DATA,
                PID_DATA_REPRESENTATION,
                PID_TYPE_CONSISTENCY_ENFORCEMENT,
                PID_GROUP_ENTITYID,
                PID_EXPECTS_INLINE_QOS,
            ],
            &[PID_UNICAST_LOCATOR, PID_MULTICAST_LOCATOR],
        ),
        Disc::Topic => (
            &[PID_ENDPOINT_GUID, PID_TOPIC_NAME, PID_TYPE_NAME],
            &[
                PID_TYPE_INFORMATION,
                PID_DURABILITY,
                PID_DEADLINE,
                PID_LATENCY_BUDGET,
                PID_LIVELINESS,
                PID_RELIABILITY,
                PID_TRANSPORT_PRIORITY,
                PID_LIFESPAN,
                PID_DESTINATION_ORDER,
                PID_HISTORY,
                PID_RESOURCE_LIMITS,
                PID_OWNERSHIP,
                PID_TOPIC_DATA,
                PID_DATA_REPRESENTATION,
            ],
            &[],
        ),
    }
}

/// A well-formed parameter list for the given discovery data type.
pub fn valid_pl(kind: Disc, r: &mut Rng, typeinfo: Option<&[u8]>, big: bool) -> Vec<u8> {
    let le = r.chance(0.8);
    let (mand, opt, rep) = pid_sets(kind);
    let mut pids: Vec<u16> = mand.to_vec();
    let p_opt = *r.pick(&[0.0f64, 0.2, 0.5, 1.0]);
    for p in opt {
        if r.chance(p_opt) {
            pids.push(*p);
        }
    }
    for p in rep {
        let n = if big { 100 + r.usize(400) } else { *r.pick(&[0usize, 0, 1, 1, 2, 4]) };
        for _ in 0..n {
            pids.push(*p);
        }
    }
    if r.chance(0.1) {
        // vendor specific / unknown parameters are legal and must be skipped
        pids.push(*r.pick(&[0x8000u16, 0x8021, 0x0059, 0x0062, 0x3f01]));
    }
    if r.chance(0.5) {
        r.shuffle(&mut pids);
    }
    let mut pl = Pl::new(le);
    for p in pids {
        if big && p == PID_PARTITION {
            // many short partition names
            let n = 500 + r.usize(1500);
            let mut v = Val::new(le);
            v.u32(n as u32);
            for _ in 0..n {
                v.string(b"p");
            }
            pl.param(p, &v.b);
            continue;
        }
        let v = param_value(p, le, r, typeinfo);
        pl.param(p, &v);
    }
    pl.sentinel();
    pl.buf
}

#[derive(Clone, Debug)]
pub struct PlParam {
    /// offset of the 4-byte parameter header
    pub off: usize,
    pub pid: u16,
    pub len: usize,
    /// false if the declared length runs past the end of the buffer
    pub fits: bool,
}

/// Walk a parameter list (independent of dust-dds). Stops at the sentinel or the first header that
/// does not fit.
pub fn walk_pl(b: &[u8]) -> (bool, Vec<PlParam>) {
    let le = b.len() > 1 && b[1] & 1 == 1;
    let mut out = Vec::new();
    let mut off = 4;
    while off + 4 <= b.len() {
        let (pid, len) = if le {
            (u16::from_le_bytes([b[off], b[off + 1]]), u16::from_le_bytes([b[off + 2], b[off + 3]]) as usize)
        } else {
            (u16::from_be_bytes([b[off], b[off + 1]]), u16::from_be_bytes([b[off + 2], b[off + 3]]) as usize)
        };
        let fits = off + 4 + len <= b.len();
        out.push(PlParam { off, pid, len, fits });
        if pid == PID_SENTINEL || !fits {
            break;
        }
        off += 4 + len;
    }
    (le, out)
}
