#!/bin/bash
# Run checks against a kept seeded change and record the outcome next to it.
# usage: tools/seeded_run.sh <seeded dir name> <Cxx> [<Cyy> ...]    (env TIER, VERIF_SEED as for ./check)
set -u
name="$1"; shift
d=/verif/seeded/$name
[ -f "$d/patch.diff" ] || { echo "no $d/patch.diff"; exit 2; }
{ echo "## $(date -u +%FT%TZ) base $(git -C /repo log --format=%h -1) tier=${TIER:-quick}"; /verif/tools/mutrun.sh "$d/patch.diff" "$@"; } 2>&1 | tee -a "$d/checks.txt"
