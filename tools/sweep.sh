#!/bin/bash
# Run a tier of many checks one after the other and keep one verdict line per check.
# usage: tools/sweep.sh <quick|thorough> <seed> [Cxx ...]   (default: all properties)
tier="$1"; seed="$2"; shift 2
props="$@"; [ -z "$props" ] && props=$(python3 -c "
import json,glob
ids=[]
for f in glob.glob('/verif/registry/*.json'): ids+=list(json.load(open(f)).keys())
print(' '.join(sorted(ids)))")
log=/verif/.build/sweep_${tier}_seed${seed}.log
for p in $props; do
  t0=$(date +%s)
  out=$(timeout ${TMO:-7200} /verif/check $p $tier --seed $seed 2>&1 | grep -E "^(VIOLATION|HELD|INCONCLUSIVE|NOTE)" | cut -c1-260)
  echo "$(date -u +%T) $p $(( $(date +%s) - t0 ))s :: $out" | tr '\n' ' ' >> $log; echo >> $log
done
echo "sweep done" >> $log
