//! C34, Miri amplifier. A deliberately tiny program: a few sends/receives per run on real
//! `std::thread`s. It is interpreted by Miri under `-Zmiri-many-seeds=a..b`; every seed gives a
//! different schedule. Miri itself reports
//!   * "deadlock: the evaluated program deadlocked"  -> a lost wake-up (receiver parked for ever),
//!   * Undefined Behavior / data races in the `critical-section` internals on the exercised paths.
//! The program checks the value-level oracle itself and prints one `OBS` line per run (the observed
//! receive order and wake counts) and a `VIOLATION <sig> :: <detail>` line when the oracle fails.
//! It always exits 0 when it ran to the end; the wrapper (`thr c34`, Miri shards) parses the output.
//!
//! usage: thr_miri <oneshot|mpsc|notification> <variant>
use dust_dds::verif_hooks::channels::{mpsc, notification, oneshot};
use std::future::Future;
use std::pin::pin;
use std::sync::Arc;
use std::sync::atomic::{AtomicBool, AtomicUsize, Ordering};
use std::task::{Context, Poll, Wake, Waker};
use std::thread::{self, Thread};

struct ParkWake {
    thread: Thread,
    woken: AtomicBool,
    wakes: AtomicUsize,
}
impl Wake for ParkWake {
    fn wake(self: Arc<Self>) {
        self.wake_by_ref()
    }
    fn wake_by_ref(self: &Arc<Self>) {
        self.wakes.fetch_add(1, Ordering::SeqCst);
        self.woken.store(true, Ordering::SeqCst);
        self.thread.unpark();
    }
}

#[derive(Default)]
struct Obs {
    pend: usize,
    wakes: usize,
    violations: Vec<String>,
}

/// mode 0: park until woken (a lost wake-up is a deadlock that Miri reports);
/// mode 1: poll/yield loop with a counting waker: a Pending -> Ready transition without a wake in
///         between is a lost wake-up.
fn wait<F: Future>(f: F, mode: usize, channel: &str, obs: &mut Obs) -> F::Output {
    wait_hook(f, mode, channel, obs, || ())
}

/// `after_first_poll` runs once, right after the first poll (used to start the senders only after
/// the receiver has registered its waker, so that the wake path is certainly exercised).
fn wait_hook<F: Future>(f: F, mode: usize, channel: &str, obs: &mut Obs, after_first_poll: impl FnOnce()) -> F::Output {
    let mut hook = Some(after_first_poll);
    let pw = Arc::new(ParkWake {
        thread: thread::current(),
        woken: AtomicBool::new(false),
        wakes: AtomicUsize::new(0),
    });
    let waker = Waker::from(pw.clone());
    let mut cx = Context::from_waker(&waker);
    let mut f = pin!(f);
    // wake counter read *before* the most recent poll that returned Pending. A correct channel
    // changes its state only inside a sender-side critical section that also wakes the registered
    // waker, so a later Ready poll implies that the counter moved past this value.
    let mut wakes_at_pending: Option<usize> = None;
    let mut spins = 0usize;
    loop {
        let w_before = pw.wakes.load(Ordering::SeqCst);
        match f.as_mut().poll(&mut cx) {
            Poll::Ready(v) => {
                let w = pw.wakes.load(Ordering::SeqCst);
                if wakes_at_pending == Some(w) {
                    obs.violations.push(format!(
                        "channel={channel}|lost_wakeup :: poll went Pending->Ready without a wake of the registered waker"
                    ));
                }
                obs.wakes += w;
                return v;
            }
            Poll::Pending => {
                obs.pend += 1;
                wakes_at_pending = Some(w_before);
                spins += 1;
                if let Some(h) = hook.take() {
                    h();
                }
                if mode == 0 || spins > 200 {
                    // a lost wake-up parks this thread for ever: Miri reports the deadlock
                    while !pw.woken.swap(false, Ordering::SeqCst) {
                        thread::park();
                    }
                } else {
                    thread::yield_now();
                }
            }
        }
    }
}

type Handles<T> = std::cell::RefCell<Vec<thread::JoinHandle<T>>>;

fn mpsc_case(v: usize, obs: &mut Obs) -> String {
    let producers = 1 + v % 3;
    let per = 1 + (v / 3) % 2;
    let mode = (v / 6) % 2;
    let clone_first = (v / 12) % 2 == 1;
    let prepoll = (v / 24) % 2 == 1;
    let (tx, rx) = mpsc::mpsc_channel::<(usize, usize)>();
    let hs: Handles<bool> = Default::default();
    let start = || {
        for p in 0..producers {
            let txp = tx.clone();
            hs.borrow_mut().push(thread::spawn(move || {
                let txp = if clone_first && p == 0 {
                    let c = txp.clone();
                    drop(txp);
                    c
                } else {
                    txp
                };
                for i in 0..per {
                    if txp.send((p, i)).is_err() {
                        return false;
                    }
                    if i % 2 == 0 {
                        thread::yield_now();
                    }
                }
                true
            }));
        }
    };
    let total = producers * per;
    let mut got = Vec::new();
    for k in 0..total {
        let r = if k == 0 {
            if prepoll {
                wait_hook(rx.receive(), mode, "mpsc", obs, &start)
            } else {
                start();
                wait(rx.receive(), mode, "mpsc", obs)
            }
        } else {
            wait(rx.receive(), mode, "mpsc", obs)
        };
        match r {
            Some(x) => got.push(x),
            None => {
                obs.violations.push(
                    "channel=mpsc|false_disconnect :: receive() returned None while senders are alive".into(),
                );
                break;
            }
        }
    }
    for h in hs.take() {
        if !h.join().unwrap() {
            obs.violations
                .push("channel=mpsc|false_disconnect :: send returned Closed while the receiver is alive".into());
        }
    }
    // oracle: exactly once, per-producer FIFO
    let mut next = vec![0usize; producers];
    for &(p, i) in &got {
        if p >= producers || i >= per {
            obs.violations.push(format!("channel=mpsc|corrupt :: received ({p},{i}) which was never sent"));
        } else if i < next[p] {
            obs.violations.push(format!("channel=mpsc|dup :: ({p},{i}) received again or out of order"));
        } else if i > next[p] {
            obs.violations.push(format!("channel=mpsc|reorder :: ({p},{i}) received before ({p},{})", next[p]));
            next[p] = i + 1;
        } else {
            next[p] = i + 1;
        }
    }
    if got.len() == total && next.iter().any(|&n| n != per) {
        obs.violations.push("channel=mpsc|lost :: a sent value was never received".into());
    }
    // nothing may be left
    {
        let w = Arc::new(ParkWake {
            thread: thread::current(),
            woken: AtomicBool::new(false),
            wakes: AtomicUsize::new(0),
        });
        let waker = Waker::from(w);
        let mut cx = Context::from_waker(&waker);
        let f = rx.receive();
        let mut f = pin!(f);
        if let Poll::Ready(x) = f.as_mut().poll(&mut cx) {
            obs.violations.push(format!("channel=mpsc|dup :: extra value {x:?} after all sent values were received"));
        }
    }
    drop(tx);
    got.iter().map(|(p, i)| format!("{p}.{i}")).collect::<Vec<_>>().join(",")
}

fn oneshot_case(v: usize, obs: &mut Obs) -> String {
    let mode = v % 2;
    let n = 2;
    let drop_rx_concurrently = (v >> 3) & 1 == 1;
    let reverse = (v >> 4) & 1 == 1;
    let prepoll = (v >> 5) & 1 == 1;
    let mut rxs = Vec::new();
    let mut txs = Vec::new();
    let mut plan = Vec::new();
    for c in 0..n {
        let send = (v >> (1 + c)) & 1 == 1;
        plan.push(send);
        let (tx, rx) = oneshot::oneshot::<usize>();
        rxs.push(Some(rx));
        txs.push(Some(tx));
    }
    let hs: Handles<()> = Default::default();
    let txs = std::cell::RefCell::new(txs);
    let start = || {
        for c in 0..n {
            let tx = txs.borrow_mut()[c].take().unwrap();
            let send = plan[c];
            hs.borrow_mut().push(thread::spawn(move || {
                if c == 1 {
                    thread::yield_now();
                }
                if send { tx.send(100 + c) } else { drop(tx) }
            }));
        }
    };
    let mut out = Vec::new();
    let mut idx: Vec<usize> = (0..n).collect();
    if reverse {
        idx.reverse();
    }
    let mut started = false;
    for &c in &idx {
        let rx = rxs[c].take().unwrap();
        if drop_rx_concurrently && c == 1 {
            // receiver dropped while the sender may be sending: must not panic / deadlock
            if !started {
                start();
                started = true;
            }
            drop(rx);
            out.push(format!("{c}:dropped"));
            continue;
        }
        let r = if !started {
            started = true;
            if prepoll {
                wait_hook(rx, mode, "oneshot", obs, &start)
            } else {
                start();
                wait(rx, mode, "oneshot", obs)
            }
        } else {
            wait(rx, mode, "oneshot", obs)
        };
        match (&r, plan[c]) {
            (Ok(x), true) if *x == 100 + c => {}
            (Ok(x), true) => obs.violations.push(format!("channel=oneshot|corrupt :: got {x}, sent {}", 100 + c)),
            (Ok(x), false) => obs.violations.push(format!("channel=oneshot|corrupt :: got {x} but nothing was sent")),
            (Err(_), true) => obs
                .violations
                .push("channel=oneshot|false_disconnect :: receiver got the disconnection error although the value was sent".into()),
            (Err(_), false) => {}
        }
        out.push(format!("{c}:{}", if r.is_ok() { "val" } else { "disc" }));
    }
    for h in hs.take() {
        h.join().unwrap();
    }
    out.join(",")
}

fn notification_case(v: usize, obs: &mut Obs) -> String {
    let mode = v % 2;
    let notifiers = 1 + (v / 2) % 2;
    let per = 1 + (v / 4) % 2;
    let with_clone = (v / 8) % 2 == 1;
    let prepoll = (v / 16) % 2 == 1;
    let (tx, rx) = notification::notification();
    let hs: Handles<()> = Default::default();
    let tx = std::cell::RefCell::new(Some(tx));
    let start = || {
        let tx = tx.borrow_mut().take().unwrap();
        for p in 0..notifiers {
            let t = tx.clone();
            hs.borrow_mut().push(thread::spawn(move || {
                let extra = if with_clone && p == 0 { Some(t.clone()) } else { None };
                for i in 0..per {
                    t.notify();
                    if i == 0 {
                        thread::yield_now();
                    }
                }
                drop(t);
                drop(extra);
            }));
        }
        drop(tx);
    };
    let total = notifiers * per;
    let mut rx = rx;
    let mut oks = 0usize;
    let mut seq = String::new();
    let mut first = true;
    loop {
        let r = if first {
            first = false;
            if prepoll {
                wait_hook(&mut rx, mode, "notification", obs, &start)
            } else {
                start();
                wait(&mut rx, mode, "notification", obs)
            }
        } else {
            wait(&mut rx, mode, "notification", obs)
        };
        match r {
            Ok(()) => {
                oks += 1;
                seq.push('n');
                if oks > total {
                    obs.violations.push(format!(
                        "channel=notification|dup :: receiver became ready {oks} times for {total} notify calls"
                    ));
                    break;
                }
            }
            Err(_) => {
                seq.push('d');
                break;
            }
        }
    }
    for h in hs.take() {
        h.join().unwrap();
    }
    if oks == 0 {
        // every notifier notified before dropping its sender, so the disconnection can only be
        // reported after at least one notification was delivered
        obs.violations.push(
            "channel=notification|false_disconnect :: disconnection reported although a notify happened before the last sender drop and was never delivered (pending notification)".into(),
        );
    }
    seq
}

fn main() {
    let args: Vec<String> = std::env::args().collect();
    let channel = args.get(1).map(|s| s.as_str()).unwrap_or("mpsc").to_string();
    let variant: usize = args.get(2).and_then(|s| s.parse().ok()).unwrap_or(0);
    let mut obs = Obs::default();
    let order = match channel.as_str() {
        "oneshot" => oneshot_case(variant, &mut obs),
        "mpsc" => mpsc_case(variant, &mut obs),
        "notification" => notification_case(variant, &mut obs),
        other => {
            eprintln!("unknown channel {other}");
            std::process::exit(2);
        }
    };
    let mut out = String::new();
    for v in &obs.violations {
        out.push_str(&format!("VIOLATION {v} [variant={variant}]\n"));
    }
    out.push_str(&format!(
        "OBS {channel} v={variant} order={order} pend={} wakes={}\n",
        obs.pend, obs.wakes
    ));
    // one write so that lines of concurrently interpreted seeds do not interleave mid-line
    print!("{out}");
}
