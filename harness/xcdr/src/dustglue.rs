//! Bridge between the model (model.rs) and dust-dds' public dynamic-type API: build a `DynamicType`
//! from a model type, a `DynamicData` from a model value, and read a `DynamicData` back into a model
//! value (strictly: unexpected storage kinds / extra members are reported, never guessed).
use crate::model::*;
use dust_dds::xtypes::data_storage::DataStorage;
use dust_dds::xtypes::dynamic_type::{
    DynamicData, DynamicDataFactory, DynamicType, DynamicTypeBuilderFactory, ExtensibilityKind,
    MemberDescriptor, TryConstructKind, TypeDescriptor, TypeKind,
};

pub fn leak_str(s: &str) -> &'static str {
    Box::leak(s.to_string().into_boxed_str())
}

pub fn prim_kind(p: Prim) -> TypeKind {
    match p {
        Prim::Bool => TypeKind::BOOLEAN,
        Prim::Byte => TypeKind::BYTE,
        Prim::I8 => TypeKind::INT8,
        Prim::U8 => TypeKind::UINT8,
        Prim::I16 => TypeKind::INT16,
        Prim::U16 => TypeKind::UINT16,
        Prim::I32 => TypeKind::INT32,
        Prim::U32 => TypeKind::UINT32,
        Prim::I64 => TypeKind::INT64,
        Prim::U64 => TypeKind::UINT64,
        Prim::F32 => TypeKind::FLOAT32,
        Prim::F64 => TypeKind::FLOAT64,
        Prim::F128 => TypeKind::FLOAT128,
        Prim::Char8 => TypeKind::CHAR8,
    }
}

pub fn ext_kind(e: Ext) -> ExtensibilityKind {
    match e {
        Ext::Final => ExtensibilityKind::Final,
        Ext::Appendable => ExtensibilityKind::Appendable,
        Ext::Mutable => ExtensibilityKind::Mutable,
    }
}

fn unbounded(b: u32) -> u32 {
    // the derive macro's convention for "unbounded"
    if b == 0 { u32::MAX } else { b }
}

fn member_desc(
    name: &str,
    id: u32,
    index: u32,
    ty: DynamicType<'static>,
    label: &'static [i32],
    key: bool,
    optional: bool,
    mu: bool,
    is_default: bool,
) -> MemberDescriptor {
    MemberDescriptor {
        name: leak_str(name),
        id,
        r#type: ty,
        default_value: None,
        index,
        label,
        try_construct_kind: TryConstructKind::Discard,
        is_key: key,
        is_optional: optional,
        is_must_understand: mu,
        is_shared: false,
        is_default_label: is_default,
        is_external: false,
    }
}

/// Build (and leak, by design of `DynamicTypeBuilder::build`) the dust-dds type of a model type.
pub fn build_type(t: &Ty) -> DynamicType<'static> {
    match t {
        Ty::Prim(p) => DynamicTypeBuilderFactory::get_primitive_type(prim_kind(*p)),
        Ty::Str { bound } => DynamicTypeBuilderFactory::create_string_type(unbounded(*bound)).build(),
        Ty::WStr { bound } => DynamicTypeBuilderFactory::create_wstring_type(unbounded(*bound)).build(),
        Ty::Seq { elem, bound } => {
            DynamicTypeBuilderFactory::create_sequence_type(build_type(elem), unbounded(*bound)).build()
        }
        Ty::Arr { elem, len } => {
            let b: &'static [u32] = Box::leak(vec![*len].into_boxed_slice());
            DynamicTypeBuilderFactory::create_array_type(build_type(elem), b).build()
        }
        Ty::Enum(e) => {
            let holder = match e.bits {
                8 => TypeKind::INT8,
                16 => TypeKind::INT16,
                _ => TypeKind::INT32,
            };
            let mut b = DynamicTypeBuilderFactory::create_type(TypeDescriptor {
                kind: TypeKind::ENUM,
                name: leak_str(&e.name),
                base_type: None,
                discriminator_type: Some(DynamicTypeBuilderFactory::get_primitive_type(holder)),
                bound: &[],
                element_type: None,
                key_element_type: None,
                extensibility_kind: ExtensibilityKind::Final,
                is_nested: true,
            });
            if e.declared {
                for (i, (n, v)) in e.literals.iter().enumerate() {
                    let label: &'static [i32] = Box::leak(vec![*v].into_boxed_slice());
                    b.add_member(member_desc(
                        n,
                        i as u32,
                        i as u32,
                        DynamicTypeBuilderFactory::get_primitive_type(TypeKind::INT32),
                        label,
                        false,
                        false,
                        false,
                        false,
                    ))
                    .expect("add enum literal");
                }
            }
            b.build()
        }
        Ty::Struct(s) => {
            let mut b = DynamicTypeBuilderFactory::create_type(TypeDescriptor {
                kind: TypeKind::STRUCTURE,
                name: leak_str(&s.name),
                base_type: None,
                discriminator_type: None,
                bound: &[],
                element_type: None,
                key_element_type: None,
                extensibility_kind: ext_kind(s.ext),
                is_nested: false,
            });
            for (i, m) in s.members.iter().enumerate() {
                b.add_member(member_desc(
                    &m.name,
                    m.id,
                    i as u32,
                    build_type(&m.ty),
                    &[],
                    m.key,
                    m.optional,
                    m.must_understand,
                    false,
                ))
                .expect("add struct member");
            }
            b.build()
        }
        Ty::Union(u) => {
            let disc = build_type(&u.disc);
            let mut b = DynamicTypeBuilderFactory::create_type(TypeDescriptor {
                kind: TypeKind::UNION,
                name: leak_str(&u.name),
                base_type: None,
                discriminator_type: Some(disc),
                bound: &[],
                element_type: None,
                key_element_type: None,
                extensibility_kind: ext_kind(u.ext),
                is_nested: false,
            });
            b.add_member(member_desc(
                "discriminator",
                0,
                0,
                disc,
                &[],
                false,
                false,
                true,
                false,
            ))
            .expect("add discriminator");
            for (i, c) in u.cases.iter().enumerate() {
                let label: &'static [i32] = Box::leak(c.labels.clone().into_boxed_slice());
                let ct = match &c.ty {
                    Some(t) => build_type(t),
                    None => DynamicTypeBuilderFactory::get_primitive_type(TypeKind::NONE),
                };
                b.add_member(member_desc(
                    &c.name,
                    c.id,
                    (i + 1) as u32,
                    ct,
                    label,
                    false,
                    false,
                    false,
                    c.is_default,
                ))
                .expect("add union case");
            }
            b.build()
        }
    }
}

fn char_of(b: u8) -> char {
    char::from(b)
}

fn enum_storage(e: &EnumTy, v: i32) -> DataStorage {
    match e.bits {
        8 => DataStorage::Int8(v as i8),
        16 => DataStorage::Int16(v as i16),
        _ => DataStorage::Int32(v),
    }
}

/// DataStorage of a member value. `dt` is the dust-dds type of the member.
pub fn storage(dt: DynamicType<'static>, t: &Ty, v: &Val) -> Result<DataStorage, String> {
    Ok(match (t, v) {
        (Ty::Prim(_), Val::Bool(x)) => DataStorage::Boolean(*x),
        (Ty::Prim(_), Val::U8(x)) => DataStorage::UInt8(*x),
        (Ty::Prim(_), Val::I8(x)) => DataStorage::Int8(*x),
        (Ty::Prim(_), Val::I16(x)) => DataStorage::Int16(*x),
        (Ty::Prim(_), Val::U16(x)) => DataStorage::UInt16(*x),
        (Ty::Prim(_), Val::I32(x)) => DataStorage::Int32(*x),
        (Ty::Prim(_), Val::U32(x)) => DataStorage::UInt32(*x),
        (Ty::Prim(_), Val::I64(x)) => DataStorage::Int64(*x),
        (Ty::Prim(_), Val::U64(x)) => DataStorage::UInt64(*x),
        (Ty::Prim(_), Val::F32(x)) => DataStorage::Float32(f32::from_bits(*x)),
        (Ty::Prim(_), Val::F64(x)) => DataStorage::Float64(f64::from_bits(*x)),
        (Ty::Prim(_), Val::F128(x)) => DataStorage::Float128(*x),
        (Ty::Prim(_), Val::Char(x)) => DataStorage::Char8(char_of(*x)),
        (Ty::Str { .. }, Val::Str(s)) | (Ty::WStr { .. }, Val::Str(s)) => DataStorage::String(s.clone()),
        (Ty::Enum(_), _) | (Ty::Struct(_), _) | (Ty::Union(_), _) => {
            DataStorage::ComplexValue(build_data(dt, t, v)?)
        }
        (Ty::Seq { elem, .. }, _) | (Ty::Arr { elem, .. }, _) => {
            let edt = dt
                .descriptor
                .element_type
                .ok_or("collection type without element type")?;
            match (&**elem, v) {
                (Ty::Prim(p), Val::Bytes(b)) if p.is_byte_like() => DataStorage::SequenceUInt8(b.clone()),
                (Ty::Prim(p), Val::List(xs)) => {
                    macro_rules! coll {
                        ($variant:ident, $pat:path, $conv:expr) => {{
                            let mut out = Vec::with_capacity(xs.len());
                            for x in xs {
                                match x {
                                    $pat(y) => out.push($conv(*y)),
                                    _ => return Err(format!("ill-typed element {:?}", x)),
                                }
                            }
                            DataStorage::$variant(out)
                        }};
                    }
                    match p {
                        Prim::Bool => coll!(SequenceBoolean, Val::Bool, |y| y),
                        Prim::Byte | Prim::U8 => coll!(SequenceUInt8, Val::U8, |y| y),
                        Prim::I8 => coll!(SequenceInt8, Val::I8, |y| y),
                        Prim::I16 => coll!(SequenceInt16, Val::I16, |y| y),
                        Prim::U16 => coll!(SequenceUInt16, Val::U16, |y| y),
                        Prim::I32 => coll!(SequenceInt32, Val::I32, |y| y),
                        Prim::U32 => coll!(SequenceUInt32, Val::U32, |y| y),
                        Prim::I64 => coll!(SequenceInt64, Val::I64, |y| y),
                        Prim::U64 => coll!(SequenceUInt64, Val::U64, |y| y),
                        Prim::F32 => coll!(SequenceFloat32, Val::F32, f32::from_bits),
                        Prim::F64 => coll!(SequenceFloat64, Val::F64, f64::from_bits),
                        Prim::F128 => coll!(SequenceFloat128, Val::F128, |y| y),
                        Prim::Char8 => coll!(SequenceChar8, Val::Char, char_of),
                    }
                }
                (Ty::Str { .. }, Val::List(xs)) | (Ty::WStr { .. }, Val::List(xs)) => {
                    let mut out = Vec::new();
                    for x in xs {
                        match x {
                            Val::Str(s) => out.push(s.clone()),
                            _ => return Err(format!("ill-typed element {:?}", x)),
                        }
                    }
                    DataStorage::SequenceString(out)
                }
                (_, Val::List(xs)) => {
                    let mut out = Vec::new();
                    for x in xs {
                        out.push(build_data(edt, elem, x)?);
                    }
                    DataStorage::SequenceComplexValue(out)
                }
                _ => return Err(format!("ill-typed collection value {:?}", v)),
            }
        }
        _ => return Err(format!("ill-typed value {:?} for {}", v, ty_tag(t))),
    })
}

/// DynamicData of an aggregated (struct / union / enum) model value.
pub fn build_data(dt: DynamicType<'static>, t: &Ty, v: &Val) -> Result<DynamicData<'static>, String> {
    let mut d = DynamicDataFactory::create_data(dt);
    match (t, v) {
        (Ty::Enum(e), Val::Enum(x)) => {
            d.set_value(0, enum_storage(e, *x));
        }
        (Ty::Struct(s), Val::Struct(ms)) => {
            if ms.len() != s.members.len() || dt.member_list.len() != s.members.len() {
                return Err("member count".into());
            }
            for (i, m) in s.members.iter().enumerate() {
                if let Some(mv) = &ms[i] {
                    let mdt = dt.member_list[i].descriptor.r#type;
                    d.set_value(m.id, storage(mdt, &m.ty, mv)?);
                }
            }
        }
        (Ty::Union(u), Val::Union { disc, sel, val }) => {
            let ddt = dt.member_list[0].descriptor.r#type;
            d.set_value(0, storage(ddt, &u.disc, disc)?);
            if let (Some(i), Some(x)) = (sel, val) {
                let c = &u.cases[*i];
                if let Some(ct) = &c.ty {
                    let mdt = dt.member_list[*i + 1].descriptor.r#type;
                    d.set_value(c.id, storage(mdt, ct, x)?);
                }
            }
        }
        _ => return Err(format!("ill-typed aggregated value {:?} for {}", v, ty_tag(t))),
    }
    Ok(d)
}

fn u8_of_char(c: char) -> Result<u8, String> {
    let x = c as u32;
    if x <= 0xFF { Ok(x as u8) } else { Err(format!("char8 out of range U+{:04X}", x)) }
}

/// Read a member's storage back into the model (strict).
pub fn read_storage(t: &Ty, st: &DataStorage) -> Result<Val, String> {
    let bad = || format!("storage kind {} for member type {}", storage_kind(st), ty_tag(t));
    Ok(match t {
        Ty::Prim(p) => match (p, st) {
            (Prim::Bool, DataStorage::Boolean(x)) => Val::Bool(*x),
            (Prim::Byte | Prim::U8, DataStorage::UInt8(x)) => Val::U8(*x),
            (Prim::I8, DataStorage::Int8(x)) => Val::I8(*x),
            (Prim::I16, DataStorage::Int16(x)) => Val::I16(*x),
            (Prim::U16, DataStorage::UInt16(x)) => Val::U16(*x),
            (Prim::I32, DataStorage::Int32(x)) => Val::I32(*x),
            (Prim::U32, DataStorage::UInt32(x)) => Val::U32(*x),
            (Prim::I64, DataStorage::Int64(x)) => Val::I64(*x),
            (Prim::U64, DataStorage::UInt64(x)) => Val::U64(*x),
            (Prim::F32, DataStorage::Float32(x)) => Val::F32(x.to_bits()),
            (Prim::F64, DataStorage::Float64(x)) => Val::F64(x.to_bits()),
            (Prim::F128, DataStorage::Float128(x)) => Val::F128(*x),
            (Prim::Char8, DataStorage::Char8(x)) => Val::Char(u8_of_char(*x)?),
            _ => return Err(bad()),
        },
        Ty::Str { .. } | Ty::WStr { .. } => match st {
            DataStorage::String(s) => Val::Str(s.clone()),
            _ => return Err(bad()),
        },
        Ty::Enum(_) | Ty::Struct(_) | Ty::Union(_) => match st {
            DataStorage::ComplexValue(d) => read_data(t, d)?,
            _ => return Err(bad()),
        },
        Ty::Seq { elem, .. } | Ty::Arr { elem, .. } => match (&**elem, st) {
            (Ty::Prim(p), DataStorage::SequenceUInt8(b)) if p.is_byte_like() => Val::Bytes(b.clone()),
            (Ty::Prim(Prim::Bool), DataStorage::SequenceBoolean(x)) => {
                Val::List(x.iter().map(|y| Val::Bool(*y)).collect())
            }
            (Ty::Prim(Prim::I8), DataStorage::SequenceInt8(x)) => Val::List(x.iter().map(|y| Val::I8(*y)).collect()),
            (Ty::Prim(Prim::I16), DataStorage::SequenceInt16(x)) => {
                Val::List(x.iter().map(|y| Val::I16(*y)).collect())
            }
            (Ty::Prim(Prim::U16), DataStorage::SequenceUInt16(x)) => {
                Val::List(x.iter().map(|y| Val::U16(*y)).collect())
            }
            (Ty::Prim(Prim::I32), DataStorage::SequenceInt32(x)) => {
                Val::List(x.iter().map(|y| Val::I32(*y)).collect())
            }
            (Ty::Prim(Prim::U32), DataStorage::SequenceUInt32(x)) => {
                Val::List(x.iter().map(|y| Val::U32(*y)).collect())
            }
            (Ty::Prim(Prim::I64), DataStorage::SequenceInt64(x)) => {
                Val::List(x.iter().map(|y| Val::I64(*y)).collect())
            }
            (Ty::Prim(Prim::U64), DataStorage::SequenceUInt64(x)) => {
                Val::List(x.iter().map(|y| Val::U64(*y)).collect())
            }
            (Ty::Prim(Prim::F32), DataStorage::SequenceFloat32(x)) => {
                Val::List(x.iter().map(|y| Val::F32(y.to_bits())).collect())
            }
            (Ty::Prim(Prim::F64), DataStorage::SequenceFloat64(x)) => {
                Val::List(x.iter().map(|y| Val::F64(y.to_bits())).collect())
            }
            (Ty::Prim(Prim::F128), DataStorage::SequenceFloat128(x)) => {
                Val::List(x.iter().map(|y| Val::F128(*y)).collect())
            }
            (Ty::Prim(Prim::Char8), DataStorage::SequenceChar8(x)) => {
                let mut out = Vec::new();
                for c in x {
                    out.push(Val::Char(u8_of_char(*c)?));
                }
                Val::List(out)
            }
            (Ty::Str { .. } | Ty::WStr { .. }, DataStorage::SequenceString(x)) => {
                Val::List(x.iter().map(|y| Val::Str(y.clone())).collect())
            }
            (Ty::Enum(_) | Ty::Struct(_) | Ty::Union(_), DataStorage::SequenceComplexValue(x)) => {
                let mut out = Vec::new();
                for d in x {
                    out.push(read_data(elem, d)?);
                }
                Val::List(out)
            }
            _ => return Err(bad()),
        },
    })
}

pub fn storage_kind(st: &DataStorage) -> &'static str {
    match st {
        DataStorage::UInt8(_) => "UInt8",
        DataStorage::Int8(_) => "Int8",
        DataStorage::UInt16(_) => "UInt16",
        DataStorage::Int16(_) => "Int16",
        DataStorage::Int32(_) => "Int32",
        DataStorage::UInt32(_) => "UInt32",
        DataStorage::Int64(_) => "Int64",
        DataStorage::UInt64(_) => "UInt64",
        DataStorage::Float32(_) => "Float32",
        DataStorage::Float64(_) => "Float64",
        DataStorage::Float128(_) => "Float128",
        DataStorage::Char8(_) => "Char8",
        DataStorage::Boolean(_) => "Boolean",
        DataStorage::String(_) => "String",
        DataStorage::ComplexValue(_) => "ComplexValue",
        DataStorage::SequenceUInt8(_) => "SequenceUInt8",
        DataStorage::SequenceInt8(_) => "SequenceInt8",
        DataStorage::SequenceUInt16(_) => "SequenceUInt16",
        DataStorage::SequenceInt16(_) => "SequenceInt16",
        DataStorage::SequenceInt32(_) => "SequenceInt32",
        DataStorage::SequenceUInt32(_) => "SequenceUInt32",
        DataStorage::SequenceInt64(_) => "SequenceInt64",
        DataStorage::SequenceUInt64(_) => "SequenceUInt64",
        DataStorage::SequenceFloat32(_) => "SequenceFloat32",
        DataStorage::SequenceFloat64(_) => "SequenceFloat64",
        DataStorage::SequenceFloat128(_) => "SequenceFloat128",
        DataStorage::SequenceChar8(_) => "SequenceChar8",
        DataStorage::SequenceBoolean(_) => "SequenceBoolean",
        DataStorage::SequenceString(_) => "SequenceString",
        DataStorage::SequenceComplexValue(_) => "SequenceComplexValue",
    }
}

/// Read an aggregated DynamicData back into the model.
pub fn read_data(t: &Ty, d: &DynamicData) -> Result<Val, String> {
    match t {
        Ty::Enum(e) => {
            let st = d.get_value(0).map_err(|_| "enum without value".to_string())?;
            let v = match (e.bits, st) {
                (8, DataStorage::Int8(x)) => *x as i32,
                (16, DataStorage::Int16(x)) => *x as i32,
                (32, DataStorage::Int32(x)) => *x,
                _ => return Err(format!("enum{} holder stored as {}", e.bits, storage_kind(st))),
            };
            Ok(Val::Enum(v))
        }
        Ty::Struct(s) => {
            let mut ms = Vec::new();
            let mut present = 0u32;
            for m in &s.members {
                match d.get_value(m.id) {
                    Ok(st) => {
                        present += 1;
                        ms.push(Some(read_storage(&m.ty, st)?));
                    }
                    Err(_) => ms.push(None),
                }
            }
            if d.get_item_count() != present {
                return Err(format!(
                    "data holds {} items but only {} belong to declared members",
                    d.get_item_count(),
                    present
                ));
            }
            Ok(Val::Struct(ms))
        }
        Ty::Union(u) => {
            let dst = d.get_value(0).map_err(|_| "union without discriminator".to_string())?;
            let disc = read_storage(&u.disc, dst)?;
            let mut sel = None;
            let mut val = None;
            let mut present = 1u32;
            for (i, c) in u.cases.iter().enumerate() {
                if let Ok(st) = d.get_value(c.id) {
                    present += 1;
                    if sel.is_some() {
                        return Err("union data holds more than one member value".into());
                    }
                    sel = Some(i);
                    val = match &c.ty {
                        Some(ct) => Some(Box::new(read_storage(ct, st)?)),
                        None => return Err("value stored for a case without member".into()),
                    };
                }
            }
            if d.get_item_count() != present {
                return Err("union data holds undeclared items".into());
            }
            if sel.is_none() {
                let l = disc.as_i64().unwrap_or(i64::MIN);
                sel = select_case(u, l);
            }
            Ok(Val::Union {
                disc: Box::new(disc),
                sel,
                val,
            })
        }
        _ => Err(format!("read_data on non-aggregated type {}", ty_tag(t))),
    }
}

/// XTypes case selection: the case carrying the label, else the default case, else none.
pub fn select_case(u: &UnionTy, disc: i64) -> Option<usize> {
    if let Some(i) = u
        .cases
        .iter()
        .position(|c| c.labels.iter().any(|l| *l as i64 == disc))
    {
        return Some(i);
    }
    u.cases.iter().position(|c| c.is_default)
}
