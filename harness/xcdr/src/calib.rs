//! Calibration of the reference encoder on the byte vectors that already exist in the repository:
//! the hand-derived expectations of the unit tests in /repo/dds/src/xtypes/{serializer,deserializer}.rs,
//! the Cyclone DDS capture (`cyclone_dispose_message`) and the key-hash unit tests of
//! /repo/dds/src/dcps/xtypes_glue/key_and_instance_handle.rs, transcribed into the model by hand.
//! `xcdr calibrate` fails when refenc differs on any vector that is not listed as an adjudicated
//! divergence (a repository expectation that contradicts the quoted rule text).
use crate::refenc::*;
use std::rc::Rc;
use xcdrlib::model::*;

fn m(name: &str, id: u32, ty: Ty) -> Member {
    Member {
        name: name.into(),
        id,
        ty,
        key: false,
        optional: false,
        must_understand: false,
    }
}
fn mk(name: &str, id: u32, ty: Ty) -> Member {
    Member {
        key: true,
        must_understand: true,
        ..m(name, id, ty)
    }
}
fn st(name: &str, ext: Ext, members: Vec<Member>) -> Ty {
    Ty::Struct(Rc::new(StructTy {
        name: name.into(),
        ext,
        members,
    }))
}
fn p(x: Prim) -> Ty {
    Ty::Prim(x)
}
fn sv(v: Vec<Val>) -> Val {
    Val::Struct(v.into_iter().map(Some).collect())
}
fn string() -> Ty {
    Ty::Str { bound: 0 }
}
fn arr_u8(n: u32) -> Ty {
    Ty::Arr {
        elem: Box::new(p(Prim::U8)),
        len: n,
    }
}
fn seq(t: Ty) -> Ty {
    Ty::Seq {
        elem: Box::new(t),
        bound: 0,
    }
}

pub struct Vector {
    pub name: &'static str,
    pub ty: Ty,
    pub val: Val,
    pub rep: Rep,
    pub bytes: Vec<u8>,
    /// Some(reason) = the repository expectation contradicts the rule text; refenc must NOT reproduce it
    pub divergence: Option<&'static str>,
}

fn v(name: &'static str, ty: &Ty, val: &Val, rep: Rep, bytes: &[u8]) -> Vector {
    Vector {
        name,
        ty: ty.clone(),
        val: val.clone(),
        rep,
        bytes: bytes.to_vec(),
        divergence: None,
    }
}

pub fn vectors() -> Vec<Vector> {
    use Prim::*;
    use Rep::*;
    let mut out = Vec::new();

    // serializer.rs: serialize_basic_types_struct
    let t = st(
        "BasicTypes",
        Ext::Final,
        vec![
            m("f1", 0, p(Bool)),
            m("f2", 1, p(I8)),
            m("f3", 2, p(I16)),
            m("f4", 3, p(I32)),
            m("f5", 4, p(I64)),
            m("f6", 5, p(U8)),
            m("f7", 6, p(U16)),
            m("f8", 7, p(U32)),
            m("f9", 8, p(U64)),
            m("f10", 9, p(F32)),
            m("f11", 10, p(F64)),
            m("f12", 11, p(Char8)),
        ],
    );
    let x = sv(vec![
        Val::Bool(true),
        Val::I8(2),
        Val::I16(3),
        Val::I32(4),
        Val::I64(5),
        Val::U8(6),
        Val::U16(7),
        Val::U32(8),
        Val::U64(9),
        Val::F32(1.0f32.to_bits()),
        Val::F64(1.0f64.to_bits()),
        Val::Char(b'a'),
    ]);
    out.push(v(
        "basic_types",
        &t,
        &x,
        X1BE,
        &[
            0x00, 0x00, 0x00, 0x03, 1, 2, 0, 3, 0, 0, 0, 4, 0, 0, 0, 0, 0, 0, 0, 5, 6, 0, 0, 7, 0, 0, 0, 8, 0, 0, 0,
            0, 0, 0, 0, 9, 0x3F, 0x80, 0x00, 0x00, 0, 0, 0, 0, 0x3F, 0xF0, 0x00, 0x00, 0x00, 0x00, 0x00, 0x00, b'a',
            0, 0, 0,
        ],
    ));
    out.push(v(
        "basic_types",
        &t,
        &x,
        X1LE,
        &[
            0x00, 0x01, 0x00, 0x03, 1, 2, 3, 0, 4, 0, 0, 0, 5, 0, 0, 0, 0, 0, 0, 0, 6, 0, 7, 0, 8, 0, 0, 0, 9, 0, 0,
            0, 0, 0, 0, 0, 0x00, 0x00, 0x80, 0x3F, 0, 0, 0, 0, 0x00, 0x00, 0x00, 0x00, 0x00, 0x00, 0xF0, 0x3F, b'a',
            0, 0, 0,
        ],
    ));
    out.push(v(
        "basic_types",
        &t,
        &x,
        X2BE,
        &[
            0x00, 0x06, 0x00, 0x03, 1, 2, 0, 3, 0, 0, 0, 4, 0, 0, 0, 0, 0, 0, 0, 5, 6, 0, 0, 7, 0, 0, 0, 8, 0, 0, 0,
            0, 0, 0, 0, 9, 0x3F, 0x80, 0x00, 0x00, 0x3F, 0xF0, 0x00, 0x00, 0x00, 0x00, 0x00, 0x00, b'a', 0, 0, 0,
        ],
    ));
    out.push(v(
        "basic_types",
        &t,
        &x,
        X2LE,
        &[
            0x00, 0x07, 0x00, 0x03, 1, 2, 3, 0, 4, 0, 0, 0, 5, 0, 0, 0, 0, 0, 0, 0, 6, 0, 7, 0, 8, 0, 0, 0, 9, 0, 0,
            0, 0, 0, 0, 0, 0x00, 0x00, 0x80, 0x3F, 0x00, 0x00, 0x00, 0x00, 0x00, 0x00, 0xF0, 0x3F, b'a', 0, 0, 0,
        ],
    ));

    // serialize_u8_array
    let t = st("U8Array", Ext::Mutable, vec![m("version", 41, arr_u8(2))]);
    let x = sv(vec![Val::Bytes(vec![1, 2])]);
    out.push(v("u8_array", &t, &x, X1BE, &[0x00, 0x02, 0x00, 0x00, 0x00, 41, 0, 2, 1, 2, 0, 0, 0, 1, 0, 0]));
    out.push(v("u8_array", &t, &x, X1LE, &[0x00, 0x03, 0x00, 0x00, 41, 0x00, 2, 0, 1, 2, 0, 0, 1, 0, 0, 0]));

    // serialize_array_with_lc4
    let t = st("TestType", Ext::Mutable, vec![m("member", 41, arr_u8(3))]);
    let x = sv(vec![Val::Bytes(vec![1, 2, 3])]);
    out.push(v("array_lc4", &t, &x, X1BE, &[0x00, 0x02, 0x00, 0x00, 0x00, 41, 0, 3, 1, 2, 3, 0, 0, 1, 0, 0]));
    out.push(v("array_lc4", &t, &x, X1LE, &[0x00, 0x03, 0x00, 0x00, 41, 0x00, 3, 0, 1, 2, 3, 0, 1, 0, 0, 0]));
    out.push(v(
        "array_lc4",
        &t,
        &x,
        X2BE,
        &[0x00, 0x0a, 0x00, 0x01, 0, 0, 0, 11, 0b100_0000, 0, 0, 41, 0, 0, 0, 3, 1, 2, 3, 0],
    ));
    out.push(v(
        "array_lc4",
        &t,
        &x,
        X2LE,
        &[0x00, 0x0b, 0x00, 0x01, 11, 0, 0, 0, 41, 0, 0, 0b100_0000, 3, 0, 0, 0, 1, 2, 3, 0],
    ));

    // serialize_locator
    let loc = st(
        "Locator",
        Ext::Final,
        vec![m("kind", 0, p(I32)), m("address1", 1, arr_u8(2)), m("address2", 2, arr_u8(3))],
    );
    let t = st("LocatorContainer", Ext::Mutable, vec![m("locator", 73, loc)]);
    let x = sv(vec![sv(vec![Val::I32(1), Val::Bytes(vec![3, 4]), Val::Bytes(vec![5, 6, 7])])]);
    out.push(v(
        "locator",
        &t,
        &x,
        X1BE,
        &[0x00, 0x02, 0x00, 0x00, 0, 73, 0, 9, 0, 0, 0, 1, 3, 4, 5, 6, 7, 0, 0, 0, 0, 1, 0, 0],
    ));

    // serialize_string
    let t = st("StringData", Ext::Final, vec![m("0", 0, string())]);
    let x = sv(vec![Val::Str("Hola".into())]);
    out.push(v("string", &t, &x, X1BE, &[0x00, 0x00, 0x00, 0x03, 0, 0, 0, 5, b'H', b'o', b'l', b'a', 0, 0, 0, 0]));
    out.push(v("string", &t, &x, X1LE, &[0x00, 0x01, 0x00, 0x03, 5, 0, 0, 0, b'H', b'o', b'l', b'a', 0, 0, 0, 0]));
    out.push(v("string", &t, &x, X2BE, &[0x00, 0x06, 0x00, 0x03, 0, 0, 0, 5, b'H', b'o', b'l', b'a', 0, 0, 0, 0]));
    out.push(v("string", &t, &x, X2LE, &[0x00, 0x07, 0x00, 0x03, 5, 0, 0, 0, b'H', b'o', b'l', b'a', 0, 0, 0, 0]));

    // serialize_string_list
    let t = st("StringList", Ext::Final, vec![m("name", 0, seq(string()))]);
    let x = sv(vec![Val::List(vec![Val::Str("one".into()), Val::Str("two".into())])]);
    out.push(v(
        "string_list",
        &t,
        &x,
        X1BE,
        &[
            0x00, 0x00, 0x00, 0x00, 0, 0, 0, 2, 0, 0, 0, 4, b'o', b'n', b'e', 0, 0, 0, 0, 4, b't', b'w', b'o', 0,
        ],
    ));

    // serialize_final_struct
    let fin = st("FinalType", Ext::Final, vec![m("field_u16", 0, p(U16)), m("field_u64", 1, p(U64))]);
    let x = sv(vec![Val::U16(7), Val::U64(9)]);
    out.push(v(
        "final_struct",
        &fin,
        &x,
        X1BE,
        &[0x00, 0x00, 0x00, 0x00, 0, 7, 0, 0, 0, 0, 0, 0, 0, 0, 0, 0, 0, 0, 0, 9],
    ));
    out.push(v(
        "final_struct",
        &fin,
        &x,
        X1LE,
        &[0x00, 0x01, 0x00, 0x00, 7, 0, 0, 0, 0, 0, 0, 0, 9, 0, 0, 0, 0, 0, 0, 0],
    ));
    out.push(v("final_struct", &fin, &x, X2BE, &[0x00, 0x06, 0x00, 0x00, 0, 7, 0, 0, 0, 0, 0, 0, 0, 0, 0, 9]));
    out.push(v("final_struct", &fin, &x, X2LE, &[0x00, 0x07, 0x00, 0x00, 7, 0, 0, 0, 9, 0, 0, 0, 0, 0, 0, 0]));

    // serialize_nested_final_struct
    let t = st("NestedFinalType", Ext::Final, vec![m("field_nested", 0, fin.clone()), m("field_u8", 1, p(U8))]);
    let x = sv(vec![sv(vec![Val::U16(7), Val::U64(9)]), Val::U8(10)]);
    out.push(v(
        "nested_final",
        &t,
        &x,
        X1BE,
        &[0x00, 0x00, 0x00, 0x03, 0, 7, 0, 0, 0, 0, 0, 0, 0, 0, 0, 0, 0, 0, 0, 9, 10, 0, 0, 0],
    ));
    out.push(v(
        "nested_final",
        &t,
        &x,
        X1LE,
        &[0x00, 0x01, 0x00, 0x03, 7, 0, 0, 0, 0, 0, 0, 0, 9, 0, 0, 0, 0, 0, 0, 0, 10, 0, 0, 0],
    ));
    out.push(v(
        "nested_final",
        &t,
        &x,
        X2BE,
        &[0x00, 0x06, 0x00, 0x03, 0, 7, 0, 0, 0, 0, 0, 0, 0, 0, 0, 9, 10, 0, 0, 0],
    ));
    out.push(v(
        "nested_final",
        &t,
        &x,
        X2LE,
        &[0x00, 0x07, 0x00, 0x03, 7, 0, 0, 0, 9, 0, 0, 0, 0, 0, 0, 0, 10, 0, 0, 0],
    ));

    // serialize_appendable_struct
    let t = st("AppendableType", Ext::Appendable, vec![m("value", 0, p(U16))]);
    let x = sv(vec![Val::U16(7)]);
    out.push(v("appendable", &t, &x, X1BE, &[0x00, 0x00, 0x00, 0x02, 0, 7, 0, 0]));
    out.push(v("appendable", &t, &x, X1LE, &[0x00, 0x01, 0x00, 0x02, 7, 0, 0, 0]));
    out.push(v("appendable", &t, &x, X2BE, &[0x00, 0x08, 0x00, 0x02, 0, 0, 0, 2, 0, 7, 0, 0]));
    out.push(v("appendable", &t, &x, X2LE, &[0x00, 0x09, 0x00, 0x02, 2, 0, 0, 0, 7, 0, 0, 0]));

    // serialize_mutable_struct_simple
    let t = st("MutableType", Ext::Mutable, vec![m("x1", 1, p(U32))]);
    let x = sv(vec![Val::U32(1)]);
    out.push(v(
        "mutable_simple",
        &t,
        &x,
        X2LE,
        &[0x00, 0x0b, 0x00, 0x00, 8, 0, 0, 0, 0x01, 0, 0, 0b010_0000, 1, 0, 0, 0],
    ));

    // serialize_mutable_struct (the expectation lists the members in member-id order)
    let t = st(
        "MutableType",
        Ext::Mutable,
        vec![mk("one_byte", 0x3091, p(U8)), m("two_bytes", 0x2081, p(U16))],
    );
    let x = sv(vec![Val::U8(7), Val::U16(0x0809)]);
    out.push(v(
        "mutable_struct",
        &t,
        &x,
        X1BE,
        &[
            0x00, 0x02, 0x00, 0x00, 0x20, 0x81, 0, 2, 0x08, 0x09, 0, 0, 0x70, 0x91, 0, 1, 7, 0, 0, 0, 0, 1, 0, 0,
        ],
    ));
    out.push(v(
        "mutable_struct",
        &t,
        &x,
        X1LE,
        &[
            0x00, 0x03, 0x00, 0x00, 0x81, 0x20, 2, 0, 0x09, 0x08, 0, 0, 0x91, 0x70, 1, 0, 7, 0, 0, 0, 1, 0, 0, 0,
        ],
    ));
    out.push(v(
        "mutable_struct",
        &t,
        &x,
        X2BE,
        &[
            0x00, 0x0a, 0x00, 0x03, 0, 0, 0, 13, 0b001_0000, 0, 0x20, 0x81, 0x08, 0x09, 0, 0, 128, 0, 0x30, 0x91, 7,
            0, 0, 0,
        ],
    ));
    out.push(v(
        "mutable_struct",
        &t,
        &x,
        X2LE,
        &[
            0x00, 0x0b, 0x00, 0x03, 13, 0, 0, 0, 0x81, 0x20, 0, 0b001_0000, 0x09, 0x08, 0, 0, 0x91, 0x30, 0, 128, 7,
            0, 0, 0,
        ],
    ));

    // serialize_nested_mutable_struct
    let tiny = st("TinyFinalType", Ext::Final, vec![m("primitive", 0, p(U16))]);
    let mt = st("MutableType", Ext::Mutable, vec![mk("one_byte", 90, p(U8)), m("two_bytes", 80, p(U16))]);
    let t = st(
        "NestedMutableType",
        Ext::Mutable,
        vec![mk("field_primitive", 96, p(U8)), m("field_mutable", 97, mt), m("field_final", 98, tiny)],
    );
    let x = sv(vec![Val::U8(5), sv(vec![Val::U8(7), Val::U16(8)]), sv(vec![Val::U16(9)])]);
    out.push(v(
        "nested_mutable",
        &t,
        &x,
        X1BE,
        &[
            0x00, 0x02, 0x00, 0x00, 0x40, 96, 0, 1, 5, 0, 0, 0, 0x00, 97, 0, 20, 0x00, 80, 0, 2, 0, 8, 0, 0, 0x40,
            90, 0, 1, 7, 0, 0, 0, 0, 1, 0, 0, 0x00, 98, 0, 2, 0, 9, 0, 0, 0, 1, 0, 0,
        ],
    ));
    out.push(v(
        "nested_mutable",
        &t,
        &x,
        X1LE,
        &[
            0x00, 0x03, 0x00, 0x00, 96, 0x40, 1, 0, 5, 0, 0, 0, 97, 0x00, 20, 0, 0x50, 0x00, 2, 0, 8, 0, 0, 0, 90,
            0x40, 1, 0, 7, 0, 0, 0, 1, 0, 0, 0, 98, 0x00, 2, 0, 9, 0, 0, 0, 1, 0, 0, 0,
        ],
    ));

    // serialize_appendable_shapes
    let t = st(
        "AppendableShapesType",
        Ext::Appendable,
        vec![
            mk("color", 0, string()),
            m("x", 1, p(I32)),
            m("y", 2, p(I32)),
            m("shapesize", 3, p(I32)),
            m("additional_payload_size", 4, seq(p(U8))),
        ],
    );
    let x = sv(vec![
        Val::Str("BLUE".into()),
        Val::I32(10),
        Val::I32(20),
        Val::I32(30),
        Val::Bytes(vec![]),
    ]);
    out.push(v(
        "shapes",
        &t,
        &x,
        X1BE,
        &[
            0x00, 0x00, 0x00, 0x00, 0, 0, 0, 5, b'B', b'L', b'U', b'E', 0, 0, 0, 0, 0, 0, 0, 10, 0, 0, 0, 20, 0, 0,
            0, 30, 0, 0, 0, 0,
        ],
    ));
    out.push(v(
        "shapes",
        &t,
        &x,
        X1LE,
        &[
            0x00, 0x01, 0x00, 0x00, 5, 0, 0, 0, b'B', b'L', b'U', b'E', 0, 0, 0, 0, 10, 0, 0, 0, 20, 0, 0, 0, 30, 0,
            0, 0, 0, 0, 0, 0,
        ],
    ));
    out.push(v(
        "shapes",
        &t,
        &x,
        X2BE,
        &[
            0x00, 0x08, 0x00, 0x00, 0, 0, 0, 28, 0, 0, 0, 5, b'B', b'L', b'U', b'E', 0, 0, 0, 0, 0, 0, 0, 10, 0, 0,
            0, 20, 0, 0, 0, 30, 0, 0, 0, 0,
        ],
    ));
    out.push(v(
        "shapes",
        &t,
        &x,
        X2LE,
        &[
            0x00, 0x09, 0x00, 0x00, 28, 0, 0, 0, 5, 0, 0, 0, b'B', b'L', b'U', b'E', 0, 0, 0, 0, 10, 0, 0, 0, 20, 0,
            0, 0, 30, 0, 0, 0, 0, 0, 0, 0,
        ],
    ));

    // serialize_final_union_type
    let inner = st("MyInnerType", Ext::Final, vec![m("0", 0, p(U32))]);
    let un = |ext: Ext, with_c: bool| -> Ty {
        let mut cases = vec![
            Case {
                name: "VariantA".into(),
                id: 1,
                labels: vec![5],
                is_default: false,
                ty: Some(inner.clone()),
            },
            Case {
                name: "VariantB".into(),
                id: 2,
                labels: vec![6],
                is_default: false,
                ty: Some(p(U32)),
            },
        ];
        if with_c {
            cases.push(Case {
                name: "VariantC".into(),
                id: 3,
                labels: vec![7],
                is_default: false,
                ty: None,
            });
        }
        Ty::Union(Rc::new(UnionTy {
            name: "MyDynamicType".into(),
            ext,
            disc: p(U16),
            cases,
        }))
    };
    let fu = un(Ext::Final, true);
    let ua = Val::Union {
        disc: Box::new(Val::U16(5)),
        sel: Some(0),
        val: Some(Box::new(sv(vec![Val::U32(10)]))),
    };
    let ub = Val::Union {
        disc: Box::new(Val::U16(6)),
        sel: Some(1),
        val: Some(Box::new(Val::U32(10))),
    };
    let uc = Val::Union {
        disc: Box::new(Val::U16(7)),
        sel: Some(2),
        val: None,
    };
    out.push(v("final_union_b", &fu, &ub, X1BE, &[0x00, 0x00, 0x00, 0x00, 0, 6, 0, 0, 0, 0, 0, 10]));
    out.push(v("final_union_b", &fu, &ub, X2BE, &[0x00, 0x06, 0x00, 0x00, 0, 6, 0, 0, 0, 0, 0, 10]));
    out.push(v("final_union_c", &fu, &uc, X1BE, &[0x00, 0x00, 0x00, 0x02, 0, 7, 0, 0]));
    out.push(v("final_union_c", &fu, &uc, X2BE, &[0x00, 0x06, 0x00, 0x02, 0, 7, 0, 0]));
    out.push(v("final_union_a", &fu, &ua, X1BE, &[0x00, 0x00, 0x00, 0x00, 0, 5, 0, 0, 0, 0, 0, 10]));
    out.push(v("final_union_a", &fu, &ua, X2BE, &[0x00, 0x06, 0x00, 0x00, 0, 5, 0, 0, 0, 0, 0, 10]));

    // serialize_mutable_union_type
    let mu = un(Ext::Mutable, false);
    out.push(v(
        "mutable_union_a",
        &mu,
        &ua,
        X1BE,
        &[0, 0x02, 0, 0, 0b0100_0000, 0, 0, 2, 0, 5, 0, 0, 0, 1, 0, 4, 0, 0, 0, 10, 0, 1, 0, 0],
    ));
    out.push(v(
        "mutable_union_a",
        &mu,
        &ua,
        X2BE,
        &[0, 0x0a, 0, 0, 0, 0, 0, 16, 0b1001_0000, 0, 0, 0, 0, 5, 0, 0, 0b010_0000, 0, 0, 1, 0, 0, 0, 10],
    ));
    out.push(v(
        "mutable_union_b",
        &mu,
        &ub,
        X1BE,
        &[0, 0x02, 0, 0, 0b0100_0000, 0, 0, 2, 0, 6, 0, 0, 0, 2, 0, 4, 0, 0, 0, 10, 0, 1, 0, 0],
    ));
    out.push(v(
        "mutable_union_b",
        &mu,
        &ub,
        X2BE,
        &[0, 0x0a, 0, 0, 0, 0, 0, 16, 0b1001_0000, 0, 0, 0, 0, 6, 0, 0, 0b010_0000, 0, 0, 2, 0, 0, 0, 10],
    ));

    // serialize_final_union_type_nested
    let nu = Ty::Union(Rc::new(UnionTy {
        name: "MyDynamicType".into(),
        ext: Ext::Final,
        disc: p(U16),
        cases: vec![
            Case {
                name: "VariantB".into(),
                id: 1,
                labels: vec![6],
                is_default: false,
                ty: Some(p(U32)),
            },
            Case {
                name: "VariantC".into(),
                id: 2,
                labels: vec![7],
                is_default: false,
                ty: None,
            },
        ],
    }));
    let t = st("MyType", Ext::Final, vec![m("field", 0, nu)]);
    let x = sv(vec![Val::Union {
        disc: Box::new(Val::U16(6)),
        sel: Some(0),
        val: Some(Box::new(Val::U32(10))),
    }]);
    out.push(v("final_union_nested", &t, &x, X1BE, &[0x00, 0x00, 0x00, 0x00, 0, 6, 0, 0, 0, 0, 0, 10]));

    // serialize_mutable_struct_with_sequence: LC 5 on a sequence<uint32> -- ADJUDICATED DIVERGENCE
    let mseq = st("MutableTypeWithSequence", Ext::Mutable, vec![m("my_sequence", 0, seq(p(U32)))]);
    let xs = sv(vec![Val::List(vec![Val::U32(1), Val::U32(2), Val::U32(3)])]);
    let mut d = v(
        "mutable_with_sequence",
        &mseq,
        &xs,
        X2LE,
        &[
            0x00, 0x0b, 0x00, 0x00, 20, 0, 0, 0, 0, 0, 0, 80, 3, 0, 0, 0, 1, 0, 0, 0, 2, 0, 0, 0, 3, 0, 0, 0,
        ],
    );
    d.divergence = Some("EMHEADER LC=5 with NEXTINT=3 claims a member of 4+3 bytes; the sequence<uint32> value is 16 bytes (LC 6 or LC 4 would be consistent)");
    out.push(d);

    // serialize_appendable_union_with_mutable_struct: same LC 5 -- ADJUDICATED DIVERGENCE
    let au = Ty::Union(Rc::new(UnionTy {
        name: "AppendableUnion".into(),
        ext: Ext::Appendable,
        disc: p(I32),
        cases: vec![Case {
            name: "MyVariant".into(),
            id: 1,
            labels: vec![10],
            is_default: false,
            ty: Some(mseq.clone()),
        }],
    }));
    let xu = Val::Union {
        disc: Box::new(Val::I32(10)),
        sel: Some(0),
        val: Some(Box::new(xs.clone())),
    };
    let mut d = v(
        "appendable_union_mutable_struct",
        &au,
        &xu,
        X2LE,
        &[
            0x00, 0x09, 0x00, 0x00, 28, 0, 0, 0, 10, 0, 0, 0, 20, 0, 0, 0, 0, 0, 0, 80, 3, 0, 0, 0, 1, 0, 0, 0, 2,
            0, 0, 0, 3, 0, 0, 0,
        ],
    );
    d.divergence = Some("same LC=5 on sequence<uint32> as mutable_with_sequence");
    out.push(d);

    // union_sequence (XML test)
    let us = Ty::Union(Rc::new(UnionTy {
        name: "Test::union_seq_int32x20".into(),
        ext: Ext::Final,
        disc: p(U32),
        cases: vec![Case {
            name: "x1".into(),
            id: 1,
            labels: vec![1],
            is_default: false,
            ty: Some(Ty::Seq {
                elem: Box::new(p(I32)),
                bound: 20,
            }),
        }],
    }));
    let xu = Val::Union {
        disc: Box::new(Val::U32(1)),
        sel: Some(0),
        val: Some(Box::new(Val::List((1..=20).map(Val::I32).collect()))),
    };
    let mut b = vec![0x00, 0x06, 0x00, 0x00, 0, 0, 0, 1, 0, 0, 0, 20];
    for i in 1..=20u8 {
        b.extend_from_slice(&[0, 0, 0, i]);
    }
    out.push(v("union_sequence", &us, &xu, X2BE, &b));

    // ---- deserializer.rs
    // deserialize_final_struct
    let t = st(
        "FinalType",
        Ext::Final,
        vec![m("field_u16", 0, p(U16)), m("field_u64", 1, p(U64)), m("field_u32", 2, p(U32))],
    );
    let x = sv(vec![Val::U16(7), Val::U64(9), Val::U32(10)]);
    out.push(v(
        "de_final_struct",
        &t,
        &x,
        X1BE,
        &[0x00, 0x00, 0x00, 0x00, 0, 7, 0, 0, 0, 0, 0, 0, 0, 0, 0, 0, 0, 0, 0, 9, 0, 0, 0, 10],
    ));
    out.push(v(
        "de_final_struct",
        &t,
        &x,
        X1LE,
        &[0x00, 0x01, 0x00, 0x00, 7, 0, 0, 0, 0, 0, 0, 0, 9, 0, 0, 0, 0, 0, 0, 0, 10, 0, 0, 0],
    ));
    out.push(v(
        "de_final_struct",
        &t,
        &x,
        X2BE,
        &[0x00, 0x06, 0x00, 0x00, 0, 7, 0, 0, 0, 0, 0, 0, 0, 0, 0, 9, 0, 0, 0, 10],
    ));
    out.push(v(
        "de_final_struct",
        &t,
        &x,
        X2LE,
        &[0x00, 0x07, 0x00, 0x00, 7, 0, 0, 0, 9, 0, 0, 0, 0, 0, 0, 0, 10, 0, 0, 0],
    ));

    // deserialize_final_struct_with_sequence
    let t = st(
        "FinalTypeWithSequence",
        Ext::Final,
        vec![m("field_u16", 0, p(U16)), m("field_u64", 1, p(U64)), m("field_seq_u32", 2, seq(p(U32)))],
    );
    let x = sv(vec![Val::U16(7), Val::U64(9), Val::List(vec![Val::U32(1), Val::U32(4)])]);
    out.push(v(
        "de_final_seq",
        &t,
        &x,
        X1BE,
        &[
            0x00, 0x00, 0x00, 0x00, 0, 7, 0, 0, 0, 0, 0, 0, 0, 0, 0, 0, 0, 0, 0, 9, 0, 0, 0, 2, 0, 0, 0, 1, 0, 0, 0,
            4,
        ],
    ));
    out.push(v(
        "de_final_seq",
        &t,
        &x,
        X1LE,
        &[
            0x00, 0x01, 0x00, 0x00, 7, 0, 0, 0, 0, 0, 0, 0, 9, 0, 0, 0, 0, 0, 0, 0, 2, 0, 0, 0, 1, 0, 0, 0, 4, 0, 0,
            0,
        ],
    ));
    out.push(v(
        "de_final_seq",
        &t,
        &x,
        X2BE,
        &[
            0x00, 0x06, 0x00, 0x00, 0, 7, 0, 0, 0, 0, 0, 0, 0, 0, 0, 9, 0, 0, 0, 2, 0, 0, 0, 1, 0, 0, 0, 4,
        ],
    ));
    out.push(v(
        "de_final_seq",
        &t,
        &x,
        X2LE,
        &[
            0x00, 0x07, 0x00, 0x00, 7, 0, 0, 0, 9, 0, 0, 0, 0, 0, 0, 0, 2, 0, 0, 0, 1, 0, 0, 0, 4, 0, 0, 0,
        ],
    ));

    // deserialize_array_with_lc4
    let t = st("TestType", Ext::Mutable, vec![m("m1", 41, arr_u8(3)), m("m2", 42, p(U32))]);
    let x = sv(vec![Val::Bytes(vec![1, 2, 3]), Val::U32(6)]);
    out.push(v(
        "de_array_lc4",
        &t,
        &x,
        X1BE,
        &[0x00, 0x02, 0x00, 0x00, 0x00, 41, 0, 3, 1, 2, 3, 0, 0x00, 42, 0, 4, 0, 0, 0, 6, 0, 1, 0, 0],
    ));
    out.push(v(
        "de_array_lc4",
        &t,
        &x,
        X1LE,
        &[0x00, 0x03, 0x00, 0x00, 41, 0x00, 3, 0, 1, 2, 3, 0, 42, 0x00, 4, 0, 6, 0, 0, 0, 1, 0, 0, 0],
    ));
    // NOTE the repository vectors for XCDR2 carry DHEADER 11 and options 1 although two members follow
    // (copied from the one-member test); they are decode-only inputs there and not well-formed
    // encodings, so they are not used.

    // deserialize_array_with_lc_bigger_5: LC 6 / 7 on octet arrays -- ADJUDICATED DIVERGENCE
    let t16 = st("TestType16", Ext::Mutable, vec![m("m1", 41, arr_u8(16)), m("m2", 42, p(U32))]);
    let x16 = sv(vec![Val::Bytes(vec![1; 16]), Val::U32(6)]);
    let mut b = vec![0x00, 0x0a, 0x00, 0x00, 0, 0, 0, 32, 0b110_0000, 0, 0, 41, 0, 0, 0, 4];
    b.extend_from_slice(&[1; 16]);
    b.extend_from_slice(&[0b010_0000, 0, 0, 42, 0, 0, 0, 6]);
    let mut d = v("de_array_lc6", &t16, &x16, X2BE, &b);
    d.divergence = Some("rule (22): for LC>=5 NEXTINT is part of the member value (offset-4); an octet array has no leading UInt32 so LC 6 with a separate NEXTINT is not an XCDR2 encoding");
    out.push(d);
    let t24 = st("TestType24", Ext::Mutable, vec![m("m1", 41, arr_u8(24)), m("m2", 42, p(U32))]);
    let x24 = sv(vec![Val::Bytes(vec![1; 24]), Val::U32(6)]);
    let mut b = vec![0x00, 0x0a, 0x00, 0x00, 0, 0, 0, 32, 0b111_0000, 0, 0, 41, 0, 0, 0, 3];
    b.extend_from_slice(&[1; 24]);
    b.extend_from_slice(&[0b010_0000, 0, 0, 42, 0, 0, 0, 6]);
    let mut d = v("de_array_lc7", &t24, &x24, X2BE, &b);
    d.divergence = Some("same as de_array_lc6 (LC 7); additionally DHEADER 32 does not cover the 40 bytes that follow");
    out.push(d);

    // deserialize_mutable_struct (XCDR1 vector; the second vector there carries a CDR2 id for a mutable type)
    let t = st("MutableType", Ext::Mutable, vec![mk("key", 0x5A, p(U8)), m("participant_key", 0x50, p(U32))]);
    let x = sv(vec![Val::U8(7), Val::U32(8)]);
    let mut d = v(
        "de_mutable_struct",
        &t,
        &x,
        X1BE,
        &[0x00, 0x02, 0x00, 0x00, 0x00, 0x5A, 0, 1, 7, 0, 0, 0, 0x00, 0x50, 0, 4, 0, 0, 0, 8, 0, 1, 0, 0],
    );
    // the vector has no M flag on the key member: decode-only input. Use a non-key model for it.
    d.ty = st("MutableType", Ext::Mutable, vec![m("key", 0x5A, p(U8)), m("participant_key", 0x50, p(U32))]);
    out.push(d);

    // deserialize_appendable_struct
    let t = st("AppendableType", Ext::Appendable, vec![mk("key", 0, p(U8)), m("participant_key", 1, p(U32))]);
    let x = sv(vec![Val::U8(7), Val::U32(8)]);
    out.push(v("de_appendable", &t, &x, X1BE, &[0x00, 0x00, 0x00, 0x00, 7, 0, 0, 0, 0, 0, 0, 8]));
    out.push(v(
        "de_appendable",
        &t,
        &x,
        X2BE,
        &[0x00, 0x08, 0x00, 0x00, 0, 0, 0, 8, 7, 0, 0, 0, 0, 0, 0, 8],
    ));

    // cyclone_dispose_message: serialized key captured from Cyclone DDS (XCDR1 LE)
    let t = st("DisposeDataTypeKey", Ext::Final, vec![mk("name", 0, string())]);
    let x = sv(vec![Val::Str("Very Long Name".into())]);
    out.push(v(
        "cyclone_dispose_key",
        &t,
        &x,
        X1LE,
        &[
            0x0, 0x1, 0x0, 0x1, 0xf, 0x0, 0x0, 0x0, 0x56, 0x65, 0x72, 0x79, 0x20, 0x4c, 0x6f, 0x6e, 0x67, 0x20,
            0x4e, 0x61, 0x6d, 0x65, 0x0, 0x0,
        ],
    ));
    out
}

pub struct KeyVector {
    pub name: &'static str,
    pub ty: Ty,
    pub val: Val,
    pub handle: [u8; 16],
}

pub fn key_vectors() -> Vec<KeyVector> {
    use Prim::*;
    let mut out = Vec::new();
    // cyclone_dispose_message: instance handle computed for the Cyclone DDS capture
    out.push(KeyVector {
        name: "cyclone_dispose_keyhash",
        ty: st("DisposeDataType", Ext::Final, vec![mk("name", 0, string()), m("value", 1, p(U8))]),
        val: sv(vec![Val::Str("Very Long Name".into()), Val::U8(0)]),
        handle: [170, 156, 253, 79, 26, 61, 29, 0, 160, 59, 3, 163, 8, 9, 203, 167],
    });
    // key_and_instance_handle.rs: test_full_struct_key
    let inner = st("Inner", Ext::Final, vec![m("id", 0, p(U8)), m("b", 1, p(U16))]);
    out.push(KeyVector {
        name: "full_struct_key",
        ty: st("Outer", Ext::Final, vec![mk("a", 0, inner)]),
        val: sv(vec![sv(vec![Val::U8(1), Val::U16(3)])]),
        handle: [1, 0, 0, 3, 0, 0, 0, 0, 0, 0, 0, 0, 0, 0, 0, 0],
    });
    out
}

pub struct CalibResult {
    pub passed: usize,
    pub diverged_as_adjudicated: usize,
    pub failures: Vec<String>,
    pub key_passed: usize,
}

pub fn run() -> CalibResult {
    let mut res = CalibResult {
        passed: 0,
        diverged_as_adjudicated: 0,
        failures: Vec::new(),
        key_passed: 0,
    };
    for vc in vectors() {
        // encode: any documented option set may reproduce the vector
        let mut matched = false;
        let mut last = Vec::new();
        for order in [MemberOrder::Declaration, MemberOrder::ById] {
            for origin_restore in [true, false] {
                let opts = Opts {
                    origin_restore,
                    lc_policy: LcPolicy::Plain,
                    order,
                    hint: Some(&vc.bytes),
                };
                match encode_top(&vc.ty, &vc.val, vc.rep, opts) {
                    Ok(e) => {
                        if e.bytes == vc.bytes {
                            matched = true;
                        }
                        last = e.bytes;
                    }
                    Err(e) => last = e.into_bytes(),
                }
            }
        }
        let decoded = decode_top(&vc.ty, &vc.bytes, true)
            .or_else(|_| decode_top(&vc.ty, &vc.bytes, false))
            .map(|d| d.val == vc.val);
        match vc.divergence {
            None => {
                if matched && decoded == Ok(true) {
                    res.passed += 1;
                } else {
                    res.failures.push(format!(
                        "{} {}: encode_match={} decode={:?} refenc={} expected={}",
                        vc.name,
                        vc.rep.name(),
                        matched,
                        decoded,
                        vcore::hex(&last),
                        vcore::hex(&vc.bytes)
                    ));
                }
            }
            Some(_) => {
                if !matched && decoded != Ok(true) {
                    res.diverged_as_adjudicated += 1;
                } else {
                    res.failures.push(format!(
                        "{} {}: listed as adjudicated divergence but refenc now reproduces/accepts it (encode_match={} decode={:?})",
                        vc.name,
                        vc.rep.name(),
                        matched,
                        decoded
                    ));
                }
            }
        }
    }
    for kv in key_vectors() {
        let ok = match key_holder(&kv.ty, &kv.val, false) {
            Some((ht, hv)) => KEY_VARIANTS.iter().any(|var| match serialize_key(&ht, &hv, *var) {
                Ok(ser) => {
                    let over = max_class(&ht, *var) == MaxClass::Over16;
                    key_hash(&ser, over) == kv.handle
                }
                Err(_) => false,
            }),
            None => false,
        };
        if ok {
            res.key_passed += 1;
        } else {
            res.failures.push(format!("key vector {} not reproduced", kv.name));
        }
    }
    res
}
