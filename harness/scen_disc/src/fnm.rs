//! Independent POSIX fnmatch(3) (flags = 0) written from IEEE 1003.1 XCU 2.13 "Pattern Matching
//! Notation"; shares nothing with dust-dds' regex translation. Works on chars.
//!
//! `*` any string (including empty), `?` any single character, `[...]` bracket expression with
//! `!` negation, ranges `a-c`, character classes `[:alpha:]` ..., `]` literal when first;
//! `\x` matches x literally. An unterminated `[` is an ordinary character.

fn class_match(name: &str, c: char) -> Option<bool> {
    Some(match name {
        "alpha" => c.is_ascii_alphabetic(),
        "digit" => c.is_ascii_digit(),
        "alnum" => c.is_ascii_alphanumeric(),
        "upper" => c.is_ascii_uppercase(),
        "lower" => c.is_ascii_lowercase(),
        "space" => c == ' ' || ('\t'..='\r').contains(&c),
        "blank" => c == ' ' || c == '\t',
        "punct" => c.is_ascii_punctuation(),
        "print" => (' '..='~').contains(&c),
        "graph" => ('!'..='~').contains(&c),
        "cntrl" => c.is_ascii_control(),
        "xdigit" => c.is_ascii_hexdigit(),
        _ => return None,
    })
}

/// Try to parse a bracket expression starting at p[i] == '['. Returns (matches c, index after ']').
fn bracket(p: &[char], i: usize, c: char) -> Option<(bool, usize)> {
    let mut j = i + 1;
    let mut neg = false;
    if j < p.len() && p[j] == '!' {
        neg = true;
        j += 1;
    }
    let mut matched = false;
    let mut first = true;
    loop {
        if j >= p.len() {
            return None; // unterminated
        }
        let ch = p[j];
        if ch == ']' && !first {
            j += 1;
            break;
        }
        first = false;
        // character class
        if ch == '[' && j + 1 < p.len() && p[j + 1] == ':' {
            if let Some(end) = (j + 2..p.len().saturating_sub(1)).find(|&k| p[k] == ':' && p[k + 1] == ']') {
                let name: String = p[j + 2..end].iter().collect();
                if let Some(m) = class_match(&name, c) {
                    matched |= m;
                    j = end + 2;
                    continue;
                }
            }
        }
        let mut lo = ch;
        if ch == '\\' && j + 1 < p.len() {
            j += 1;
            lo = p[j];
        }
        // range lo-hi (a '-' just before the closing ']' is literal)
        if j + 2 < p.len() && p[j + 1] == '-' && p[j + 2] != ']' {
            let mut hi = p[j + 2];
            let mut adv = 3;
            if hi == '\\' && j + 3 < p.len() {
                hi = p[j + 3];
                adv = 4;
            }
            if lo <= c && c <= hi {
                matched = true;
            }
            j += adv;
        } else {
            if lo == c {
                matched = true;
            }
            j += 1;
        }
    }
    Some((matched != neg, j))
}

fn m(p: &[char], pi: usize, s: &[char], si: usize) -> bool {
    let mut pi = pi;
    let mut si = si;
    while pi < p.len() {
        match p[pi] {
            '*' => {
                while pi < p.len() && p[pi] == '*' {
                    pi += 1;
                }
                if pi == p.len() {
                    return true;
                }
                for k in si..=s.len() {
                    if m(p, pi, s, k) {
                        return true;
                    }
                }
                return false;
            }
            '?' => {
                if si >= s.len() {
                    return false;
                }
                pi += 1;
                si += 1;
            }
            '[' => {
                if si < s.len() {
                    if let Some((ok, next)) = bracket(p, pi, s[si]) {
                        if !ok {
                            return false;
                        }
                        pi = next;
                        si += 1;
                        continue;
                    }
                } else if bracket(p, pi, '\0').is_some() {
                    return false; // valid bracket expression needs one character
                }
                // unterminated: ordinary '['
                if si >= s.len() || s[si] != '[' {
                    return false;
                }
                pi += 1;
                si += 1;
            }
            '\\' if pi + 1 < p.len() => {
                if si >= s.len() || s[si] != p[pi + 1] {
                    return false;
                }
                pi += 2;
                si += 1;
            }
            c => {
                if si >= s.len() || s[si] != c {
                    return false;
                }
                pi += 1;
                si += 1;
            }
        }
    }
    si == s.len()
}

pub fn fnmatch(pattern: &str, s: &str) -> bool {
    let p: Vec<char> = pattern.chars().collect();
    let s: Vec<char> = s.chars().collect();
    m(&p, 0, &s, 0)
}

/// Does the name contain pattern-matching special characters (so that it is a "regular
/// expression" in the sense of the DDS PARTITION policy)?
pub fn has_wildcard(name: &str) -> bool {
    name.contains('*') || name.contains('?') || name.contains('[') || name.contains('\\')
}

#[derive(Clone, Copy, Debug, PartialEq, Eq)]
pub enum Tri {
    Yes,
    No,
    /// the DDS specification does not settle it (two names that both contain wildcards)
    Unknown,
}

/// DDS 1.4 2.2.3.13: name pair verdict.
pub fn name_pair(w: &str, r: &str) -> Tri {
    match (has_wildcard(w), has_wildcard(r)) {
        (false, false) => {
            if w == r {
                Tri::Yes
            } else {
                Tri::No
            }
        }
        (true, false) => {
            if fnmatch(w, r) {
                Tri::Yes
            } else {
                Tri::No
            }
        }
        (false, true) => {
            if fnmatch(r, w) {
                Tri::Yes
            } else {
                Tri::No
            }
        }
        (true, true) => Tri::Unknown,
    }
}

/// Verdict for two partition name lists (empty list == [""]) and, for a definite match, the
/// deciding (writer name, reader name) pair.
pub fn partition_verdict(w: &[String], r: &[String]) -> (Tri, Option<(String, String)>) {
    let dw = vec![String::new()];
    let w2: &[String] = if w.is_empty() { &dw } else { w };
    let r2: &[String] = if r.is_empty() { &dw } else { r };
    let mut unknown = false;
    for a in w2 {
        for b in r2 {
            match name_pair(a, b) {
                Tri::Yes => return (Tri::Yes, Some((a.clone(), b.clone()))),
                Tri::Unknown => unknown = true,
                Tri::No => {}
            }
        }
    }
    if unknown { (Tri::Unknown, None) } else { (Tri::No, None) }
}

pub fn pattern_feature(p: &str) -> &'static str {
    if p.contains("[:") {
        "posix_class"
    } else if p.contains("[!") {
        "bracket_negation"
    } else if p.contains('[') && p.contains('-') {
        "bracket_range"
    } else if p.contains('[') {
        "bracket_set"
    } else if p.contains('?') {
        "question"
    } else if p.contains('*') {
        "star"
    } else {
        "literal"
    }
}

pub fn self_test() -> Result<(), String> {
    let t = |p: &str, s: &str, e: bool| -> Result<(), String> {
        if fnmatch(p, s) != e {
            Err(format!("fnmatch({p:?},{s:?}) != {e}"))
        } else {
            Ok(())
        }
    };
    t("", "", true)?;
    t("*", "", true)?;
    t("*", "abc", true)?;
    t("?", "", false)?;
    t("?", "a", true)?;
    t("?", "ab", false)?;
    t("a*", "a", true)?;
    t("a*", "abc", true)?;
    t("a*", "ba", false)?;
    t("*b", "ab", true)?;
    t("*b", "abc", false)?;
    t("a?c", "abc", true)?;
    t("a?c", "ac", false)?;
    t("[a-c]", "b", true)?;
    t("[a-c]", "d", false)?;
    t("[a-c]", "", false)?;
    t("[a-c]", "ab", false)?;
    t("[!a]", "b", true)?;
    t("[!a]", "a", false)?;
    t("[!a]", "", false)?;
    t("[abc]b", "bb", true)?;
    t("[abc]b", "db", false)?;
    t("a[!b]c", "abc", false)?;
    t("a[!b]c", "axc", true)?;
    t("[[:alpha:]]", "a", true)?;
    t("[[:alpha:]]", "1", false)?;
    t("[]a]", "]", true)?;
    t("[a", "[a", true)?;
    t("[a", "a", false)?;
    t("a+", "aa", false)?;
    t("a+", "a+", true)?;
    t("a.b", "axb", false)?;
    t("\\*", "*", true)?;
    t("\\*", "a", false)?;
    t("a*b*c", "aXXbYYc", true)?;
    t("a*b*c", "aXXbYY", false)?;
    t("??", "ab", true)?;
    Ok(())
}
