//! Generator of hostile datagrams for C06: random bytes, structure-aware mutations of captured
//! live traffic, and well-formed RTPS messages with boundary field values. Written from the RTPS
//! wire layout; shares no code with dust-dds.
use vcore::rtpswalk::{self, Walk};
use vcore::Rng;

pub struct Capture {
    /// guid prefixes of participant 0 (victim) and 1 (peer)
    pub prefix: [[u8; 12]; 2],
    /// (source participant, datagram)
    pub grams: Vec<(usize, Vec<u8>)>,
    pub user_writer_ids: Vec<[u8; 4]>,
    pub user_reader_ids: Vec<[u8; 4]>,
    /// highest user DATA sequence number seen from each participant
    pub last_user_sn: [i64; 2],
}

impl Capture {
    pub fn new() -> Capture {
        Capture {
            prefix: [[0; 12]; 2],
            grams: Vec::new(),
            user_writer_ids: vec![[0, 0, 1, 0x02]],
            user_reader_ids: vec![[0, 0, 1, 0x07]],
            last_user_sn: [0; 2],
        }
    }
    pub fn add(&mut self, src: usize, bytes: &[u8]) {
        let w = rtpswalk::walk(bytes);
        if !w.valid_header {
            return;
        }
        if src < 2 {
            self.prefix[src] = w.guid_prefix;
        }
        for s in &w.subs {
            if src < 2 && s.id == rtpswalk::DATA && !s.is_builtin() && s.sn > self.last_user_sn[src] {
                self.last_user_sn[src] = s.sn;
            }
            if s.has_entity_ids() && !s.is_builtin() {
                if s.writer_id != [0; 4] && !self.user_writer_ids.contains(&s.writer_id) {
                    self.user_writer_ids.push(s.writer_id);
                }
                if s.reader_id != [0; 4] && !self.user_reader_ids.contains(&s.reader_id) {
                    self.user_reader_ids.push(s.reader_id);
                }
            }
        }
        if self.grams.len() < 300 {
            self.grams.push((src, bytes.to_vec()));
        }
    }
}

pub const CLASSES: &[&str] = &[
    "random_bytes",
    "random_after_header",
    "mutate_bitflip",
    "mutate_field_boundary",
    "mutate_truncate",
    "mutate_splice",
    "gap_huge_range",
    "gap_numbits_big",
    "gap_odd_range",
    "heartbeat_extreme",
    "acknack_extreme",
    "nackfrag_extreme",
    "datafrag_fragment_size_0",
    "datafrag_start_0",
    "datafrag_huge_sample_size",
    "datafrag_many_frags_in_submessage",
    "data_extreme_sn",
    "data_bad_octets_to_inline_qos",
    "data_inline_qos_garbage",
    "info_reply",
    "info_reply_ip4",
    "info_source_then_data",
    "info_timestamp_odd",
    "unknown_submessage_id",
    "submessage_length_overrun",
    "pad_and_zero_length",
    "heartbeat_frag_extreme",
    "discovery_param_mutated",
    "discovery_locator_kind",
    "typelookup_garbage",
    "spoofed_user_data_garbage",
    "data_key_only_garbage",
    "seq_partial_fragment_then_heartbeat_jump",
    "seq_partial_fragment_then_gap_jump",
    "seq_fragments_overlapping_inconsistent",
];

/// Multi-datagram classes return several datagrams that are injected back to back; every other
/// class yields one datagram.
pub fn build_seq(rng: &mut Rng, cap: &Capture, class: usize, victim: usize) -> Vec<Vec<u8>> {
    let name = CLASSES[class];
    if !name.starts_with("seq_") {
        return vec![build(rng, cap, class, victim)];
    }
    // everything is sent in the name of the already discovered peer, from one of its matched writers
    let peer = 1 - victim.min(1);
    let prefix = cap.prefix[peer];
    let builtin = rng.chance(0.4);
    let (wid, rid, base_sn): ([u8; 4], [u8; 4], i64) = if builtin {
        let i = 1 + rng.usize(3); // SEDP publications / subscriptions / topics writer
        ([[0, 0, 3, 0xc2], [0, 0, 4, 0xc2], [0, 0, 2, 0xc2]][i - 1], [[0, 0, 3, 0xc7], [0, 0, 4, 0xc7], [0, 0, 2, 0xc7]][i - 1], 0)
    } else {
        (*rng.pick(&cap.user_writer_ids), *rng.pick(&cap.user_reader_ids), cap.last_user_sn[peer])
    };
    let frag = |sn_v: i64, start: u32, nfrags: u16, fsize: u16, ssize: u32, payload_len: usize, rng: &mut Rng| -> Vec<u8> {
        let mut m = hdr(&prefix);
        let mut b = vec![0u8, 0, 28, 0];
        b.extend_from_slice(&rid);
        b.extend_from_slice(&wid);
        b.extend_from_slice(&sn(sn_v));
        b.extend_from_slice(&start.to_le_bytes());
        b.extend_from_slice(&nfrags.to_le_bytes());
        b.extend_from_slice(&fsize.to_le_bytes());
        b.extend_from_slice(&ssize.to_le_bytes());
        b.extend_from_slice(&rng.bytes(payload_len));
        sub(&mut m, rtpswalk::DATA_FRAG, 0, &b);
        m
    };
    let mut out = Vec::new();
    // a reliable reader only buffers fragments of the sequence number it expects next: guess a range
    let guesses: Vec<i64> = (1..=24).map(|d| base_sn + d).collect();
    match name {
        "seq_partial_fragment_then_heartbeat_jump" | "seq_partial_fragment_then_gap_jump" => {
            for g in &guesses {
                out.push(frag(*g, 1, 1, 16, 32, 16, rng)); // fragment 1 of 2
            }
            let first = base_sn + *rng.pick(&[2i64, 5, 30, 100, 1 << 20]);
            let last = *rng.pick(&[i64::MAX, i64::MAX - 1, 1 << 62, 1 << 40, first + 1000]);
            let mut m = hdr(&prefix);
            if name.ends_with("heartbeat_jump") {
                let mut b = rid.to_vec();
                b.extend_from_slice(&wid);
                b.extend_from_slice(&sn(first));
                b.extend_from_slice(&sn(last));
                b.extend_from_slice(&(*rng.pick(&[1000u32, 0x7fff_0000, 50_000])).to_le_bytes());
                sub(&mut m, rtpswalk::HEARTBEAT, 0, &b);
            } else {
                let mut b = rid.to_vec();
                b.extend_from_slice(&wid);
                b.extend_from_slice(&sn(base_sn + 1));
                b.extend_from_slice(&snset(rng, last, 0, 0));
                sub(&mut m, rtpswalk::GAP, 0, &b);
                // followed by a heartbeat that makes the reader answer
                let mut h = rid.to_vec();
                h.extend_from_slice(&wid);
                h.extend_from_slice(&sn(1));
                h.extend_from_slice(&sn(last));
                h.extend_from_slice(&0x7fff_0001u32.to_le_bytes());
                sub(&mut m, rtpswalk::HEARTBEAT, 0, &h);
            }
            out.push(m);
        }
        _ => {
            // fragments of one sample that contradict each other (sizes, counts, overlaps)
            for g in guesses.iter().take(6) {
                out.push(frag(*g, 1, 1, 16, 48, 16, rng));
                out.push(frag(*g, 2, 2, 8, 48, 16, rng));
                out.push(frag(*g, 1, 3, 16, 40, 40, rng));
                out.push(frag(*g, 3, 1, 16, 33, 1, rng));
            }
            let mut m = hdr(&prefix);
            let mut h = rid.to_vec();
            h.extend_from_slice(&wid);
            h.extend_from_slice(&sn(1));
            h.extend_from_slice(&sn(base_sn + 30));
            h.extend_from_slice(&0x7fff_0002u32.to_le_bytes());
            sub(&mut m, rtpswalk::HEARTBEAT, 0, &h);
            out.push(m);
        }
    }
    out
}

#[allow(dead_code)]
const _UNUSED: [&str; 0] = [];

fn hdr(prefix: &[u8; 12]) -> Vec<u8> {
    let mut v = b"RTPS".to_vec();
    v.extend_from_slice(&[2, 4, 1, 16]);
    v.extend_from_slice(prefix);
    v
}
fn sub(out: &mut Vec<u8>, id: u8, flags: u8, body: &[u8]) {
    out.push(id);
    out.push(flags | 1);
    out.extend_from_slice(&(body.len() as u16).to_le_bytes());
    out.extend_from_slice(body);
}
fn sub_len(out: &mut Vec<u8>, id: u8, flags: u8, body: &[u8], wire_len: u16) {
    out.push(id);
    out.push(flags | 1);
    out.extend_from_slice(&wire_len.to_le_bytes());
    out.extend_from_slice(body);
}
fn sn(v: i64) -> [u8; 8] {
    let mut b = [0u8; 8];
    b[..4].copy_from_slice(&((v >> 32) as i32).to_le_bytes());
    b[4..].copy_from_slice(&(v as u32).to_le_bytes());
    b
}
fn extreme_sn(rng: &mut Rng) -> i64 {
    *rng.pick(&[
        0i64,
        1,
        -1,
        2,
        255,
        256,
        257,
        (1 << 31) - 1,
        1 << 31,
        (1 << 32) - 1,
        1 << 32,
        (1 << 32) + 1,
        i64::MAX,
        i64::MAX - 1,
        i64::MAX - 255,
        i64::MIN,
        1 << 62,
        -(1 << 32),
    ])
}
fn u32x(rng: &mut Rng) -> u32 {
    *rng.pick(&[0u32, 1, 2, 31, 32, 33, 255, 256, 257, 1024, 65535, 65536, 0x7fff_ffff, 0x8000_0000, 0xffff_ffff])
}
fn rb(rng: &mut Rng, max: usize) -> Vec<u8> {
    let n = rng.usize(max);
    rng.bytes(n)
}
fn rb4(rng: &mut Rng, max: usize) -> Vec<u8> {
    let n = rng.usize(max) & !3;
    rng.bytes(n)
}
fn snset(rng: &mut Rng, base: i64, numbits: u32, words: usize) -> Vec<u8> {
    let mut v = sn(base).to_vec();
    v.extend_from_slice(&numbits.to_le_bytes());
    for _ in 0..words {
        v.extend_from_slice(&rng.next_u32().to_le_bytes());
    }
    v
}
fn fragset(rng: &mut Rng, base: u32, numbits: u32, words: usize) -> Vec<u8> {
    let mut v = base.to_le_bytes().to_vec();
    v.extend_from_slice(&numbits.to_le_bytes());
    for _ in 0..words {
        v.extend_from_slice(&rng.next_u32().to_le_bytes());
    }
    v
}

/// parameter list entries inside a DATA payload: (offset of pid, pid, len) in datagram coordinates
fn params(d: &[u8], payload: (usize, usize)) -> Vec<(usize, u16, usize)> {
    let (off, len) = payload;
    let mut out = Vec::new();
    if len < 8 {
        return out;
    }
    let mut p = off + 4;
    let end = off + len;
    while p + 4 <= end {
        let pid = u16::from_le_bytes([d[p], d[p + 1]]);
        let l = u16::from_le_bytes([d[p + 2], d[p + 3]]) as usize;
        if pid == 1 {
            break;
        }
        if p + 4 + l > end {
            break;
        }
        out.push((p, pid, l));
        p += 4 + l;
    }
    out
}

pub fn build(rng: &mut Rng, cap: &Capture, class: usize, victim: usize) -> Vec<u8> {
    // source prefix: the already discovered peer, a stranger, or the victim itself
    let peer = 1 - victim.min(1);
    let src_prefix: [u8; 12] = match rng.below(4) {
        0 | 1 => cap.prefix[peer],
        2 => {
            let mut p = [0u8; 12];
            p.copy_from_slice(&rng.bytes(12));
            p
        }
        _ => cap.prefix[victim.min(1)],
    };
    let wid = *rng.pick(&cap.user_writer_ids);
    let rid = *rng.pick(&cap.user_reader_ids);
    let builtin_w: [[u8; 4]; 6] = [
        [0, 1, 0, 0xc2],
        [0, 0, 3, 0xc2],
        [0, 0, 4, 0xc2],
        [0, 0, 2, 0xc2],
        [0, 3, 0, 0xc3],
        [0, 3, 1, 0xc3],
    ];
    let builtin_r: [[u8; 4]; 6] = [
        [0, 1, 0, 0xc7],
        [0, 0, 3, 0xc7],
        [0, 0, 4, 0xc7],
        [0, 0, 2, 0xc7],
        [0, 3, 0, 0xc4],
        [0, 3, 1, 0xc4],
    ];
    let (wid, rid) = if rng.chance(0.3) {
        let i = rng.usize(6);
        (builtin_w[i], builtin_r[i])
    } else {
        (wid, rid)
    };
    let pick_gram = |rng: &mut Rng| -> Vec<u8> {
        if cap.grams.is_empty() {
            hdr(&src_prefix)
        } else {
            cap.grams[rng.usize(cap.grams.len())].1.clone()
        }
    };
    let mut m = hdr(&src_prefix);
    match CLASSES[class] {
        "random_bytes" => {
            let n = rng.usize(300);
            return rng.bytes(n);
        }
        "random_after_header" => {
            let n = rng.usize(200);
            m.extend_from_slice(&rng.bytes(n));
        }
        "mutate_bitflip" => {
            let mut g = pick_gram(rng);
            let k = 1 + rng.usize(4);
            for _ in 0..k {
                if g.len() > 20 {
                    let i = 20 + rng.usize(g.len() - 20);
                    g[i] ^= 1 << rng.below(8);
                }
            }
            return g;
        }
        "mutate_field_boundary" => {
            let mut g = pick_gram(rng);
            if g.len() > 28 {
                let i = 20 + 4 * rng.usize((g.len() - 24) / 4);
                let v = u32x(rng).to_le_bytes();
                let w = if rng.bool() { 2 } else { 4 };
                g[i..i + w].copy_from_slice(&v[..w]);
            }
            return g;
        }
        "mutate_truncate" => {
            let mut g = pick_gram(rng);
            if g.len() > 21 {
                let n = 20 + rng.usize(g.len() - 20);
                g.truncate(n);
            }
            return g;
        }
        "mutate_splice" => {
            let a = pick_gram(rng);
            let b = pick_gram(rng);
            let mut g = a.clone();
            // make an inner zero-length submessage impossible: drop a's last submessage if it is announced with 0
            let w: Walk = rtpswalk::walk(&a);
            if let Some(last) = w.subs.last() {
                if last.wire_len == 0 {
                    g.truncate(last.offset);
                }
            }
            if b.len() > 20 {
                g.extend_from_slice(&b[20..]);
            }
            return g;
        }
        "gap_huge_range" => {
            let start = *rng.pick(&[1i64, 2, 100, 1 << 32]);
            let base = *rng.pick(&[i64::MAX, i64::MAX - 300, 1 << 62, 1 << 40, (1 << 33) + 5]);
            let mut b = rid.to_vec();
            b.extend_from_slice(&wid);
            b.extend_from_slice(&sn(start));
            b.extend_from_slice(&snset(rng, base, 0, 0));
            sub(&mut m, rtpswalk::GAP, 0, &b);
        }
        "gap_numbits_big" => {
            let nb = *rng.pick(&[257u32, 512, 1024, 65536, 0xffff_ffff, 0x8000_0000]);
            let words = rng.usize(10);
            let mut b = rid.to_vec();
            b.extend_from_slice(&wid);
            b.extend_from_slice(&sn(1 + rng.below(5) as i64));
            let base = 5 + rng.below(5) as i64;
            b.extend_from_slice(&snset(rng, base, nb, words));
            sub(&mut m, rtpswalk::GAP, 0, &b);
        }
        "gap_odd_range" => {
            let mut b = rid.to_vec();
            b.extend_from_slice(&wid);
            b.extend_from_slice(&sn(extreme_sn(rng)));
            let nb = rng.below(257) as u32;
            let base = extreme_sn(rng);
            b.extend_from_slice(&snset(rng, base, nb, ((nb + 31) / 32) as usize));
            sub(&mut m, rtpswalk::GAP, 0, &b);
        }
        "heartbeat_extreme" => {
            let mut b = rid.to_vec();
            b.extend_from_slice(&wid);
            b.extend_from_slice(&sn(extreme_sn(rng)));
            b.extend_from_slice(&sn(extreme_sn(rng)));
            b.extend_from_slice(&u32x(rng).to_le_bytes());
            sub(&mut m, rtpswalk::HEARTBEAT, (rng.below(4) as u8) << 1, &b);
        }
        "acknack_extreme" => {
            let mut b = rid.to_vec();
            b.extend_from_slice(&wid);
            let nb = *rng.pick(&[0u32, 1, 32, 255, 256, 257, 300, 0xffff_ffff]);
            let words = if rng.bool() { ((nb.min(512) + 31) / 32) as usize } else { rng.usize(9) };
            let base = extreme_sn(rng);
            b.extend_from_slice(&snset(rng, base, nb, words));
            b.extend_from_slice(&u32x(rng).to_le_bytes());
            sub(&mut m, rtpswalk::ACKNACK, (rng.below(2) as u8) << 1, &b);
        }
        "nackfrag_extreme" => {
            let mut b = rid.to_vec();
            b.extend_from_slice(&wid);
            b.extend_from_slice(&sn(*rng.pick(&[1i64, 2, 3, 0, -1, i64::MAX])));
            let nb = *rng.pick(&[0u32, 1, 32, 256, 257, 1000, 0xffff_ffff]);
            let words = if rng.bool() { ((nb.min(512) + 31) / 32) as usize } else { rng.usize(9) };
            let base = u32x(rng);
            b.extend_from_slice(&fragset(rng, base, nb, words));
            b.extend_from_slice(&u32x(rng).to_le_bytes());
            sub(&mut m, rtpswalk::NACK_FRAG, 0, &b);
        }
        c @ ("datafrag_fragment_size_0" | "datafrag_start_0" | "datafrag_huge_sample_size" | "datafrag_many_frags_in_submessage") => {
            let mut b = vec![0u8, 0, 28, 0];
            b.extend_from_slice(&rid);
            b.extend_from_slice(&wid);
            b.extend_from_slice(&sn(*rng.pick(&[1i64, 2, 3, 4, 5, 50])));
            let (start, nfrags, fsize, ssize): (u32, u16, u16, u32) = match c {
                "datafrag_fragment_size_0" => (1, 1, 0, *rng.pick(&[0u32, 10, 1000])),
                "datafrag_start_0" => (0, 1, 16, 64),
                "datafrag_huge_sample_size" => (*rng.pick(&[1u32, 2, 0xffff_ffff]), 1, *rng.pick(&[1u16, 16, 65535]), *rng.pick(&[0xffff_ffffu32, 0x7fff_ffff, 1 << 30])),
                _ => (1, *rng.pick(&[0u16, 2, 100, 65535]), 8, 64),
            };
            b.extend_from_slice(&start.to_le_bytes());
            b.extend_from_slice(&nfrags.to_le_bytes());
            b.extend_from_slice(&fsize.to_le_bytes());
            b.extend_from_slice(&ssize.to_le_bytes());
            b.extend_from_slice(&rb(rng, 40));
            sub(&mut m, rtpswalk::DATA_FRAG, 0, &b);
        }
        "data_extreme_sn" => {
            let mut b = vec![0u8, 0, 16, 0];
            b.extend_from_slice(&rid);
            b.extend_from_slice(&wid);
            b.extend_from_slice(&sn(extreme_sn(rng)));
            b.extend_from_slice(&[0, 1, 0, 0]);
            b.extend_from_slice(&rb(rng, 40));
            sub(&mut m, rtpswalk::DATA, 0x04, &b);
        }
        "data_bad_octets_to_inline_qos" => {
            // DATA or DATA_FRAG whose octetsToInlineQos points anywhere: inside the fixed part, just
            // before / at / just after the end of the submessage, far away; optionally followed by
            // further submessages, so that "after the submessage" is still inside the datagram
            let frag = rng.chance(0.35);
            let tail = rb(rng, 60);
            let fixed = if frag { 32usize } else { 20 };
            let body_len = (fixed + tail.len()) as u16;
            let o2q = match rng.below(3) {
                0 => *rng.pick(&[0u16, 1, 3, 15, 17, 100, 65535]),
                1 => body_len.saturating_sub(8) + rng.below(16) as u16,
                _ => body_len + rng.below(64) as u16,
            };
            let mut b = vec![0u8, 0];
            b.extend_from_slice(&o2q.to_le_bytes());
            b.extend_from_slice(&rid);
            b.extend_from_slice(&wid);
            b.extend_from_slice(&sn(1 + rng.below(10) as i64));
            if frag {
                b.extend_from_slice(&1u32.to_le_bytes()); // fragmentStartingNum
                b.extend_from_slice(&1u16.to_le_bytes()); // fragmentsInSubmessage
                b.extend_from_slice(&64u16.to_le_bytes()); // fragmentSize
                b.extend_from_slice(&200u32.to_le_bytes()); // sampleSize
            }
            b.extend_from_slice(&tail);
            let id = if frag { rtpswalk::DATA_FRAG } else { rtpswalk::DATA };
            sub(&mut m, id, *rng.pick(&[0x01u8, 0x03, 0x05, 0x07, 0x09, 0x0f]), &b);
            if rng.chance(0.6) {
                for _ in 0..1 + rng.usize(3) {
                    let n = 4 * (1 + rng.usize(12));
                    sub(&mut m, *rng.pick(&[rtpswalk::INFO_TS, rtpswalk::HEARTBEAT, 0x7f]), 0x01, &rng.bytes(n));
                }
            }
        }
        "data_inline_qos_garbage" => {
            let mut b = vec![0u8, 0, 16, 0];
            b.extend_from_slice(&rid);
            b.extend_from_slice(&wid);
            b.extend_from_slice(&sn(1 + rng.below(10) as i64));
            // parameter list with odd lengths / no sentinel
            for _ in 0..rng.usize(4) {
                b.extend_from_slice(&(rng.next_u32() as u16).to_le_bytes());
                let l = *rng.pick(&[0u16, 1, 3, 4, 8, 65532, 65535]);
                b.extend_from_slice(&l.to_le_bytes());
                b.extend_from_slice(&rng.bytes((l as usize).min(12)));
            }
            if rng.bool() {
                b.extend_from_slice(&[1, 0, 0, 0]);
            }
            b.extend_from_slice(&rb(rng, 20));
            sub(&mut m, rtpswalk::DATA, 0x06, &b);
        }
        "info_reply" => {
            let mut b = Vec::new();
            let n = *rng.pick(&[0u32, 1, 2, 0xffff_ffff, 1000]);
            b.extend_from_slice(&n.to_le_bytes());
            for _ in 0..n.min(3) {
                b.extend_from_slice(&(*rng.pick(&[1i32, 2, -1, 0, 0x7fff_ffff])).to_le_bytes());
                b.extend_from_slice(&u32x(rng).to_le_bytes());
                b.extend_from_slice(&rng.bytes(16));
            }
            let multicast = rng.bool();
            if multicast {
                b.extend_from_slice(&1u32.to_le_bytes());
                b.extend_from_slice(&1i32.to_le_bytes());
                b.extend_from_slice(&7400u32.to_le_bytes());
                b.extend_from_slice(&rng.bytes(16));
            }
            sub(&mut m, rtpswalk::INFO_REPLY, if multicast { 2 } else { 0 }, &b);
        }
        "info_reply_ip4" => {
            let n = *rng.pick(&[0usize, 8, 16, 5]);
            let b = rng.bytes(n);
            sub(&mut m, rtpswalk::INFO_REPLY_IP4, (rng.below(2) as u8) << 1, &b);
        }
        "info_source_then_data" => {
            let mut b = vec![0u8; 4];
            b.extend_from_slice(&[2, rng.below(8) as u8, 1, 16]);
            b.extend_from_slice(&cap.prefix[peer]);
            sub(&mut m, rtpswalk::INFO_SRC, 0, &b);
            let mut d = vec![0u8, 0, 16, 0];
            d.extend_from_slice(&rid);
            d.extend_from_slice(&wid);
            d.extend_from_slice(&sn(1 + rng.below(20) as i64));
            d.extend_from_slice(&[0, 1, 0, 0]);
            d.extend_from_slice(&rb(rng, 30));
            sub(&mut m, rtpswalk::DATA, 0x04, &d);
        }
        "info_timestamp_odd" => {
            let n = *rng.pick(&[0usize, 4, 8, 12]);
            let b = rng.bytes(n);
            sub(&mut m, rtpswalk::INFO_TS, (rng.below(2) as u8) << 1, &b);
            let g = pick_gram(rng);
            if g.len() > 20 {
                m.extend_from_slice(&g[20..]);
            }
        }
        "unknown_submessage_id" => {
            let id = *rng.pick(&[0u8, 0x02, 0x03, 0x0a, 0x10, 0x14, 0x17, 0x7f, 0x80, 0xff]);
            sub(&mut m, id, rng.below(128) as u8 * 2, &rb4(rng, 40));
            let g = pick_gram(rng);
            if g.len() > 20 {
                m.extend_from_slice(&g[20..]);
            }
        }
        "submessage_length_overrun" => {
            let id = *rng.pick(&[rtpswalk::DATA, rtpswalk::HEARTBEAT, rtpswalk::ACKNACK, rtpswalk::GAP, rtpswalk::DATA_FRAG, rtpswalk::INFO_TS, rtpswalk::INFO_DST]);
            let body = rb(rng, 40);
            sub_len(&mut m, id, 0, &body, *rng.pick(&[65535u16, 1000, 1, 2, 3, (body.len() + 4) as u16]));
        }
        "pad_and_zero_length" => {
            sub(&mut m, rtpswalk::PAD, 0, &[]);
            let id = *rng.pick(&[rtpswalk::HEARTBEAT, rtpswalk::ACKNACK, rtpswalk::GAP, rtpswalk::NACK_FRAG, rtpswalk::INFO_DST, rtpswalk::INFO_SRC, rtpswalk::HEARTBEAT_FRAG]);
            sub_len(&mut m, id, 0, &rb(rng, 30), 0);
        }
        "heartbeat_frag_extreme" => {
            let mut b = rid.to_vec();
            b.extend_from_slice(&wid);
            b.extend_from_slice(&sn(extreme_sn(rng)));
            b.extend_from_slice(&u32x(rng).to_le_bytes());
            b.extend_from_slice(&u32x(rng).to_le_bytes());
            sub(&mut m, rtpswalk::HEARTBEAT_FRAG, 0, &b);
        }
        c @ ("discovery_param_mutated" | "discovery_locator_kind") => {
            // a captured discovery DATA (SPDP / SEDP) with one parameter mutated
            let cands: Vec<&(usize, Vec<u8>)> = cap
                .grams
                .iter()
                .filter(|(_, g)| {
                    rtpswalk::walk(g)
                        .subs
                        .iter()
                        .any(|s| s.id == rtpswalk::DATA && s.is_builtin() && s.payload.map(|p| p.1 > 12).unwrap_or(false))
                })
                .collect();
            if cands.is_empty() {
                return m;
            }
            let mut g = cands[rng.usize(cands.len())].1.clone();
            let w = rtpswalk::walk(&g);
            let Some(s) = w.subs.iter().find(|s| s.id == rtpswalk::DATA && s.is_builtin() && s.payload.is_some()) else {
                return g;
            };
            // bump the sequence number so that the (reliable) builtin reader may accept it
            let body = s.offset + 4;
            if rng.chance(0.7) && body + 20 <= g.len() {
                let newsn = sn(1 + rng.below(40) as i64);
                g[body + 12..body + 20].copy_from_slice(&newsn);
            }
            let ps = params(&g, s.payload.unwrap());
            if ps.is_empty() {
                return g;
            }
            if c == "discovery_locator_kind" {
                let locs: Vec<&(usize, u16, usize)> = ps.iter().filter(|p| matches!(p.1, 0x2f | 0x30 | 0x31 | 0x32 | 0x33 | 0x48) && p.2 >= 24).collect();
                if let Some(p) = locs.get(rng.usize(locs.len().max(1))) {
                    let kind = *rng.pick(&[2i32, 0, -1, 3, 0x7fff_ffff, 16]);
                    g[p.0 + 4..p.0 + 8].copy_from_slice(&kind.to_le_bytes());
                    if rng.bool() {
                        g[p.0 + 8..p.0 + 12].copy_from_slice(&u32x(rng).to_le_bytes());
                    }
                }
                return g;
            }
            let p = ps[rng.usize(ps.len())];
            match rng.below(5) {
                0 => {
                    // overwrite the value
                    for i in 0..p.2 {
                        g[p.0 + 4 + i] = *rng.pick(&[0u8, 0xff, 0x7f, 0x80, 1]);
                    }
                }
                1 => {
                    // first word of the value = a huge count/length
                    if p.2 >= 4 {
                        g[p.0 + 4..p.0 + 8].copy_from_slice(&u32x(rng).to_le_bytes());
                    }
                }
                2 => {
                    // change the declared length
                    let l = *rng.pick(&[0u16, 1, 2, 3, 4, 8, 65532, 65535, (p.2 as u16).wrapping_add(4), (p.2 as u16).wrapping_sub(4)]);
                    g[p.0 + 2..p.0 + 4].copy_from_slice(&l.to_le_bytes());
                }
                3 => {
                    // change the parameter id to another one
                    let pid = *rng.pick(&[0x02u16, 0x05, 0x07, 0x0f, 0x15, 0x16, 0x1a, 0x1d, 0x23, 0x29, 0x2f, 0x31, 0x32, 0x40, 0x50, 0x58, 0x5a, 0x70, 0x75, 0x4014, 0x8001, 0x3f01, 0x3f02]);
                    g[p.0..p.0 + 2].copy_from_slice(&pid.to_le_bytes());
                }
                _ => {
                    // random bytes in the value
                    let r = rng.bytes(p.2);
                    g[p.0 + 4..p.0 + 4 + p.2].copy_from_slice(&r);
                }
            }
            return g;
        }
        "typelookup_garbage" => {
            let i = 4 + rng.usize(2);
            let mut b = vec![0u8, 0, 16, 0];
            b.extend_from_slice(&builtin_r[i]);
            b.extend_from_slice(&builtin_w[i]);
            b.extend_from_slice(&sn(1 + rng.below(5) as i64));
            b.extend_from_slice(&[0, *rng.pick(&[1u8, 7, 9, 3]), 0, 0]);
            let n = rng.usize(120);
            let mut body = rng.bytes(n);
            // sprinkle huge little-endian counts
            for k in (0..body.len().saturating_sub(4)).step_by(16) {
                if rng.chance(0.3) {
                    body[k..k + 4].copy_from_slice(&u32x(rng).to_le_bytes());
                }
            }
            b.extend_from_slice(&body);
            sub(&mut m, rtpswalk::DATA, 0x04, &b);
        }
        "spoofed_user_data_garbage" => {
            let mut b = vec![0u8, 0, 16, 0];
            b.extend_from_slice(&rid);
            b.extend_from_slice(&wid);
            b.extend_from_slice(&sn(1 + rng.below(200) as i64));
            b.extend_from_slice(&[0, *rng.pick(&[1u8, 0, 6, 7, 0xff]), 0, *rng.pick(&[0u8, 1, 2, 3])]);
            let n = rng.usize(80);
            let mut body = rng.bytes(n);
            if body.len() >= 16 && rng.bool() {
                body[12..16].copy_from_slice(&u32x(rng).to_le_bytes());
            }
            b.extend_from_slice(&body);
            sub(&mut m, rtpswalk::DATA, 0x04, &b);
        }
        _ => {
            // data_key_only_garbage: key flag set, payload = garbage key
            let mut b = vec![0u8, 0, 16, 0];
            b.extend_from_slice(&rid);
            b.extend_from_slice(&wid);
            b.extend_from_slice(&sn(1 + rng.below(200) as i64));
            b.extend_from_slice(&[0, 1, 0, 0]);
            b.extend_from_slice(&rb(rng, 24));
            sub(&mut m, rtpswalk::DATA, 0x08, &b);
        }
    }
    m
}
