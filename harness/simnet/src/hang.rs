//! Hang monitor: a task poll that never returns cannot be observed from inside the single-threaded
//! simulation (virtual time stands still, no other task runs). A monitor thread watches a poll
//! counter and the CPU time of the process: if the SAME poll is still running after the process has
//! burnt `CPU_LIMIT_S` seconds of CPU (so it is computing, not waiting for the machine), the verdict
//! is decisive - "a DDS task does not return" - and the monitor writes the shard's report itself
//! (one violation carrying the current case) and ends the process.
//! CPU time, not wall-clock time, decides: an overloaded machine slows the process without letting
//! the CPU counter advance.
use std::sync::Mutex;
use std::sync::atomic::{AtomicBool, AtomicU64, Ordering};
use vcore::{Json, Report};

pub const CPU_LIMIT_S: f64 = 45.0;
/// incremented immediately before and after every poll of a DDS task (odd while a poll is running)
pub static POLL_SEQ: AtomicU64 = AtomicU64::new(0);
static INSTALLED: AtomicBool = AtomicBool::new(false);
struct Ctx {
    property: String,
    out: String,
    /// description of what is running now: (signature suffix, text, replay)
    case: Option<(String, String, Json)>,
}
static CTX: Mutex<Option<Ctx>> = Mutex::new(None);

#[inline]
pub fn poll_begin() {
    POLL_SEQ.fetch_add(1, Ordering::SeqCst);
}
#[inline]
pub fn poll_end() {
    POLL_SEQ.fetch_add(1, Ordering::SeqCst);
}

fn process_cpu_s() -> Option<f64> {
    // /proc/self/stat: utime and stime are fields 14 and 15 (after the ")" of the command name)
    let s = std::fs::read_to_string("/proc/self/stat").ok()?;
    let rest = &s[s.rfind(')')? + 2..];
    let f: Vec<&str> = rest.split(' ').collect();
    let ut: f64 = f.get(11)?.parse().ok()?;
    let st: f64 = f.get(12)?.parse().ok()?;
    Some((ut + st) / 100.0)
}

/// Tell the monitor what is being executed (call before every world).
pub fn set_case(sig_suffix: &str, what: &str, replay: Json) {
    if let Some(c) = CTX.lock().unwrap().as_mut() {
        c.case = Some((sig_suffix.to_string(), what.to_string(), replay));
    }
}
/// Used by `run_world` when the scenario runner did not describe the case itself.
pub fn set_default_case(world_seed: u64) -> bool {
    if let Some(c) = CTX.lock().unwrap().as_mut() {
        if c.case.is_none() {
            c.case = Some((
                "case=see_replay".to_string(),
                format!("world with simulation seed {world_seed} (= the case seed of the scenario)"),
                Json::obj().set("world_seed", world_seed).set("note", "re-run the check with the same --seed: the case whose seed this is hangs"),
            ));
            return true;
        }
    }
    false
}
pub fn clear_case() {
    if let Some(c) = CTX.lock().unwrap().as_mut() {
        c.case = None;
    }
}

/// Start the monitor thread (once per process).
pub fn install(property: &str, out: &str) {
    *CTX.lock().unwrap() = Some(Ctx { property: property.to_string(), out: out.to_string(), case: None });
    if INSTALLED.swap(true, Ordering::SeqCst) {
        return;
    }
    std::thread::Builder::new()
        .name("hang-monitor".into())
        .spawn(|| {
            let mut last_seq = POLL_SEQ.load(Ordering::SeqCst);
            let mut cpu_at_change = process_cpu_s().unwrap_or(0.0);
            loop {
                std::thread::sleep(std::time::Duration::from_millis(500));
                let seq = POLL_SEQ.load(Ordering::SeqCst);
                let Some(cpu) = process_cpu_s() else { continue };
                if seq != last_seq || seq % 2 == 0 {
                    last_seq = seq;
                    cpu_at_change = cpu;
                    continue;
                }
                if cpu - cpu_at_change < CPU_LIMIT_S {
                    continue;
                }
                // the same DDS task poll has been computing for CPU_LIMIT_S seconds
                let g = CTX.lock().unwrap();
                let Some(c) = g.as_ref() else { continue };
                let Some((suffix, what, replay)) = c.case.clone() else { continue };
                let mut rep = Report::new(&c.property);
                rep.eval();
                rep.violation(
                    format!("hang|dds_task_poll_never_returns|{suffix}"),
                    format!(
                        "one poll of a DDS task (the worker serving every participant of the process) has been running for more than {CPU_LIMIT_S} s of CPU time without returning: {what}"
                    ),
                    replay,
                );
                rep.inconclusive("this shard was ended by the hang monitor: results of its earlier cases are not included");
                rep.write(&c.out);
                eprintln!("hang monitor: DDS task poll does not return ({what}); report written, exiting");
                std::process::exit(0);
            }
        })
        .expect("spawn hang monitor");
}
