//! E1 status scenarios: `scen_stat <c30|c32|c33> --seed S --shard i --nshards n --cases N --tier T --out F [--replay F] [--only-case N --trace]`
#[path = "../../scen/src/common.rs"]
mod common;
mod c30;
mod c32;
mod c33;
mod rec;

use common::Shard;
use vcore::Args;

fn main() {
    let args = Args::parse();
    let scenario = args.pos.first().cloned().unwrap_or_default();
    let shard = Shard::from_args(args);
    if !shard.out.is_empty() && shard.out != "-" && !shard.args.has("child") {
        simnet::hang::install(&scenario.to_uppercase(), &shard.out);
    }
    let rep = match scenario.as_str() {
        "c30" => c30::run(&shard),
        "c32" => c32::run(&shard),
        "c33" => c33::run(&shard),
        other => {
            eprintln!("unknown scenario {other}");
            std::process::exit(3);
        }
    };
    rep.write(&shard.out);
}
