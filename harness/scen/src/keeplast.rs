//! C27: reliable KEEP_LAST writers block instead of dropping unacknowledged samples; Timeout
//! stores nothing; the writer never holds more than depth samples per instance.
use crate::common::*;
use dust_dds::infrastructure::qos::{DataReaderQos, DataWriterQos};
use dust_dds::infrastructure::qos_policy::*;
use dust_dds::infrastructure::sample_info::{ANY_INSTANCE_STATE, ANY_SAMPLE_STATE, ANY_VIEW_STATE};
use dust_dds::infrastructure::time::DurationKind;
use simnet::*;
use std::collections::{BTreeMap, BTreeSet};
use vcore::rtpswalk::{self, Class};
use vcore::{Json, Report, Rng};

#[derive(Clone, Debug)]
struct Params {
    depth: u32,
    block_ms: i64, // -1 = infinite
    n_instances: u32,
    n_writes: u32,
    gap_ms: i64,
    /// 0: ACKNACKs withheld for a window, 1: random loss, 2: reader's whole user traffic withheld for a window, 3: none
    ack_fault: u32,
    loss: f64,
    window_ms: i64,
    policy: Policy,
    jitter: i64,
    sizes: Vec<usize>,
    frag: usize,
    /// a second RELIABLE reader whose acknowledgements are never disturbed
    healthy_second_reader: bool,
}

impl Params {
    fn to_json(&self) -> Json {
        Json::obj()
            .set("depth", self.depth)
            .set("max_blocking_ms", self.block_ms)
            .set("instances", self.n_instances)
            .set("writes", self.n_writes)
            .set("write_gap_ms", self.gap_ms)
            .set(
                "ack_fault",
                ["acknacks_withheld_in_window", "random_loss", "reader_silent_in_window", "none"][self.ack_fault as usize],
            )
            .set("loss", format!("{:.2}", self.loss))
            .set("window_ms", self.window_ms)
            .set("policy", format!("{:?}", self.policy))
            .set("payload_lens", self.sizes.clone())
            .set("fragment_size", self.frag)
            .set("healthy_second_reader", self.healthy_second_reader)
    }
}

fn gen_params(rng: &mut Rng) -> Params {
    let frag = *rng.pick(&[256usize, 1344]);
    let mut sizes = vec![8usize, 24];
    if rng.chance(0.2) {
        sizes.push(frag + 5);
    }
    Params {
        depth: 1 + rng.below(3) as u32,
        block_ms: *rng.pick(&[0i64, 10, 100, 1000, -1]),
        n_instances: 1 + rng.below(2) as u32,
        n_writes: 4 + rng.below(36) as u32,
        gap_ms: *rng.pick(&[0i64, 0, 1, 5, 30, 120]),
        ack_fault: rng.below(4) as u32,
        loss: rng.f64() * 0.5,
        window_ms: 100 + rng.below(1500) as i64,
        policy: pick_policy(rng),
        jitter: *rng.pick(&[0i64, 1000, 1_000_000]),
        sizes,
        frag,
        healthy_second_reader: rng.chance(0.4),
    }
}

struct W {
    seq: u32,
    key: u32,
    call_ms: i64,
    ret_ms: i64,
    res: String,
}

struct Outcome {
    matched: bool,
    writes: Vec<W>,
    presented: BTreeSet<u32>,
    probe_presented: Vec<(u32, u32)>, // (seq,key) seen by the late TRANSIENT_LOCAL probe reader
    probe_created_after_seq: u32,
    stuck: bool,
    storm: bool,
}

async fn scenario(w: World, p: Params) -> Outcome {
    let sim = w.sim.clone();
    let ms = |sim: &Sim| sim.elapsed() / MS;
    let wq = DataWriterQos {
        reliability: ReliabilityQosPolicy {
            kind: ReliabilityQosPolicyKind::Reliable,
            max_blocking_time: if p.block_ms < 0 { DurationKind::Infinite } else { finite_ms(p.block_ms) },
        },
        durability: DurabilityQosPolicy {
            kind: DurabilityQosPolicyKind::TransientLocal,
        },
        history: keep_last(p.depth),
        ..Default::default()
    };
    let rq = DataReaderQos {
        reliability: reliable(100),
        history: keep_all(),
        ..Default::default()
    };
    let mut out = Outcome {
        matched: false,
        writes: vec![],
        presented: BTreeSet::new(),
        probe_presented: vec![],
        probe_created_after_seq: 0,
        stuck: false,
        storm: false,
    };
    let dpw = new_participant(&w, 0).await;
    let tw = new_topic::<Msg>(&dpw, "KL", "Msg").await;
    let pb = new_publisher(&dpw).await;
    let dw = new_writer::<Msg>(&pb, &tw, wq).await;
    let dpr = new_participant(&w, 0).await;
    let tr = new_topic::<Msg>(&dpr, "KL", "Msg").await;
    let sb = new_subscriber(&dpr).await;
    let dr = new_reader::<Msg>(&sb, &tr, rq).await;
    // third participant for the late probe reader (discovered in advance)
    let dpp = new_participant(&w, 0).await;
    let tp = new_topic::<Msg>(&dpp, "KL", "Msg").await;
    let sbp = new_subscriber(&dpp).await;
    // optional second reliable reader (participant 3) that always acknowledges promptly: the
    // writer must still wait for the slower one
    let mut second = None;
    if p.healthy_second_reader {
        let dp2 = new_participant(&w, 0).await;
        let t2 = new_topic::<Msg>(&dp2, "KL", "Msg").await;
        let sb2 = new_subscriber(&dp2).await;
        let dr2 = new_reader::<Msg>(
            &sb2,
            &t2,
            DataReaderQos {
                reliability: reliable(100),
                history: keep_all(),
                ..Default::default()
            },
        )
        .await;
        second = Some((dp2, t2, sb2, dr2));
    }
    let n_readers = if p.healthy_second_reader { 2 } else { 1 };
    out.matched = wait_matched(&sim, &dw, n_readers, 20 * SEC).await && wait_reader_matched(&sim, &dr, 1, 20 * SEC).await;
    if !out.matched {
        return out;
    }
    let until = sim.now() + p.window_ms * MS;
    {
        let (fault, loss) = (p.ack_fault, p.loss);
        w.net.set_policy(Some(Box::new(move |pkt: &Pkt, rng: &mut Rng| {
            if pkt.class == Class::User && pkt.now < until {
                match fault {
                    0 => {
                        if pkt.src == 1 && pkt.walk.subs.iter().any(|s| s.id == rtpswalk::ACKNACK) {
                            return vec![];
                        }
                    }
                    1 => {
                        if (pkt.src == 1 || pkt.dst == 1) && rng.chance(loss) {
                            return vec![];
                        }
                    }
                    2 => {
                        if pkt.src == 1 || pkt.dst == 1 {
                            return vec![];
                        }
                    }
                    _ => {}
                }
            }
            vec![Delivery::after(BASE_LATENCY)]
        })));
    }
    let take_all = |dr: dust_dds::dds_async::data_reader::DataReaderAsync<Msg>| async move {
        let mut v = Vec::new();
        if let Ok(s) = dr.take(i32::MAX, ANY_SAMPLE_STATE, ANY_VIEW_STATE, ANY_INSTANCE_STATE).await {
            for x in s {
                if let Some(m) = x.data {
                    v.push((m.seq, m.key));
                }
            }
        }
        v
    };
    let mut rng = Rng::new(p.n_writes as u64 * 17 + p.window_ms as u64);
    for seq in 0..p.n_writes {
        let key = rng.below(p.n_instances as u64) as u32;
        let len = *rng.pick(&p.sizes);
        let call = ms(&sim);
        let bound = if p.block_ms < 0 { 20_000 } else { p.block_ms + 10_000 };
        let r = sim.timeout(bound * MS, dw.write(msg(key, 0, seq, len), None)).await;
        let res = match r {
            Ok(Ok(())) => "Ok".to_string(),
            Ok(Err(e)) => err_name(&e),
            Err(_) => "pending".to_string(),
        };
        let pending = res == "pending";
        out.writes.push(W {
            seq,
            key,
            call_ms: call,
            ret_ms: ms(&sim),
            res,
        });
        if pending {
            // an infinite/very long block: stop writing (a second write would be refused anyway)
            break;
        }
        for (s, _) in take_all(dr.clone()).await {
            out.presented.insert(s);
        }
        if p.gap_ms > 0 {
            sim.sleep(rng.below(p.gap_ms as u64 + 1) as i64 * MS + 1).await;
        }
    }
    if sim.now() < until {
        sim.sleep(until - sim.now()).await;
    }
    // late TRANSIENT_LOCAL probe: sees what the writer holds now
    out.probe_created_after_seq = out.writes.last().map(|w| w.seq).unwrap_or(0);
    let probe = new_reader::<Msg>(
        &sbp,
        &tp,
        DataReaderQos {
            reliability: reliable(100),
            durability: DurabilityQosPolicy {
                kind: DurabilityQosPolicyKind::TransientLocal,
            },
            history: keep_all(),
            ..Default::default()
        },
    )
    .await;
    // bounded progress on the main reader
    let ok: BTreeSet<u32> = out.writes.iter().filter(|w| w.res == "Ok").map(|w| w.seq).collect();
    let mut last_progress = sim.now();
    let cap = w.net.counters().submitted + 300_000;
    let hard = sim.now() + 200 * SEC;
    loop {
        let before = out.presented.len();
        for (s, _) in take_all(dr.clone()).await {
            out.presented.insert(s);
        }
        for x in take_all(probe.clone()).await {
            out.probe_presented.push(x);
        }
        if out.presented.len() != before {
            last_progress = sim.now();
        }
        let complete = ok.iter().all(|s| out.presented.contains(s));
        if complete && sim.now() > until + 3 * SEC {
            break;
        }
        if !complete && sim.now() - last_progress.max(until) > 30 * SEC {
            out.stuck = true;
            break;
        }
        if sim.now() > hard || w.net.counters().submitted > cap {
            out.storm = true;
            break;
        }
        sim.sleep(50 * MS).await;
    }
    drop(second);
    out
}

pub fn run(shard: &Shard) -> Report {
    let mut rep = Report::new("C27");
    for case in shard.my_cases() {
        let cs = shard.case_seed(case);
        let mut rng = Rng::new(cs);
        let p = gen_params(&mut rng);
        let mut cfg = WorldConfig::default();
        cfg.sim.seed = cs;
        cfg.sim.policy = p.policy;
        cfg.sim.jitter_max = p.jitter;
        cfg.sim.max_polls = 6_000_000;
        cfg.fragment_size = p.frag;
        let p2 = p.clone();
        let (res, stats, _net) = run_world(&cfg, move |w| scenario(w, p2));
        rep.eval();
        let replay = shard.base_replay("keeplast", case).set("params", p.to_json());
        let panicked = report_panics(&mut rep, &stats, &replay);
        let Some(o) = res else {
            if !panicked {
                rep.inconclusive(format!("case {case}: scenario did not finish ({:?})", stats.stop));
            }
            continue;
        };
        if !o.matched {
            if !panicked {
                rep.inconclusive(format!("case {case}: endpoints did not match"));
            }
            continue;
        }
        let feat = format!("depth={}|block={}", if p.depth == 1 { "1" } else { "gt1" }, match p.block_ms {
            -1 => "infinite",
            0 => "zero",
            _ => "finite",
        });
        let slack = p.jitter / MS + 2;
        let mut n_blocked = 0;
        for wr in &o.writes {
            rep.set("write_results", wr.res.clone());
            let dur = wr.ret_ms - wr.call_ms;
            if dur > 0 {
                n_blocked += 1;
            }
            match wr.res.as_str() {
                "Timeout" => {
                    rep.stat("writes_timeout", 1);
                    if p.block_ms >= 0 && dur > p.block_ms + 50 + slack {
                        rep.violation(
                            format!("late_timeout|{feat}"),
                            format!("write #{} returned Timeout after {dur} ms (max_blocking_time {} ms + 50 ms poke period)", wr.seq, p.block_ms),
                            replay.clone().set("violation", "late_timeout").set("seq", wr.seq).set("blocked_ms", dur),
                        );
                    }
                    if p.block_ms >= 0 && dur + slack < p.block_ms {
                        rep.violation(
                            format!("early_timeout|{feat}"),
                            format!("write #{} returned Timeout after only {dur} ms (max_blocking_time {} ms)", wr.seq, p.block_ms),
                            replay.clone().set("violation", "early_timeout").set("seq", wr.seq).set("blocked_ms", dur),
                        );
                    }
                    if o.presented.contains(&wr.seq) || o.probe_presented.iter().any(|x| x.0 == wr.seq) {
                        rep.violation(
                            format!("stored_on_timeout|{feat}"),
                            format!("write #{} returned Timeout but the sample was stored: a reader presented it later", wr.seq),
                            replay.clone().set("violation", "stored_on_timeout").set("seq", wr.seq),
                        );
                    }
                }
                "Ok" => {
                    rep.stat("writes_ok", 1);
                }
                "pending" => {
                    rep.stat("writes_still_blocked_at_bound", 1);
                    if p.block_ms >= 0 {
                        rep.violation(
                            format!("late_timeout|{feat}"),
                            format!("write #{} had not returned {} ms after the call (max_blocking_time {} ms)", wr.seq, dur, p.block_ms),
                            replay.clone().set("violation", "late_timeout").set("seq", wr.seq),
                        );
                    }
                }
                _ => {}
            }
        }
        rep.stat("writes_that_blocked", n_blocked);
        // every accepted write must reach the matched reliable reader: nothing unacknowledged may be discarded
        let lost: Vec<u32> = o.writes.iter().filter(|w| w.res == "Ok" && !o.presented.contains(&w.seq)).map(|w| w.seq).collect();
        if !lost.is_empty() {
            if o.stuck {
                rep.violation(
                    format!("dropped_unacked|{feat}"),
                    format!(
                        "{} accepted writes (e.g. #{}) were never presented to the matched reliable reader (no progress for 30 s virtual after healing): the writer discarded unacknowledged samples",
                        lost.len(), lost[0]
                    ),
                    replay.clone().set("violation", "dropped_unacked").set("lost", lost.iter().take(10).cloned().collect::<Vec<_>>()),
                );
            } else {
                rep.stat("cases_unfinished_storm(no verdict)", 1);
            }
        }
        // writer history depth, seen through the late-joining TRANSIENT_LOCAL probe
        let mut per: BTreeMap<u32, BTreeSet<u32>> = BTreeMap::new();
        for (s, k) in &o.probe_presented {
            if *s <= o.probe_created_after_seq {
                per.entry(*k).or_default().insert(*s);
            }
        }
        rep.stat("probe_history_samples", per.values().map(|v| v.len()).sum::<usize>() as i128);
        let had_pending = o.writes.iter().any(|w| w.res == "pending");
        for (k, v) in &per {
            // (a write still blocked inside dust-dds may complete after the probe was created; the
            // probe would then legitimately see depth + 1 samples over time)
            if v.len() > p.depth as usize && !had_pending {
                rep.violation(
                    format!("over_depth|{feat}"),
                    format!("late TRANSIENT_LOCAL reader received {} retained samples of instance {k} from a KEEP_LAST({}) writer", v.len(), p.depth),
                    replay.clone().set("violation", "over_depth").set("instance", *k).set("samples", v.iter().cloned().collect::<Vec<_>>()),
                );
            }
        }
        if n_blocked > 0 || o.writes.iter().any(|w| w.res == "Timeout") {
            rep.nontrivial(vcore::mix(stats.poll_hash, vcore::fnv_str(&p.to_json().to_string())));
        }
        if case < 40 {
            rep.sample(
                Json::obj()
                    .set("case", case)
                    .set("params", p.to_json())
                    .set("results", o.writes.iter().map(|w| format!("#{}:{}@{}ms", w.seq, w.res, w.ret_ms - w.call_ms)).collect::<Vec<_>>())
                    .set("presented", o.presented.len()),
            );
        }
    }
    rep
}
