//! Silent panic hook (records message, location and backtrace of the current thread's last panic)
//! and backtrace post-processing: first `dust_dds::` frame, generics / hash suffix stripped.
use crate::alloc_track;
use std::cell::RefCell;

#[derive(Clone, Debug, Default)]
pub struct PanicRec {
    pub msg: String,
    pub file: String,
    pub line: u32,
    pub backtrace: String,
}

thread_local! {
    static LAST: RefCell<Option<PanicRec>> = const { RefCell::new(None) };
}

pub fn install_hook() {
    std::panic::set_hook(Box::new(|info| {
        let prev = alloc_track::pause();
        let msg = if let Some(s) = info.payload().downcast_ref::<&str>() {
            (*s).to_string()
        } else if let Some(s) = info.payload().downcast_ref::<String>() {
            s.clone()
        } else {
            "<non-string panic payload>".to_string()
        };
        let (file, line) = match info.location() {
            Some(l) => (l.file().to_string(), l.line()),
            None => (String::new(), 0),
        };
        let backtrace = alloc_track::fast_backtrace();
        let _ = LAST.try_with(|c| {
            if let Ok(mut c) = c.try_borrow_mut() {
                *c = Some(PanicRec { msg, file, line, backtrace });
            }
        });
        alloc_track::resume(prev);
    }));
}

pub fn take_last() -> Option<PanicRec> {
    LAST.try_with(|c| c.try_borrow_mut().ok().and_then(|mut c| c.take())).ok().flatten()
}

#[derive(Clone, Debug, Default)]
pub struct Frame {
    pub name: String,
    pub file: String,
    pub line: u32,
}

/// Frames of a rendered `std::backtrace::Backtrace`, innermost first ("N: name" lines followed by an
/// optional "at file:line:col" line).
pub fn frames(bt: &str) -> Vec<Frame> {
    let mut out: Vec<Frame> = Vec::new();
    for l in bt.lines() {
        let t = l.trim_start();
        let digits = t.chars().take_while(|c| c.is_ascii_digit()).count();
        if digits > 0 && t[digits..].starts_with(": ") {
            out.push(Frame {
                name: t[digits + 2..].trim().to_string(),
                ..Default::default()
            });
        } else if let Some(rest) = t.strip_prefix("at ") {
            if let Some(f) = out.last_mut() {
                if f.file.is_empty() {
                    // file:line:col
                    let mut parts = rest.trim().rsplitn(3, ':');
                    let _col = parts.next();
                    let line = parts.next().and_then(|x| x.parse().ok()).unwrap_or(0);
                    f.file = parts.next().unwrap_or("").to_string();
                    f.line = line;
                }
            }
        }
    }
    out
}

/// Function-level identifier of a frame inside dust-dds. The `release` profile of the harness has
/// `debug = "line-tables-only"`: frame names are then the *unqualified* DWARF names, so the module
/// path is rebuilt from the source file (`/repo/dds/src/a/b.rs` + `f<T>` -> `dust_dds::a::b::f`).
/// With full debug info (qualified names) the symbol is used as is.
pub fn dust_frame_id(f: &Frame) -> Option<String> {
    let n = normalize_symbol(&f.name);
    if n.starts_with("dust_dds::") {
        return Some(n);
    }
    let p = f.file.find("/dds/src/")?;
    let rel = &f.file[p + "/dds/src/".len()..];
    let rel = rel.strip_suffix(".rs").unwrap_or(rel);
    let mut module = rel.replace('/', "::");
    if let Some(m) = module.strip_suffix("::mod") {
        module = m.to_string();
    }
    if module == "lib" {
        module.clear();
    }
    let short = n.rsplit("::").next().unwrap_or(&n).to_string();
    if module.is_empty() {
        Some(format!("dust_dds::{}", short))
    } else {
        Some(format!("dust_dds::{}::{}", module, short))
    }
}

/// `<A as B>::f` -> `A::f`; strip `::h0123456789abcdef`; drop every balanced `<...>` group.
pub fn normalize_symbol(sym: &str) -> String {
    let mut s = sym.trim().to_string();
    // hash suffix
    if let Some(p) = s.rfind("::h") {
        let tail = &s[p + 3..];
        if tail.len() == 16 && tail.chars().all(|c| c.is_ascii_hexdigit()) {
            s.truncate(p);
        }
    }
    // leading `<A as B>` (possibly nested)
    let mut guard = 0;
    while s.starts_with('<') && guard < 8 {
        guard += 1;
        let b = s.as_bytes();
        let mut depth = 0i32;
        let mut close = None;
        let mut as_pos = None;
        let mut i = 0;
        while i < b.len() {
            match b[i] {
                b'<' => depth += 1,
                b'>' => {
                    // ignore "->"
                    if i > 0 && b[i - 1] == b'-' {
                    } else {
                        depth -= 1;
                        if depth == 0 {
                            close = Some(i);
                            break;
                        }
                    }
                }
                b' ' if depth == 1 && as_pos.is_none() && s[i..].starts_with(" as ") => {
                    as_pos = Some(i);
                }
                _ => {}
            }
            i += 1;
        }
        match close {
            Some(c) => {
                let inner_end = as_pos.unwrap_or(c);
                let inner = s[1..inner_end].to_string();
                let rest = s[c + 1..].to_string();
                s = format!("{}{}", inner, rest);
            }
            None => break,
        }
    }
    // drop generic argument lists
    let mut out = String::with_capacity(s.len());
    let mut depth = 0i32;
    let b: Vec<char> = s.chars().collect();
    let mut i = 0;
    while i < b.len() {
        let c = b[i];
        if c == '<' {
            depth += 1;
        } else if c == '>' && !(i > 0 && b[i - 1] == '-') {
            if depth > 0 {
                depth -= 1;
            }
        } else if depth == 0 {
            out.push(c);
        }
        i += 1;
    }
    // `foo::::bar` left over from turbofish `foo::<T>::bar`
    while out.contains("::::") {
        out = out.replace("::::", "::");
    }
    if out.ends_with("::") {
        out.truncate(out.len() - 2);
    }
    // leading reference / pointer sigils of `<&T as ..>`
    out.trim_start_matches(['&', '*', ' ']).trim_start_matches("mut ").trim_start_matches("const ").to_string()
}

#[derive(Clone, Debug, PartialEq)]
pub enum Origin {
    /// innermost non-runtime frame belongs to dust_dds: (normalized symbol)
    Dust(String),
    /// innermost non-runtime frame belongs to the harness
    Harness(String),
    /// neither found
    Unknown,
}

/// Decide who panicked / allocated: walk from the innermost frame outwards, skipping the Rust
/// runtime / std / third-party frames and the harness' own hook and allocator; the first frame that
/// belongs to dust-dds (genuine) or to the harness (harness problem) decides. Closure frames of
/// dust-dds are passed over in favour of the enclosing function when that one follows.
pub fn origin(bt: &str) -> Origin {
    let fr = frames(bt);
    let mut closure_fallback: Option<String> = None;
    for f in &fr {
        let qualified = normalize_symbol(&f.name);
        let is_dust = qualified.starts_with("dust_dds::") || f.file.contains("/dds/src/");
        if is_dust {
            if let Some(id) = dust_frame_id(f) {
                if id.contains("{closure") || id.contains("{{closure") {
                    if closure_fallback.is_none() {
                        closure_fallback = Some(id);
                    }
                    continue;
                }
                return Origin::Dust(id);
            }
            continue;
        }
        let is_harness = f.file.contains("/verif/harness/")
            || qualified.starts_with("xcdrlib::")
            || qualified.starts_with("vcore::")
            || qualified.starts_with("c07dev::")
            || qualified.starts_with("xcdr::");
        if is_harness {
            if f.file.ends_with("/alloc_track.rs") || f.file.ends_with("/c07/bt.rs") || qualified.contains("alloc_track") || qualified.contains("c07::bt::") {
                continue;
            }
            if let Some(c) = closure_fallback {
                return Origin::Dust(c);
            }
            return Origin::Harness(format!("{} ({}:{})", qualified, f.file, f.line));
        }
    }
    match closure_fallback {
        Some(c) => Origin::Dust(c),
        None => Origin::Unknown,
    }
}

#[cfg(test)]
mod tests {
    use super::*;
    #[test]
    fn norm() {
        assert_eq!(
            normalize_symbol("<dust_dds::xtypes::deserializer::EncodingVersion2 as dust_dds::xtypes::deserializer::EncodingVersion>::seek_to_pid::h0123456789abcdef"),
            "dust_dds::xtypes::deserializer::EncodingVersion2::seek_to_pid"
        );
        assert_eq!(
            normalize_symbol("dust_dds::xtypes::deserializer::XTypesDeserializer<E,V>::deserialize_sequence_elements::deserialize_primitive_sequence_elements"),
            "dust_dds::xtypes::deserializer::XTypesDeserializer::deserialize_sequence_elements::deserialize_primitive_sequence_elements"
        );
        assert_eq!(normalize_symbol("alloc::vec::Vec<T,A>::with_capacity_in"), "alloc::vec::Vec::with_capacity_in");
    }
}
