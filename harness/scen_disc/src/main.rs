//! E1 discovery scenarios: `scen_disc <c15|c16|c17> --seed S --shard i --nshards n --cases N --tier T --out F`
//! C15 matching <=> compatible, C16 matched-status counts, C17 participant discovery / lease / ignore.
#[path = "../../scen/src/common.rs"]
mod common;
mod c15;
mod c16;
mod c17;
mod fnm;

use common::Shard;
use vcore::Args;

fn main() {
    let args = Args::parse();
    let scenario = args.pos.first().cloned().unwrap_or_default();
    let shard = Shard::from_args(args);
    if !shard.out.is_empty() && shard.out != "-" && !shard.args.has("child") {
        simnet::hang::install(&scenario.to_uppercase(), &shard.out);
    }
    let rep = match scenario.as_str() {
        "c15" => c15::run(&shard),
        "c16" => c16::run(&shard),
        "c17" => c17::run(&shard),
        other => {
            eprintln!("unknown scenario {other}");
            std::process::exit(3);
        }
    };
    rep.write(&shard.out);
}
