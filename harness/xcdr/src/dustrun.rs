//! Running dust-dds entry points under catch_unwind, with panic message and the first `dust_dds::`
//! backtrace frame captured for signatures.
use crate::refenc::Rep;
use dust_dds::verif_hooks::{deserializer, serializer};
use dust_dds::xtypes::dynamic_type::{DynamicData, DynamicType};
use std::cell::RefCell;
use std::collections::HashMap;
use std::panic::{AssertUnwindSafe, catch_unwind};
use std::sync::Once;

#[derive(Clone, Debug, Default)]
pub struct PanicInfo {
    pub msg: String,
    pub location: String,
    pub frame: String,
}

thread_local! {
    static LAST: RefCell<Option<PanicInfo>> = const { RefCell::new(None) };
    static FRAME_CACHE: RefCell<HashMap<String, String>> = RefCell::new(HashMap::new());
}

fn strip_generics(s: &str) -> String {
    let mut out = String::new();
    let mut depth = 0i32;
    for c in s.chars() {
        match c {
            '<' => depth += 1,
            '>' => depth = (depth - 1).max(0),
            _ if depth == 0 => out.push(c),
            _ => {}
        }
    }
    if let Some(i) = out.rfind("::h") {
        if out[i + 3..].len() == 16 && out[i + 3..].chars().all(|c| c.is_ascii_hexdigit()) {
            out.truncate(i);
        }
    }
    out.trim_matches(':').to_string()
}

/// First backtrace frame whose source file is inside /repo/dds/src: `<function>@<file>` (function
/// level, no line numbers, so unrelated edits do not change it).
fn first_dust_frame(bt: &str) -> String {
    let lines: Vec<&str> = bt.lines().collect();
    let mut i = 0;
    while i < lines.len() {
        let l = lines[i].trim();
        if let Some(idx) = l.find(": ") {
            if l[..idx].chars().all(|c| c.is_ascii_digit()) {
                let sym = &l[idx + 2..];
                let at = lines.get(i + 1).map(|x| x.trim()).unwrap_or("");
                if let Some(path) = at.strip_prefix("at ") {
                    if let Some(k) = path.find("/repo/dds/src/") {
                        let file = &path[k + "/repo/dds/src/".len()..];
                        let file = file.split(':').next().unwrap_or(file);
                        // `<A as B>::f<..>` -> keep the text before the first generic bracket pair
                        let name = if let Some(rest) = sym.strip_prefix('<') {
                            // "<Type as Trait>::method<...>"
                            let close = rest.find(">::").map(|p| p + 3).unwrap_or(0);
                            strip_generics(&rest[close..])
                        } else {
                            strip_generics(sym)
                        };
                        let short = name.rsplit("::").next().unwrap_or(&name).to_string();
                        return format!("{}@{}", short, file);
                    }
                }
            }
        }
        i += 1;
    }
    String::new()
}

static HOOK: Once = Once::new();

pub fn install_hook() {
    HOOK.call_once(|| {
        std::panic::set_hook(Box::new(|info| {
            let msg = if let Some(s) = info.payload().downcast_ref::<&str>() {
                s.to_string()
            } else if let Some(s) = info.payload().downcast_ref::<String>() {
                s.clone()
            } else {
                "<non-string panic>".to_string()
            };
            let location = info
                .location()
                .map(|l| format!("{}:{}", l.file(), l.line()))
                .unwrap_or_default();
            let frame = FRAME_CACHE.with(|c| {
                let mut c = c.borrow_mut();
                if let Some(f) = c.get(&location) {
                    return f.clone();
                }
                let bt = std::backtrace::Backtrace::force_capture().to_string();
                let f = first_dust_frame(&bt);
                c.insert(location.clone(), f.clone());
                f
            });
            LAST.with(|l| {
                *l.borrow_mut() = Some(PanicInfo { msg, location, frame });
            });
        }));
    });
}

pub fn guarded<T>(f: impl FnOnce() -> T) -> Result<T, PanicInfo> {
    install_hook();
    LAST.with(|l| *l.borrow_mut() = None);
    match catch_unwind(AssertUnwindSafe(f)) {
        Ok(x) => Ok(x),
        Err(_) => Err(LAST.with(|l| l.borrow_mut().take()).unwrap_or_default()),
    }
}

impl PanicInfo {
    /// `<first dust_dds frame>|<normalised message>`; a panic without a dust_dds frame is a harness
    /// problem and must not be reported as a finding.
    pub fn sig(&self) -> String {
        format!("{}|{}", self.frame, vcore::normalize_msg(&self.msg))
    }
    pub fn in_dust(&self) -> bool {
        !self.frame.is_empty() || self.location.contains("/repo/dds/")
    }
}

pub enum Run<T> {
    Ok(T),
    Err(String),
    Panic(PanicInfo),
}

pub fn dust_serialize(d: &DynamicData<'static>, rep: Rep) -> Run<Vec<u8>> {
    let r = guarded(|| match rep {
        Rep::X1LE => serializer::serialize_cdr1_le(d),
        Rep::X1BE => serializer::serialize_cdr1_be(d),
        Rep::X2LE => serializer::serialize_cdr2_le(d),
        Rep::X2BE => serializer::serialize_cdr2_be(d),
    });
    match r {
        Ok(Ok(b)) => Run::Ok(b),
        Ok(Err(e)) => Run::Err(format!("{:?}", e)),
        Err(p) => Run::Panic(p),
    }
}

pub fn dust_deserialize(dt: DynamicType<'static>, b: &[u8]) -> Run<DynamicData<'static>> {
    let r = guarded(|| deserializer::deserialize_top_level_type(dt, b));
    match r {
        Ok(Ok(d)) => Run::Ok(d),
        Ok(Err(e)) => Run::Err(format!("{:?}", e)),
        Err(p) => Run::Panic(p),
    }
}

/// error variant without payload digits (`InvalidId(3)` -> `InvalidId(N)`)
pub fn err_class(e: &str) -> String {
    vcore::normalize_msg(e)
}
