//! C17: participant discovery, domain isolation, lease expiry, ignore_participant.
//!
//! A world has 2-4 participants with (domain id, domain tag) from {0,1,2} x {"", "a", "b"},
//! created at staggered times; SPDP multicast announcements are lost with probability p until
//! the end of a loss window; the network may rewrite PID_PARTICIPANT_LEASE_DURATION in the SPDP
//! announcements of a participant (dust-dds always announces 100 s). Then one of: a participant is
//! cut off (lease expiry bounds), a participant is ignored (before or after its discovery).
use crate::common::*;
use dust_dds::dds_async::configuration::DustDdsConfigurationBuilder;
use dust_dds::dds_async::data_reader::DataReaderAsync;
use dust_dds::dds_async::data_writer::DataWriterAsync;
use dust_dds::dds_async::domain_participant::DomainParticipantAsync;
use dust_dds::infrastructure::instance::InstanceHandle;
use dust_dds::infrastructure::listener::NO_LISTENER;
use dust_dds::infrastructure::qos::{DataReaderQos, DataWriterQos, QosKind};
use dust_dds::infrastructure::status::NO_STATUS;
use simnet::*;
use std::collections::BTreeSet;
use std::sync::{Arc, Mutex};
use vcore::rtpswalk::{self, Class, Walk};
use vcore::{Json, Report, Rng};

const SPDP_WRITER: [u8; 4] = [0x00, 0x01, 0x00, 0xc2];
const WORKER_PERIOD: i64 = 50 * MS;
/// allowance on top of lease + worker period: receive queue / mail latency (5 ms) + sleep
/// overshoot and scheduling (45 ms)
const LATE_MARGIN: i64 = 50 * MS;
const EARLY_PROBE: i64 = 20 * MS;

#[derive(Clone, Debug)]
struct PSpec {
    domain: i32,
    tag: String,
    create_at_ms: i64,
    /// lease (s) written into this participant's announcements by the network; None = 100 s as announced
    lease_s: Option<i32>,
}

#[derive(Clone, Debug, PartialEq)]
enum PhaseC {
    None,
    Lease { d: usize },
    Ignore { o: usize, x: usize, before_discovery: bool },
}

#[derive(Clone, Debug)]
struct Params {
    /// self test of the monitor: bias (ms) added to the lease the oracle assumes
    selftest_lease_bias_ms: i64,
    /// self test of the monitor: same-group announcements travel only through `inject`
    selftest_inject: bool,
    user_data_before_cut: bool,
    parts: Vec<PSpec>,
    interval_ms: i64,
    loss: f64,
    loss_until_ms: i64,
    phase_c: PhaseC,
    policy: Policy,
    clock_tick: i64,
    jitter: i64,
}

impl Params {
    fn same_group(&self, i: usize, j: usize) -> bool {
        self.parts[i].domain == self.parts[j].domain && self.parts[i].tag == self.parts[j].tag
    }
    fn lease_ns(&self, i: usize) -> i64 {
        self.parts[i].lease_s.map(|s| s as i64 * SEC).unwrap_or(100 * SEC) + self.selftest_lease_bias_ms * MS
    }
    fn to_json(&self) -> Json {
        Json::obj()
            .set(
                "participants",
                self.parts
                    .iter()
                    .enumerate()
                    .map(|(i, p)| {
                        Json::obj()
                            .set("index", i)
                            .set("domain_id", p.domain)
                            .set("domain_tag", p.tag.clone())
                            .set("created_ms_after_previous", p.create_at_ms)
                            .set(
                                "lease_in_announcements",
                                match p.lease_s {
                                    Some(s) => format!("{s} s (rewritten by the network)"),
                                    None => "100 s (as announced)".to_string(),
                                },
                            )
                    })
                    .collect::<Vec<_>>(),
            )
            .set("announcement_interval_ms", self.interval_ms)
            .set("spdp_multicast_loss", format!("{:.2}", self.loss))
            .set("loss_window_ends_ms", self.loss_until_ms)
            .set(
                "event",
                match &self.phase_c {
                    PhaseC::None => "none".to_string(),
                    PhaseC::Lease { d } => format!(
                        "P{d} cut off the network{}",
                        if self.user_data_before_cut { " right after writing 3 user samples" } else { "" }
                    ),
                    PhaseC::Ignore { o, x, before_discovery } => format!(
                        "P{o}.ignore_participant(P{x}) {}",
                        if *before_discovery { "before the first announcement of the ignored participant gets through" } else { "after discovery" }
                    ),
                },
            )
            .set("policy", format!("{:?}", self.policy))
            .set("clock_tick_ns", self.clock_tick)
            .set("sleep_jitter_ns", self.jitter)
    }
}

fn gen_params(rng: &mut Rng) -> Params {
    let n = 2 + rng.usize(3);
    let base = (rng.below(3) as i32, rng.pick(&["", "a", "b"]).to_string());
    let interval_ms = *rng.pick(&[200i64, 300, 500, 1000]);
    let mut parts = Vec::new();
    for i in 0..n {
        let (mut d, mut t) = base.clone();
        if i > 0 {
            match rng.below(10) {
                0..=5 => {}
                6 | 7 => d = (d + 1 + rng.below(2) as i32) % 3,
                _ => {
                    let others: Vec<&str> = ["", "a", "b"].into_iter().filter(|x| *x != t).collect();
                    t = rng.pick(&others).to_string();
                }
            }
        }
        // rewritten leases stay clear of the announcement interval (>= 3 intervals + 1 s)
        let min_lease = (3 * interval_ms + 1000 + 999) / 1000;
        let lease_s = if rng.chance(0.6) {
            Some((*rng.pick(&[2i64, 3, 5, 10, 30])).max(min_lease) as i32)
        } else {
            None
        };
        parts.push(PSpec {
            domain: d,
            tag: t,
            create_at_ms: if i == 0 { 0 } else { *rng.pick(&[0i64, 0, 50, 300, 700]) },
            lease_s,
        });
    }
    let loss = *rng.pick(&[0.0, 0.3, 0.6, 0.9]);
    let loss_until_ms = if loss == 0.0 { 0 } else { *rng.pick(&[1000i64, 3000, 6000]) };
    let mut p = Params {
        selftest_lease_bias_ms: 0,
        selftest_inject: false,
        user_data_before_cut: rng.bool(),
        parts,
        interval_ms,
        loss,
        loss_until_ms,
        phase_c: PhaseC::None,
        policy: pick_policy(rng),
        clock_tick: *rng.pick(&[0i64, 0, 1, 1000]),
        jitter: *rng.pick(&[0i64, 0, 1000, 1_000_000]),
    };
    // pick an event among participants of one group
    let pairs: Vec<(usize, usize)> = (0..n)
        .flat_map(|a| (0..n).map(move |b| (a, b)))
        .filter(|(a, b)| a != b && p.same_group(*a, *b))
        .collect();
    if !pairs.is_empty() {
        let (o, x) = *rng.pick(&pairs);
        p.phase_c = match rng.below(10) {
            0..=4 => PhaseC::Lease { d: x },
            5..=7 => PhaseC::Ignore {
                o,
                x,
                before_discovery: false,
            },
            8 => PhaseC::Ignore {
                o,
                x,
                before_discovery: true,
            },
            _ => PhaseC::None,
        };
    }
    p
}

/// What the network saw (shared between the fault policy and the scenario).
#[derive(Default)]
struct NetObs {
    n: usize,
    /// planned delivery time of the last SPDP announcement src -> dst that was let through
    last_spdp: Vec<Vec<i64>>,
    /// planned delivery time of the last datagram src -> dst carrying any DATA / DATA_FRAG
    last_data: Vec<Vec<i64>>,
    /// delivery times of SPDP announcements src -> dst (let through)
    spdp_times: Vec<Vec<Vec<i64>>>,
    spdp_dropped: u64,
    spdp_rewritten: u64,
    /// most recent SPDP datagram of each participant (original bytes)
    last_spdp_bytes: Vec<Option<Vec<u8>>>,
    /// announcements src -> dst are blocked while true
    block: Vec<Vec<bool>>,
}

impl NetObs {
    fn new(n: usize) -> NetObs {
        NetObs {
            n,
            last_spdp: vec![vec![0; n]; n],
            last_data: vec![vec![0; n]; n],
            spdp_times: vec![vec![Vec::new(); n]; n],
            spdp_dropped: 0,
            spdp_rewritten: 0,
            last_spdp_bytes: vec![None; n],
            block: vec![vec![false; n]; n],
        }
    }
}

fn rd16(b: &[u8], le: bool) -> u16 {
    if le {
        u16::from_le_bytes([b[0], b[1]])
    } else {
        u16::from_be_bytes([b[0], b[1]])
    }
}

fn has_spdp(walk: &Walk) -> bool {
    walk.subs.iter().any(|s| s.id == rtpswalk::DATA && s.writer_id == SPDP_WRITER && s.payload.is_some())
}

/// Overwrite PID_PARTICIPANT_LEASE_DURATION (0x0002) in every SPDP DATA payload of the datagram.
fn rewrite_lease(bytes: &[u8], walk: &Walk, secs: i32) -> Option<Vec<u8>> {
    let mut out: Option<Vec<u8>> = None;
    for s in &walk.subs {
        if s.id != rtpswalk::DATA || s.writer_id != SPDP_WRITER {
            continue;
        }
        let Some((off, len)) = s.payload else { continue };
        if len < 8 || off + len > bytes.len() {
            continue;
        }
        let p = &bytes[off..off + len];
        // encapsulation: PL_CDR_BE = 0x0002, PL_CDR_LE = 0x0003
        if p[0] != 0 || (p[1] != 2 && p[1] != 3) {
            continue;
        }
        let le = p[1] == 3;
        let mut i = 4;
        while i + 4 <= len {
            let pid = rd16(&p[i..], le);
            let plen = rd16(&p[i + 2..], le) as usize;
            if pid == 1 {
                break;
            }
            if pid == 2 && plen >= 8 && i + 4 + 8 <= len {
                let v = out.get_or_insert_with(|| bytes.to_vec());
                let at = off + i + 4;
                let sec = if le { secs.to_le_bytes() } else { secs.to_be_bytes() };
                v[at..at + 4].copy_from_slice(&sec);
                v[at + 4..at + 8].copy_from_slice(&[0, 0, 0, 0]);
            }
            i += 4 + plen;
        }
    }
    out
}

fn make_policy(obs: Arc<Mutex<NetObs>>, p: &Params, t_base: i64) -> FaultFn {
    let loss = p.loss;
    let loss_until = t_base + p.loss_until_ms * MS;
    let leases: Vec<Option<i32>> = p.parts.iter().map(|x| x.lease_s).collect();
    Box::new(move |pkt: &Pkt, rng: &mut Rng| {
        let mut o = obs.lock().unwrap();
        if pkt.src >= o.n || pkt.dst >= o.n {
            return vec![Delivery::after(BASE_LATENCY)];
        }
        let spdp = pkt.class == Class::Meta && has_spdp(pkt.walk);
        if spdp {
            o.last_spdp_bytes[pkt.src] = Some(pkt.bytes.to_vec());
        }
        if pkt.src != pkt.dst && spdp {
            if o.block[pkt.src][pkt.dst] {
                o.spdp_dropped += 1;
                return vec![];
            }
            if pkt.multicast && pkt.now < loss_until && rng.chance(loss) {
                o.spdp_dropped += 1;
                return vec![];
            }
        }
        let has_data = pkt
            .walk
            .subs
            .iter()
            .any(|s| s.id == rtpswalk::DATA || s.id == rtpswalk::DATA_FRAG);
        let at = pkt.now + BASE_LATENCY;
        if pkt.src != pkt.dst {
            if has_data {
                o.last_data[pkt.src][pkt.dst] = at;
            }
            if spdp {
                o.last_spdp[pkt.src][pkt.dst] = at;
                o.spdp_times[pkt.src][pkt.dst].push(at);
            }
        }
        if spdp {
            if let Some(secs) = leases[pkt.src] {
                if let Some(b) = rewrite_lease(pkt.bytes, pkt.walk, secs) {
                    o.spdp_rewritten += 1;
                    return vec![Delivery {
                        delay_ns: BASE_LATENCY,
                        bytes: Some(b),
                    }];
                }
            }
        }
        vec![Delivery::after(BASE_LATENCY)]
    })
}

#[derive(Clone, Debug)]
struct Finding {
    sig: String,
    what: String,
    detail: Json,
}

#[derive(Default)]
struct Outcome {
    findings: Vec<Finding>,
    discovery_pairs_checked: u32,
    discovery_pairs_no_premise: u32,
    isolation_pairs_checked: u32,
    endpoint_checks: u32,
    lease_early_probes: u32,
    lease_late_probes: u32,
    lease_removed_at_ms_after_anchor: Vec<i64>,
    ignore_polls: u32,
    ignore_reannouncements: u32,
    injected: u32,
    event_done: bool,
    notes: Vec<String>,
}

struct Part {
    dp: DomainParticipantAsync,
    handle: InstanceHandle,
    dw: DataWriterAsync<Plain>,
    dr: DataReaderAsync<Plain>,
}

fn prefix(h: &InstanceHandle) -> [u8; 12] {
    let a: [u8; 16] = (*h).into();
    let mut p = [0u8; 12];
    p.copy_from_slice(&a[..12]);
    p
}

async fn discovered(sim: &Sim, dp: &DomainParticipantAsync) -> Option<Vec<InstanceHandle>> {
    match sim.timeout(5 * SEC, dp.get_discovered_participants()).await {
        Ok(Ok(v)) => Some(v),
        _ => None,
    }
}

async fn sleep_until(sim: &Sim, t: i64) {
    let now = sim.now();
    if t > now {
        sim.sleep(t - now).await;
    }
}

fn cross_kind(p: &Params, i: usize, j: usize) -> &'static str {
    if p.parts[i].domain != p.parts[j].domain { "id" } else { "tag" }
}

async fn isolation_check(sim: &Sim, p: &Params, parts: &[Part], out: &mut Outcome, when: &str) {
    for i in 0..parts.len() {
        let Some(list) = discovered(sim, &parts[i].dp).await else { continue };
        for j in 0..parts.len() {
            if i == j || p.same_group(i, j) {
                continue;
            }
            out.isolation_pairs_checked += 1;
            if list.contains(&parts[j].handle) {
                let k = cross_kind(p, i, j);
                out.findings.push(Finding {
                    sig: format!("cross_domain|{k}"),
                    what: format!(
                        "P{i} (domain {}, tag {:?}) has P{j} (domain {}, tag {:?}) in get_discovered_participants() ({when})",
                        p.parts[i].domain, p.parts[i].tag, p.parts[j].domain, p.parts[j].tag
                    ),
                    detail: Json::obj().set("observer", i).set("other", j).set("when", when),
                });
            }
        }
    }
}

async fn scenario(w: World, p: Params, obs: Arc<Mutex<NetObs>>) -> Outcome {
    let sim = w.sim.clone();
    let t_base = sim.now();
    let n = p.parts.len();
    let mut out = Outcome::default();
    w.net.set_policy(Some(make_policy(obs.clone(), &p, t_base)));
    if p.selftest_inject {
        let mut g = obs.lock().unwrap();
        for i in 0..n {
            for j in 0..n {
                g.block[i][j] = i != j;
            }
        }
    }
    if let PhaseC::Ignore {
        o,
        x,
        before_discovery: true,
    } = &p.phase_c
    {
        obs.lock().unwrap().block[*x][*o] = true;
    }
    // participants are numbered in creation order (= network index); `create_at_ms` is the gap
    // to the previous creation
    let mut create_times = vec![0i64; n];
    let mut parts: Vec<Part> = Vec::new();
    for i in 0..n {
        if p.parts[i].create_at_ms > 0 {
            sim.sleep(p.parts[i].create_at_ms * MS).await;
        }
        {
            let mut c = w.factory.get_mut_configuration().await;
            *c = DustDdsConfigurationBuilder::new()
                .domain_tag(p.parts[i].tag.clone())
                .participant_announcement_interval(core::time::Duration::from_millis(p.interval_ms as u64))
                .build()
                .expect("configuration");
        }
        let dp = w
            .factory
            .create_participant(p.parts[i].domain, QosKind::Default, NO_LISTENER, NO_STATUS)
            .await
            .expect("create_participant");
        let t = new_topic::<Plain>(&dp, "T17", "Plain").await;
        let pb = new_publisher(&dp).await;
        let sb = new_subscriber(&dp).await;
        let dw = new_writer::<Plain>(&pb, &t, DataWriterQos::default()).await;
        let dr = new_reader::<Plain>(&sb, &t, DataReaderQos::default()).await;
        create_times[i] = sim.now();
        parts.push(Part {
            handle: dp.get_instance_handle(),
            dp,
            dw,
            dr,
        });
    }
    // ignore before discovery: the announcements x -> o have been held back so far
    if let PhaseC::Ignore {
        o,
        x,
        before_discovery: true,
    } = &p.phase_c
    {
        let pre = discovered(&sim, &parts[*o].dp).await.unwrap_or_default();
        if pre.contains(&parts[*x].handle) {
            out.notes.push("ignored participant was already discovered although its announcements were held back".into());
        } else {
            let r = parts[*o].dp.ignore_participant(parts[*x].handle).await;
            if r.is_err() {
                out.notes.push("ignore_participant returned an error".into());
            } else {
                out.event_done = true;
            }
        }
        obs.lock().unwrap().block[*x][*o] = false;
    }
    let t_ignore_before = sim.now();

    // ---- discovery under announcement loss
    let t0 = (t_base + p.loss_until_ms * MS).max(*create_times.iter().max().unwrap()).max(sim.now());
    // cross-domain injection: hand announcements of other domains to every participant
    sleep_until(&sim, t0 + 100 * MS).await;
    for round in 0..2 {
        for i in 0..n {
            for j in 0..n {
                if i != j && (p.parts[i].domain != p.parts[j].domain || p.selftest_inject) {
                    let b = obs.lock().unwrap().last_spdp_bytes[j].clone();
                    if let Some(b) = b {
                        w.net.inject(i, b, BASE_LATENCY);
                        out.injected += 1;
                        if p.selftest_inject {
                            obs.lock().unwrap().spdp_times[j][i].push(sim.now() + BASE_LATENCY);
                        }
                    }
                }
            }
        }
        if round == 0 {
            sim.sleep(p.interval_ms * MS).await;
        }
    }
    let t_check = t0 + 2 * p.interval_ms * MS + SEC;
    sleep_until(&sim, t_check).await;
    for i in 0..n {
        let Some(list) = discovered(&sim, &parts[i].dp).await else {
            out.notes.push(format!("get_discovered_participants of P{i} did not answer"));
            continue;
        };
        for j in 0..n {
            if i == j || !p.same_group(i, j) {
                continue;
            }
            if matches!(&p.phase_c, PhaseC::Ignore { o, x, before_discovery: true } if *o == i && *x == j) {
                continue;
            }
            // premise: an announcement of j reached i after the loss window (and after both exist)
            let got = {
                let o = obs.lock().unwrap();
                o.spdp_times[j][i]
                    .iter()
                    .any(|t| *t >= t0.max(create_times[i]) && *t <= t_check - 500 * MS)
            };
            if !got {
                out.discovery_pairs_no_premise += 1;
                continue;
            }
            out.discovery_pairs_checked += 1;
            if !list.contains(&parts[j].handle) {
                out.findings.push(Finding {
                    sig: "not_discovered".into(),
                    what: format!(
                        "P{j} is not in P{i}'s get_discovered_participants() {} ms after the loss window ended (2 announcement intervals of {} ms + 1 s) although its announcements got through (same domain {} and tag {:?})",
                        (t_check - t0) / MS,
                        p.interval_ms,
                        p.parts[i].domain,
                        p.parts[i].tag
                    ),
                    detail: Json::obj().set("observer", i).set("other", j),
                });
            }
        }
    }
    isolation_check(&sim, &p, &parts, &mut out, "after the discovery window").await;

    // ---- endpoints of isolated participants never match
    sim.sleep(3 * SEC).await;
    for i in 0..n {
        let ws = parts[i].dw.get_matched_subscriptions().await.unwrap_or_default();
        let rs = parts[i].dr.get_matched_publications().await.unwrap_or_default();
        for (kind, hs) in [("writer", ws), ("reader", rs)] {
            for h in hs {
                out.endpoint_checks += 1;
                let Some(j) = (0..n).find(|j| prefix(&parts[*j].handle) == prefix(&h)) else { continue };
                if j != i && !p.same_group(i, j) {
                    let k = cross_kind(&p, i, j);
                    out.findings.push(Finding {
                        sig: format!("cross_domain|{k}"),
                        what: format!(
                            "P{i}'s {kind} is matched with an endpoint of P{j} (domain {}/{:?} vs {}/{:?})",
                            p.parts[i].domain, p.parts[i].tag, p.parts[j].domain, p.parts[j].tag
                        ),
                        detail: Json::obj().set("observer", i).set("other", j).set("endpoint", kind),
                    });
                }
            }
        }
    }

    // ---- event
    match p.phase_c.clone() {
        PhaseC::None => {}
        PhaseC::Lease { d } => {
            let mut observers = Vec::new();
            for o in 0..n {
                if o == d || !p.same_group(o, d) {
                    continue;
                }
                let l = discovered(&sim, &parts[o].dp).await.unwrap_or_default();
                if l.contains(&parts[d].handle) {
                    observers.push(o);
                }
            }
            // sometimes the last DATA from d is user data (later than its last announcement)
            if p.user_data_before_cut {
                for k in 0..3u32 {
                    let _ = sim
                        .timeout(
                            2 * SEC,
                            parts[d].dw.write(
                                Plain {
                                    writer: d as u32,
                                    seq: k,
                                    payload: vec![7; 8],
                                },
                                None,
                            ),
                        )
                        .await;
                    sim.sleep(40 * MS).await;
                }
            }
            w.net.set_partitioned(d, true);
            let t_cut = sim.now();
            out.event_done = !observers.is_empty();
            // anchors are final now: nothing of d is submitted to the network any more
            sim.sleep(MS).await;
            let lease = p.lease_ns(d);
            let mut events: Vec<(i64, usize, u8)> = Vec::new();
            for o in &observers {
                let (a_lo, a_hi) = {
                    let g = obs.lock().unwrap();
                    (g.last_spdp[d][*o], g.last_data[d][*o].max(g.last_spdp[d][*o]))
                };
                if a_lo == 0 {
                    continue;
                }
                // present checks: half way and just before the earliest legal removal
                events.push((t_cut + (a_lo + lease - t_cut) / 2, *o, 0));
                events.push((a_lo + lease - EARLY_PROBE, *o, 0));
                // absent check: lease + worker period + margin after the last DATA from d
                events.push((a_hi + 5 * MS + lease + WORKER_PERIOD + LATE_MARGIN + p.jitter, *o, 1));
            }
            events.sort();
            let mut gone: BTreeSet<usize> = BTreeSet::new();
            for (t, o, kind) in events {
                // a probe that comes later than planned is still sound: "present" probes are only
                // judged if they happen before the lease ran out, "absent" probes may be late
                sleep_until(&sim, t).await;
                let Some(l) = discovered(&sim, &parts[o].dp).await else { continue };
                let present = l.contains(&parts[d].handle);
                let (a_lo, a_hi) = {
                    let g = obs.lock().unwrap();
                    (g.last_spdp[d][o], g.last_data[d][o].max(g.last_spdp[d][o]))
                };
                let at = sim.now();
                if kind == 0 {
                    out.lease_early_probes += 1;
                    if !present && !gone.contains(&o) && at < a_lo + lease {
                        gone.insert(o);
                        out.findings.push(Finding {
                            sig: "early_removal".into(),
                            what: format!(
                                "P{d} (lease {} s) is gone from P{o}'s discovered participants {} ms after its last announcement was delivered to P{o}, i.e. {} ms before the lease ran out",
                                lease / SEC,
                                (at - a_lo) / MS,
                                (a_lo + lease - at) / MS
                            ),
                            detail: Json::obj()
                                .set("observer", o)
                                .set("departed", d)
                                .set("last_announcement_delivered_ms", (a_lo - t_base) / MS)
                                .set("probe_ms", (at - t_base) / MS),
                        });
                    }
                } else {
                    out.lease_late_probes += 1;
                    if present {
                        out.findings.push(Finding {
                            sig: "late_removal".into(),
                            what: format!(
                                "P{d} (lease {} s) is still in P{o}'s discovered participants {} ms after the last DATA from it was delivered (lease + 50 ms worker period + {} ms allowance = {} ms)",
                                lease / SEC,
                                (at - a_hi) / MS,
                                (LATE_MARGIN + 5 * MS + p.jitter) / MS,
                                (lease + WORKER_PERIOD + LATE_MARGIN + 5 * MS + p.jitter) / MS
                            ),
                            detail: Json::obj()
                                .set("observer", o)
                                .set("departed", d)
                                .set("last_data_delivered_ms", (a_hi - t_base) / MS)
                                .set("probe_ms", (at - t_base) / MS),
                        });
                    } else {
                        out.lease_removed_at_ms_after_anchor.push((at - a_hi) / MS);
                    }
                }
            }
        }
        PhaseC::Ignore { o, x, before_discovery } => {
            let mut armed = before_discovery && out.event_done;
            let mut t_ign = t_ignore_before;
            if !before_discovery {
                let l = discovered(&sim, &parts[o].dp).await.unwrap_or_default();
                if l.contains(&parts[x].handle) {
                    if parts[o].dp.ignore_participant(parts[x].handle).await.is_ok() {
                        armed = true;
                        out.event_done = true;
                        t_ign = sim.now();
                    } else {
                        out.notes.push("ignore_participant returned an error".into());
                    }
                }
            }
            if armed {
                for k in 0..16 {
                    if k > 0 {
                        sim.sleep(p.interval_ms * MS / 2).await;
                    }
                    let Some(l) = discovered(&sim, &parts[o].dp).await else { continue };
                    out.ignore_polls += 1;
                    if l.contains(&parts[x].handle) {
                        let re = obs.lock().unwrap().spdp_times[x][o].iter().filter(|t| **t > t_ign).count();
                        out.findings.push(Finding {
                            sig: "rediscovered_ignored".into(),
                            what: format!(
                                "P{x} is in P{o}'s discovered participants {} ms after P{o}.ignore_participant(P{x}) ({} announcement(s) of P{x} delivered since; ignored {})",
                                (sim.now() - t_ign) / MS,
                                re,
                                if before_discovery { "before it was discovered" } else { "after it was discovered" }
                            ),
                            detail: Json::obj().set("observer", o).set("ignored", x),
                        });
                        break;
                    }
                }
                out.ignore_reannouncements =
                    obs.lock().unwrap().spdp_times[x][o].iter().filter(|t| **t > t_ign).count() as u32;
            }
        }
    }
    isolation_check(&sim, &p, &parts, &mut out, "at the end of the run").await;
    out
}

fn run_case(shard: &Shard, rep: &mut Report, case: u64, trace: bool) {
    let cs = shard.case_seed(case);
    let mut rng = Rng::new(cs);
    let mut p = gen_params(&mut rng);
    p.selftest_lease_bias_ms = shard.args.kv.get("selftest-lease-bias-ms").and_then(|s| s.parse().ok()).unwrap_or(0);
    p.selftest_inject = shard.args.has("selftest-inject");
    if p.selftest_inject {
        p.phase_c = PhaseC::None;
    }
    let mut cfg = WorldConfig::default();
    cfg.sim.seed = cs;
    cfg.sim.policy = p.policy;
    cfg.sim.clock_tick = p.clock_tick;
    cfg.sim.jitter_max = p.jitter;
    cfg.sim.max_polls = shard.args.u64("max-polls", 10_000_000);
    cfg.announcement_interval_ms = p.interval_ms as u64;
    cfg.domain_tag = p.parts[0].tag.clone();
    if trace {
        eprintln!("case {case}: {}", p.to_json().to_string());
    }
    let obs = Arc::new(Mutex::new(NetObs::new(p.parts.len())));
    let p2 = p.clone();
    let obs2 = obs.clone();
    let t_wall = std::time::Instant::now();
    let (res, stats, _net) = run_world(&cfg, move |w| scenario(w, p2, obs2));
    rep.eval();
    rep.stat("worlds", 1);
    rep.stat("worker_polls", stats.worker_polls as i128);
    rep.maxstat("max_virtual_s", ((stats.end_ns - EPOCH_NS) / SEC) as i128);
    let base = shard.base_replay("c17", case).set("engine", "scen_disc").set("params", p.to_json());
    let panicked = report_panics(rep, &stats, &base);
    if trace {
        eprintln!(
            "  world: wall={:?} polls={} worker_polls={} end={}s stop={:?}",
            t_wall.elapsed(),
            stats.polls,
            stats.worker_polls,
            (stats.end_ns - EPOCH_NS) / SEC,
            stats.stop
        );
    }
    let Some(o) = res else {
        if !panicked {
            rep.inconclusive(format!("case {case}: scenario did not finish ({:?})", stats.stop));
        }
        return;
    };
    let g = obs.lock().unwrap();
    rep.stat("spdp_announcements_dropped", g.spdp_dropped as i128);
    rep.stat("spdp_announcements_lease_rewritten", g.spdp_rewritten as i128);
    rep.stat("discovery_pairs_checked", o.discovery_pairs_checked as i128);
    rep.stat("discovery_pairs_without_delivered_announcement(no verdict)", o.discovery_pairs_no_premise as i128);
    rep.stat("isolation_pair_checks", o.isolation_pairs_checked as i128);
    rep.stat("cross_domain_announcements_injected", o.injected as i128);
    rep.stat("matched_endpoint_checks", o.endpoint_checks as i128);
    rep.stat("lease_present_probes", o.lease_early_probes as i128);
    rep.stat("lease_absent_probes", o.lease_late_probes as i128);
    rep.stat("ignore_polls", o.ignore_polls as i128);
    rep.stat("announcements_of_ignored_participant_delivered_after_ignore", o.ignore_reannouncements as i128);
    for n in &o.notes {
        rep.set("notes", n.clone());
    }
    let n = p.parts.len();
    let groups: BTreeSet<(i32, String)> = p.parts.iter().map(|x| (x.domain, x.tag.clone())).collect();
    rep.set("participants_per_world", n.to_string());
    rep.set("groups_per_world", groups.len().to_string());
    rep.set("loss", format!("{:.1}", p.loss));
    rep.set("announcement_interval_ms", p.interval_ms.to_string());
    for x in &p.parts {
        rep.set(
            "lease_s",
            x.lease_s.map(|s| s.to_string()).unwrap_or_else(|| "100(announced)".into()),
        );
    }
    let ev = match &p.phase_c {
        PhaseC::None => "none",
        PhaseC::Lease { .. } => "lease_expiry",
        PhaseC::Ignore {
            before_discovery: false, ..
        } => "ignore_after_discovery",
        PhaseC::Ignore { .. } => "ignore_before_discovery",
    };
    if o.event_done || *ev == *"none" {
        rep.stat(&format!("event_{ev}"), 1);
    } else {
        rep.stat(&format!("event_{ev}_not_applicable"), 1);
    }
    for d in &o.lease_removed_at_ms_after_anchor {
        rep.maxstat("max_ms_from_last_data_to_absent_probe", *d as i128);
    }
    let mut h = vcore::fnv_str(&p.to_json().to_string());
    h = vcore::mix(h, o.discovery_pairs_checked as u64 | (o.lease_late_probes as u64) << 8 | (o.ignore_polls as u64) << 16);
    if o.discovery_pairs_checked + o.isolation_pairs_checked > 0 {
        rep.nontrivial(vcore::mix(h, stats.poll_hash));
    }
    for f in &o.findings {
        rep.violation(f.sig.clone(), f.what.clone(), base.clone().set("finding", f.detail.clone()));
    }
    if case < 64 {
        rep.sample(
            base.clone()
                .set("discovery_pairs_checked", o.discovery_pairs_checked)
                .set("isolation_pair_checks", o.isolation_pairs_checked)
                .set("lease_probes", o.lease_early_probes + o.lease_late_probes)
                .set("ignore_polls", o.ignore_polls)
                .set("findings", o.findings.len()),
        );
    }
}

pub fn run(shard: &Shard) -> Report {
    let mut rep = Report::new("C17");
    let trace = shard.args.has("trace") || shard.replay.is_some();
    let mut seen = BTreeSet::new();
    for case in shard.my_cases() {
        if !seen.insert(case) {
            continue;
        }
        run_case(shard, &mut rep, case, trace);
    }
    rep
}
