//! C37: QoS validation - inconsistent and immutable changes are rejected atomically; accepted QoS
//! is returned by get_qos and announced to a remote participant.
use crate::common::*;
use crate::util::*;
use dust_dds::builtin_topics::{PublicationBuiltinTopicData, SubscriptionBuiltinTopicData, TopicBuiltinTopicData};
use dust_dds::dds_async::data_reader::DataReaderAsync;
use dust_dds::dds_async::data_writer::DataWriterAsync;
use dust_dds::dds_async::domain_participant::DomainParticipantAsync;
use dust_dds::dds_async::publisher::PublisherAsync;
use dust_dds::dds_async::subscriber::SubscriberAsync;
use dust_dds::dds_async::topic::TopicAsync;
use dust_dds::infrastructure::listener::NO_LISTENER;
use dust_dds::infrastructure::qos::*;
use dust_dds::infrastructure::qos_policy::*;
use dust_dds::infrastructure::status::NO_STATUS;
use dust_dds::infrastructure::time::{Duration, DurationKind};
use simnet::*;
use std::collections::{BTreeMap, BTreeSet};
use vcore::{Json, Report, Rng};

#[derive(Clone, Copy, Debug, PartialEq, Eq)]
enum EK {
    Topic,
    Publisher,
    Subscriber,
    Writer,
    Reader,
}
impl EK {
    fn name(self) -> &'static str {
        match self {
            EK::Topic => "topic",
            EK::Publisher => "publisher",
            EK::Subscriber => "subscriber",
            EK::Writer => "writer",
            EK::Reader => "reader",
        }
    }
}

#[derive(Clone, Debug, PartialEq)]
enum Q {
    T(TopicQos),
    P(PublisherQos),
    S(SubscriberQos),
    W(DataWriterQos),
    R(DataReaderQos),
}

type Pol = Vec<(&'static str, String)>;

macro_rules! pol {
    ($q:expr, $($f:ident),*) => { vec![$((stringify!($f), format!("{:?}", $q.$f))),*] };
}

impl Q {
    fn default_of(k: EK) -> Q {
        match k {
            EK::Topic => Q::T(TopicQos::default()),
            EK::Publisher => Q::P(PublisherQos::default()),
            EK::Subscriber => Q::S(SubscriberQos::default()),
            EK::Writer => Q::W(DataWriterQos::default()),
            EK::Reader => Q::R(DataReaderQos::default()),
        }
    }
    /// (policy name, rendered value) for every policy of the QoS
    fn pol(&self) -> Pol {
        match self {
            Q::T(q) => pol!(q, topic_data, durability, deadline, latency_budget, liveliness, reliability, destination_order, history, resource_limits, transport_priority, lifespan, ownership, representation),
            Q::P(q) => pol!(q, presentation, partition, group_data, entity_factory),
            Q::S(q) => pol!(q, presentation, partition, group_data, entity_factory),
            Q::W(q) => pol!(q, durability, deadline, latency_budget, liveliness, reliability, destination_order, history, resource_limits, transport_priority, lifespan, user_data, ownership, ownership_strength, writer_data_lifecycle, representation),
            Q::R(q) => pol!(q, durability, deadline, latency_budget, liveliness, reliability, destination_order, history, resource_limits, user_data, ownership, time_based_filter, reader_data_lifecycle, representation, type_consistency),
        }
    }
    fn json(&self) -> Json {
        let d = Q::default_of(self.kind()).pol();
        let mut o = Json::obj();
        for ((n, v), (_, dv)) in self.pol().into_iter().zip(d) {
            if v != dv {
                o.put(n, v);
            }
        }
        o
    }
    fn kind(&self) -> EK {
        match self {
            Q::T(_) => EK::Topic,
            Q::P(_) => EK::Publisher,
            Q::S(_) => EK::Subscriber,
            Q::W(_) => EK::Writer,
            Q::R(_) => EK::Reader,
        }
    }
}

fn diff(a: &Pol, b: &Pol) -> Vec<&'static str> {
    a.iter().zip(b.iter()).filter(|(x, y)| x.1 != y.1).map(|(x, _)| x.0).collect()
}

/// DDS 1.4 table 2.2.3 "Changeable = NO" (for the policies dust-dds has).
fn is_immutable(k: EK, name: &str) -> bool {
    match k {
        EK::Topic | EK::Writer | EK::Reader => matches!(name, "durability" | "liveliness" | "reliability" | "destination_order" | "history" | "resource_limits" | "ownership"),
        EK::Publisher | EK::Subscriber => name == "presentation",
    }
}
/// X-Types policies: their changeability is not part of the DDS table the property refers to.
fn is_unsettled(name: &str) -> bool {
    matches!(name, "representation" | "type_consistency")
}
/// Policies that are part of the builtin topic data a peer can inspect.
fn is_announced(k: EK, name: &str) -> bool {
    match k {
        EK::Topic => !matches!(name, "representation"),
        EK::Publisher | EK::Subscriber => matches!(name, "presentation" | "partition" | "group_data"),
        EK::Writer => matches!(name, "durability" | "deadline" | "latency_budget" | "liveliness" | "reliability" | "lifespan" | "user_data" | "ownership" | "ownership_strength" | "destination_order"),
        EK::Reader => matches!(name, "durability" | "deadline" | "latency_budget" | "liveliness" | "reliability" | "ownership" | "destination_order" | "user_data" | "time_based_filter"),
    }
}

fn lenv(l: Length) -> i64 {
    match l {
        Length::Unlimited => i64::MAX,
        Length::Limited(n) => n as i64,
    }
}
fn durv(d: &DurationKind) -> i128 {
    match d {
        DurationKind::Infinite => i128::MAX,
        DurationKind::Finite(d) => d.sec() as i128 * 1_000_000_000 + d.nanosec() as i128,
    }
}
fn hist_rl(h: &HistoryQosPolicy, rl: &ResourceLimitsQosPolicy) -> Option<&'static str> {
    if lenv(rl.max_samples) < lenv(rl.max_samples_per_instance) {
        return Some("max_samples_vs_max_samples_per_instance");
    }
    if let HistoryQosPolicyKind::KeepLast(d) = h.kind {
        if d as i64 > lenv(rl.max_samples_per_instance) {
            return Some("history_depth_vs_max_samples_per_instance");
        }
    }
    None
}
/// The documented consistency rules (qos.rs / qos_policy.rs doc comments, DDS 1.4 2.2.3).
fn inconsistent(q: &Q) -> Option<&'static str> {
    match q {
        Q::T(q) => hist_rl(&q.history, &q.resource_limits),
        Q::W(q) => hist_rl(&q.history, &q.resource_limits).or(if q.representation.value.len() > 1 { Some("writer_representation_len") } else { None }),
        Q::R(q) => hist_rl(&q.history, &q.resource_limits).or(if durv(&q.deadline.period) < durv(&q.time_based_filter.minimum_separation) {
            Some("deadline_vs_time_based_filter")
        } else {
            None
        }),
        _ => None,
    }
}

fn secs(s: i32) -> DurationKind {
    DurationKind::Finite(Duration::new(s, 0))
}

/// Assign a pool value (different from the current one whenever the pool allows) to one policy.
fn set_policy(rng: &mut Rng, q: &mut Q, name: &str) {
    macro_rules! pick {
        ($cur:expr, $pool:expr) => {{
            let pool = $pool;
            for _ in 0..8 {
                let v = rng.pick(&pool).clone();
                if v != $cur {
                    $cur = v;
                    break;
                }
            }
        }};
    }
    macro_rules! common {
        ($q:expr, $who:expr) => {
            match name {
                "durability" => pick!($q.durability.kind, [DurabilityQosPolicyKind::Volatile, DurabilityQosPolicyKind::TransientLocal]),
                "deadline" => pick!($q.deadline.period, [DurationKind::Infinite, secs(1000), secs(2000), secs(3000)]),
                "latency_budget" => pick!($q.latency_budget.duration, [secs(0), secs(1), secs(10)]),
                "liveliness" => {
                    let pool: Vec<LivelinessQosPolicy> = if $who == EK::Reader {
                        vec![
                            LivelinessQosPolicy { kind: LivelinessQosPolicyKind::Automatic, lease_duration: DurationKind::Infinite },
                            LivelinessQosPolicy { kind: LivelinessQosPolicyKind::Automatic, lease_duration: secs(1000) },
                            LivelinessQosPolicy { kind: LivelinessQosPolicyKind::Automatic, lease_duration: secs(2000) },
                        ]
                    } else {
                        vec![
                            LivelinessQosPolicy { kind: LivelinessQosPolicyKind::Automatic, lease_duration: DurationKind::Infinite },
                            LivelinessQosPolicy { kind: LivelinessQosPolicyKind::Automatic, lease_duration: secs(1000) },
                            LivelinessQosPolicy { kind: LivelinessQosPolicyKind::ManualByTopic, lease_duration: DurationKind::Infinite },
                            LivelinessQosPolicy { kind: LivelinessQosPolicyKind::ManualByParticipant, lease_duration: secs(2000) },
                        ]
                    };
                    pick!($q.liveliness, pool)
                }
                "reliability" => pick!(
                    $q.reliability,
                    [
                        ReliabilityQosPolicy { kind: ReliabilityQosPolicyKind::BestEffort, max_blocking_time: secs(1) },
                        ReliabilityQosPolicy { kind: ReliabilityQosPolicyKind::Reliable, max_blocking_time: secs(1) },
                        ReliabilityQosPolicy { kind: ReliabilityQosPolicyKind::Reliable, max_blocking_time: secs(2) },
                    ]
                ),
                "destination_order" => pick!($q.destination_order.kind, [DestinationOrderQosPolicyKind::ByReceptionTimestamp, DestinationOrderQosPolicyKind::BySourceTimestamp]),
                "history" => pick!($q.history.kind, [HistoryQosPolicyKind::KeepLast(1), HistoryQosPolicyKind::KeepLast(5), HistoryQosPolicyKind::KeepAll, HistoryQosPolicyKind::KeepLast(20)]),
                "resource_limits" => pick!(
                    $q.resource_limits,
                    [
                        ResourceLimitsQosPolicy { max_samples: Length::Unlimited, max_instances: Length::Unlimited, max_samples_per_instance: Length::Unlimited },
                        ResourceLimitsQosPolicy { max_samples: Length::Limited(100), max_instances: Length::Unlimited, max_samples_per_instance: Length::Limited(10) },
                        ResourceLimitsQosPolicy { max_samples: Length::Limited(50), max_instances: Length::Limited(5), max_samples_per_instance: Length::Limited(50) },
                        ResourceLimitsQosPolicy { max_samples: Length::Unlimited, max_instances: Length::Limited(3), max_samples_per_instance: Length::Limited(30) },
                        ResourceLimitsQosPolicy { max_samples: Length::Limited(200), max_instances: Length::Unlimited, max_samples_per_instance: Length::Unlimited },
                    ]
                ),
                "ownership" => pick!($q.ownership.kind, [OwnershipQosPolicyKind::Shared, OwnershipQosPolicyKind::Exclusive]),
                _ => {}
            }
        };
    }
    let bytes = [vec![], vec![1u8, 2, 3], vec![0xde, 0xad, 0xbe, 0xef, 7]];
    macro_rules! group {
        ($q:expr) => {
            match name {
                "presentation" => pick!(
                    $q.presentation,
                    [
                        PresentationQosPolicy { access_scope: PresentationQosPolicyAccessScopeKind::Instance, coherent_access: false, ordered_access: false },
                        PresentationQosPolicy { access_scope: PresentationQosPolicyAccessScopeKind::Topic, coherent_access: false, ordered_access: false },
                        PresentationQosPolicy { access_scope: PresentationQosPolicyAccessScopeKind::Topic, coherent_access: true, ordered_access: false },
                        PresentationQosPolicy { access_scope: PresentationQosPolicyAccessScopeKind::Instance, coherent_access: false, ordered_access: true },
                    ]
                ),
                "partition" => pick!($q.partition.name, [vec!["A".to_string()], vec!["A".to_string(), "B".to_string()], vec!["C".to_string(), "A".to_string()]]),
                "group_data" => pick!($q.group_data.value, bytes.clone()),
                "entity_factory" => $q.entity_factory.autoenable_created_entities = !$q.entity_factory.autoenable_created_entities,
                _ => {}
            }
        };
    }
    match q {
        Q::T(t) => {
            common!(t, EK::Topic);
            match name {
                "topic_data" => pick!(t.topic_data.value, bytes.clone()),
                "transport_priority" => pick!(t.transport_priority.value, [0, 5, -2]),
                "lifespan" => pick!(t.lifespan.duration, [DurationKind::Infinite, secs(1000), secs(5000)]),
                _ => {}
            }
        }
        Q::W(w) => {
            common!(w, EK::Writer);
            match name {
                "user_data" => pick!(w.user_data.value, bytes.clone()),
                "transport_priority" => pick!(w.transport_priority.value, [0, 5, -2]),
                "lifespan" => pick!(w.lifespan.duration, [DurationKind::Infinite, secs(1000), secs(5000)]),
                "ownership_strength" => pick!(w.ownership_strength.value, [0, 10, 3]),
                "writer_data_lifecycle" => w.writer_data_lifecycle.autodispose_unregistered_instances = !w.writer_data_lifecycle.autodispose_unregistered_instances,
                "representation" => pick!(w.representation.value, [vec![], vec![XCDR_DATA_REPRESENTATION], vec![XCDR2_DATA_REPRESENTATION]]),
                _ => {}
            }
        }
        Q::R(r) => {
            common!(r, EK::Reader);
            match name {
                "user_data" => pick!(r.user_data.value, bytes.clone()),
                "time_based_filter" => pick!(r.time_based_filter.minimum_separation, [secs(0), secs(1), secs(10)]),
                "reader_data_lifecycle" => pick!(
                    r.reader_data_lifecycle,
                    [
                        ReaderDataLifecycleQosPolicy { autopurge_nowriter_samples_delay: DurationKind::Infinite, autopurge_disposed_samples_delay: DurationKind::Infinite },
                        ReaderDataLifecycleQosPolicy { autopurge_nowriter_samples_delay: secs(100), autopurge_disposed_samples_delay: DurationKind::Infinite },
                        ReaderDataLifecycleQosPolicy { autopurge_nowriter_samples_delay: DurationKind::Infinite, autopurge_disposed_samples_delay: secs(200) },
                    ]
                ),
                "representation" => pick!(r.representation.value, [vec![], vec![XCDR_DATA_REPRESENTATION], vec![XCDR_DATA_REPRESENTATION, XCDR2_DATA_REPRESENTATION]]),
                _ => {}
            }
        }
        Q::P(p) => group!(p),
        Q::S(s) => group!(s),
    }
}

/// Make the QoS violate one documented consistency rule. Returns false if the kind has none.
fn inject_inconsistency(rng: &mut Rng, q: &mut Q) -> bool {
    let rule = rng.below(3);
    macro_rules! hist {
        ($q:expr) => {{
            if rule == 0 {
                let d = 2 + rng.below(20) as u32;
                $q.history.kind = HistoryQosPolicyKind::KeepLast(d);
                $q.resource_limits.max_samples_per_instance = Length::Limited(1 + rng.below(d as u64 - 1) as i32);
                $q.resource_limits.max_samples = if rng.bool() { Length::Unlimited } else { Length::Limited(100) };
            } else {
                let m = 5 + rng.below(50) as i32;
                $q.history.kind = if rng.bool() { HistoryQosPolicyKind::KeepAll } else { HistoryQosPolicyKind::KeepLast(1) };
                $q.resource_limits.max_samples_per_instance = if rng.chance(0.3) { Length::Unlimited } else { Length::Limited(m) };
                $q.resource_limits.max_samples = Length::Limited(1 + rng.below(m as u64 - 1) as i32);
            }
        }};
    }
    match q {
        Q::T(t) => hist!(t),
        Q::W(w) => {
            if rule == 2 {
                w.representation.value = vec![XCDR_DATA_REPRESENTATION, XCDR2_DATA_REPRESENTATION];
            } else {
                hist!(w)
            }
        }
        Q::R(r) => {
            if rule == 2 {
                r.deadline.period = secs(1000);
                r.time_based_filter.minimum_separation = secs(1000 + 1 + rng.below(2000) as i32);
            } else {
                hist!(r)
            }
        }
        _ => return false,
    }
    true
}

// ------------------------------------------------------------------------------------------

#[derive(Clone, Debug)]
enum Step {
    /// (qos, hand it over as the factory default and call set_qos(QosKind::Default))
    Set(Q, bool),
    Enable,
}
impl Step {
    fn json(&self, base: &Q) -> Json {
        match self {
            Step::Enable => Json::Str("enable()".into()),
            Step::Set(q, via_default) => {
                let d = diff(&base.pol(), &q.pol());
                Json::obj().set("set_qos", q.json()).set("via", if *via_default { "set_default_<entity>_qos(q) then set_qos(QosKind::Default)" } else { "set_qos(QosKind::Specific(q))" }).set("differs_from_creation_qos_in", strs(&d.iter().map(|s| s.to_string()).collect::<Vec<_>>()))
            }
        }
    }
}

#[derive(Clone, Debug)]
struct Case {
    kind: EK,
    enabled_at_creation: bool,
    /// creation attempt with an inconsistent QoS first
    q_bad: Option<Q>,
    q0: Q,
    steps: Vec<Step>,
}

fn gen_case(rng: &mut Rng, thorough: bool) -> Case {
    let kind = *rng.pick(&[EK::Topic, EK::Publisher, EK::Subscriber, EK::Writer, EK::Writer, EK::Reader, EK::Reader]);
    let enabled_at_creation = rng.chance(0.6);
    let names: Vec<&'static str> = Q::default_of(kind).pol().iter().map(|p| p.0).collect();
    // creation QoS: default + 0..3 valid mutations
    let mut q0 = Q::default_of(kind);
    if matches!(kind, EK::Publisher | EK::Subscriber) {
        set_policy(rng, &mut q0, "partition"); // never the default partition: keeps the peer match stable
        if let Q::P(p) = &mut q0 {
            p.partition.name = vec!["A".into()];
        }
        if let Q::S(p) = &mut q0 {
            p.partition.name = vec!["A".into()];
        }
    }
    for _ in 0..rng.below(4) {
        let mut c = q0.clone();
        let n = *rng.pick(&names);
        if n == "type_consistency" || n == "entity_factory" {
            continue;
        }
        set_policy(rng, &mut c, n);
        if inconsistent(&c).is_none() {
            q0 = c;
        }
    }
    let q_bad = if rng.chance(0.3) {
        let mut b = q0.clone();
        if inject_inconsistency(rng, &mut b) && inconsistent(&b).is_some() { Some(b) } else { None }
    } else {
        None
    };
    let mut steps = Vec::new();
    let n = 2 + rng.usize(if thorough { 8 } else { 5 });
    let mut model = q0.clone();
    let mut enabled = enabled_at_creation;
    let can_enable = matches!(kind, EK::Topic | EK::Writer | EK::Reader);
    for _ in 0..n {
        if !enabled && can_enable && rng.chance(0.25) {
            steps.push(Step::Enable);
            enabled = true;
            continue;
        }
        let mut c = model.clone();
        let r = rng.below(100);
        if r < 25 && inject_inconsistency(rng, &mut c) && inconsistent(&c).is_some() {
            steps.push(Step::Set(c, false));
            continue;
        }
        // one (sometimes two) policy changes; immutable ones are preferred half of the time
        let imm: Vec<&'static str> = names.iter().cloned().filter(|n| is_immutable(kind, n)).collect();
        let mu: Vec<&'static str> = names.iter().cloned().filter(|n| !is_immutable(kind, n) && !is_unsettled(n)).collect();
        let n1 = if r < 60 { *rng.pick(&imm) } else { *rng.pick(&mu) };
        set_policy(rng, &mut c, n1);
        if rng.chance(0.2) {
            let n2 = *rng.pick(&mu);
            set_policy(rng, &mut c, n2);
        }
        if inconsistent(&c).is_some() {
            // an unplanned inconsistency (e.g. depth vs limits): keep it, the oracle classifies it
        }
        let accepted = inconsistent(&c).is_none() && (!enabled || diff(&model.pol(), &c.pol()).iter().all(|n| !is_immutable(kind, n)));
        steps.push(Step::Set(c.clone(), false));
        if accepted {
            model = c;
        }
    }
    // drawn last so that the rest of a case does not depend on it
    for st in steps.iter_mut() {
        if let Step::Set(_, via_default) = st {
            *via_default = rng.chance(0.3);
        }
    }
    Case { kind, enabled_at_creation, q_bad, q0, steps }
}

// ------------------------------------------------------------------------------------------

#[derive(Default, Clone)]
struct Outcome {
    findings: Vec<Finding>,
    shapes: Vec<String>,
    results: BTreeSet<String>,
    stats: BTreeMap<String, u64>,
    checks: u64,
    aborted_at: Option<usize>,
    panic_op: Option<String>,
    notes: Vec<String>,
}

enum Ent {
    T(TopicAsync),
    P(PublisherAsync, Option<DataWriterAsync<Msg>>),
    S(SubscriberAsync, Option<DataReaderAsync<Msg>>),
    W(DataWriterAsync<Msg>),
    R(DataReaderAsync<Msg>),
}

enum Peer {
    None,
    Reader(DataReaderAsync<Msg>),
    Writer(DataWriterAsync<Msg>),
}

struct Ctx {
    sim: Sim,
    a: DomainParticipantAsync,
    b: DomainParticipantAsync,
    topic_a: Option<TopicAsync>,
    pub_a: Option<PublisherAsync>,
    sub_a: Option<SubscriberAsync>,
    peer: Peer,
}

fn no_auto_pub() -> PublisherQos {
    PublisherQos { entity_factory: EntityFactoryQosPolicy { autoenable_created_entities: false }, ..Default::default() }
}
fn no_auto_sub() -> SubscriberQos {
    SubscriberQos { entity_factory: EntityFactoryQosPolicy { autoenable_created_entities: false }, ..Default::default() }
}

impl Ctx {
    async fn create(&mut self, kind: EK, q: &Q, enabled: bool) -> Out<Ent> {
        let sim = self.sim.clone();
        match (kind, q) {
            (EK::Topic, Q::T(q)) => match call(&sim, self.a.create_topic::<Msg>("QT", "Msg", QosKind::Specific(q.clone()), NO_LISTENER, NO_STATUS)).await {
                Out::Ok(t) => Out::Ok(Ent::T(t)),
                o => o.cast(),
            },
            (EK::Publisher, Q::P(q)) => match call(&sim, self.a.create_publisher(QosKind::Specific(q.clone()), NO_LISTENER, NO_STATUS)).await {
                Out::Ok(p) => Out::Ok(Ent::P(p, None)),
                o => o.cast(),
            },
            (EK::Subscriber, Q::S(q)) => match call(&sim, self.a.create_subscriber(QosKind::Specific(q.clone()), NO_LISTENER, NO_STATUS)).await {
                Out::Ok(p) => Out::Ok(Ent::S(p, None)),
                o => o.cast(),
            },
            (EK::Writer, Q::W(q)) => {
                if self.pub_a.is_none() {
                    let pq = if enabled { PublisherQos::default() } else { no_auto_pub() };
                    match call(&sim, self.a.create_publisher(QosKind::Specific(pq), NO_LISTENER, NO_STATUS)).await {
                        Out::Ok(p) => self.pub_a = Some(p),
                        o => return o.cast(),
                    }
                }
                let t = self.topic_a.clone().unwrap();
                match call(&sim, self.pub_a.as_ref().unwrap().create_datawriter::<Msg>(&t, QosKind::Specific(q.clone()), NO_LISTENER, NO_STATUS)).await {
                    Out::Ok(w) => Out::Ok(Ent::W(w)),
                    o => o.cast(),
                }
            }
            (EK::Reader, Q::R(q)) => {
                if self.sub_a.is_none() {
                    let sq = if enabled { SubscriberQos::default() } else { no_auto_sub() };
                    match call(&sim, self.a.create_subscriber(QosKind::Specific(sq), NO_LISTENER, NO_STATUS)).await {
                        Out::Ok(p) => self.sub_a = Some(p),
                        o => return o.cast(),
                    }
                }
                let t = self.topic_a.clone().unwrap();
                match call(&sim, self.sub_a.as_ref().unwrap().create_datareader::<Msg>(&t, QosKind::Specific(q.clone()), NO_LISTENER, NO_STATUS)).await {
                    Out::Ok(w) => Out::Ok(Ent::R(w)),
                    o => o.cast(),
                }
            }
            _ => unreachable!(),
        }
    }
    /// `via_default`: set_qos(QosKind::Default) after making `q` the factory's default (which must
    /// be equivalent to set_qos(Specific(q)); an inconsistent default is refused with the error
    /// that set_qos would have to give)
    async fn set_qos(&self, e: &Ent, q: &Q, via_default: bool) -> Out<()> {
        if via_default {
            let r = match (e, q) {
                (Ent::T(_), Q::T(q)) => call(&self.sim, self.a.set_default_topic_qos(QosKind::Specific(q.clone()))).await,
                (Ent::P(..), Q::P(q)) => call(&self.sim, self.a.set_default_publisher_qos(QosKind::Specific(q.clone()))).await,
                (Ent::S(..), Q::S(q)) => call(&self.sim, self.a.set_default_subscriber_qos(QosKind::Specific(q.clone()))).await,
                (Ent::W(_), Q::W(q)) => call(&self.sim, self.pub_a.as_ref().unwrap().set_default_datawriter_qos(QosKind::Specific(q.clone()))).await,
                (Ent::R(_), Q::R(q)) => call(&self.sim, self.sub_a.as_ref().unwrap().set_default_datareader_qos(QosKind::Specific(q.clone()))).await,
                _ => unreachable!(),
            };
            if !r.is_ok() {
                return r;
            }
            return match e {
                Ent::T(x) => call(&self.sim, x.set_qos(QosKind::Default)).await,
                Ent::P(x, _) => call(&self.sim, x.set_qos(QosKind::Default)).await,
                Ent::S(x, _) => call(&self.sim, x.set_qos(QosKind::Default)).await,
                Ent::W(x) => call(&self.sim, x.set_qos(QosKind::Default)).await,
                Ent::R(x) => call(&self.sim, x.set_qos(QosKind::Default)).await,
            };
        }
        match (e, q) {
            (Ent::T(x), Q::T(q)) => call(&self.sim, x.set_qos(QosKind::Specific(q.clone()))).await,
            (Ent::P(x, _), Q::P(q)) => call(&self.sim, x.set_qos(QosKind::Specific(q.clone()))).await,
            (Ent::S(x, _), Q::S(q)) => call(&self.sim, x.set_qos(QosKind::Specific(q.clone()))).await,
            (Ent::W(x), Q::W(q)) => call(&self.sim, x.set_qos(QosKind::Specific(q.clone()))).await,
            (Ent::R(x), Q::R(q)) => call(&self.sim, x.set_qos(QosKind::Specific(q.clone()))).await,
            _ => unreachable!(),
        }
    }
    async fn get_qos(&self, e: &Ent) -> Out<Q> {
        match e {
            Ent::T(x) => call(&self.sim, x.get_qos()).await.map(Q::T),
            Ent::P(x, _) => call(&self.sim, x.get_qos()).await.map(Q::P),
            Ent::S(x, _) => call(&self.sim, x.get_qos()).await.map(Q::S),
            Ent::W(x) => call(&self.sim, x.get_qos()).await.map(Q::W),
            Ent::R(x) => call(&self.sim, x.get_qos()).await.map(Q::R),
        }
    }
    async fn enable(&self, e: &Ent) -> Out<()> {
        match e {
            Ent::T(x) => call(&self.sim, x.enable()).await,
            Ent::W(x) => call(&self.sim, x.enable()).await,
            Ent::R(x) => call(&self.sim, x.enable()).await,
            _ => Out::Ok(()),
        }
    }

    /// Create the matching endpoint on participant B (lenient / strongest QoS, so that it is
    /// compatible with everything the generator produces).
    async fn ensure_peer(&mut self, e: &mut Ent, cur: &Q) -> bool {
        if !matches!(self.peer, Peer::None) {
            return true;
        }
        let sim = self.sim.clone();
        macro_rules! ok {
            ($e:expr) => {
                match call(&sim, $e).await {
                    Out::Ok(v) => v,
                    _ => return false,
                }
            };
        }
        let need_reader = matches!(e, Ent::W(_) | Ent::P(..));
        let need_writer = matches!(e, Ent::R(_) | Ent::S(..));
        if !need_reader && !need_writer {
            return true;
        }
        // the local endpoint below a publisher / subscriber under test
        if let Ent::P(p, w @ None) = e {
            let t = self.topic_a.clone().unwrap();
            let dw = ok!(p.create_datawriter::<Msg>(&t, QosKind::Default, NO_LISTENER, NO_STATUS));
            ok!(dw.enable());
            *w = Some(dw);
        }
        if let Ent::S(s, r @ None) = e {
            let t = self.topic_a.clone().unwrap();
            let dr = ok!(s.create_datareader::<Msg>(&t, QosKind::Default, NO_LISTENER, NO_STATUS));
            ok!(dr.enable());
            *r = Some(dr);
        }
        let tb = ok!(self.b.create_topic::<Msg>("QT", "Msg", QosKind::Default, NO_LISTENER, NO_STATUS));
        // NOTE: the peer uses *equal* values for every request/offer policy whose compatibility
        // rule is an ordering (presentation, liveliness, ownership), and the weakest request /
        // strongest offer for the rest, so that the match never depends on dust-dds' QoS matching
        // rules (those are property C15's business) and survives every mutable change generated.
        if need_reader {
            let (partition, presentation) = match cur {
                Q::P(p) => (vec!["A".to_string()], p.presentation.clone()),
                _ => (vec![], PresentationQosPolicy::default()),
            };
            let sq = SubscriberQos { partition: PartitionQosPolicy { name: partition }, presentation, ..Default::default() };
            let sb = ok!(self.b.create_subscriber(QosKind::Specific(sq), NO_LISTENER, NO_STATUS));
            let (ownership, liveliness) = match cur {
                Q::W(w) => (w.ownership.clone(), w.liveliness.clone()),
                _ => (OwnershipQosPolicy::default(), LivelinessQosPolicy::default()),
            };
            let rq = DataReaderQos {
                reliability: best_effort(),
                ownership,
                liveliness,
                latency_budget: LatencyBudgetQosPolicy { duration: DurationKind::Infinite },
                representation: DataRepresentationQosPolicy { value: vec![XCDR_DATA_REPRESENTATION, XCDR2_DATA_REPRESENTATION] },
                ..Default::default()
            };
            let dr = ok!(sb.create_datareader::<Msg>(&tb, QosKind::Specific(rq), NO_LISTENER, NO_STATUS));
            self.peer = Peer::Reader(dr);
        } else {
            let (partition, presentation) = match cur {
                Q::S(p) => (vec!["A".to_string()], p.presentation.clone()),
                _ => (vec![], PresentationQosPolicy::default()),
            };
            let pq = PublisherQos { partition: PartitionQosPolicy { name: partition }, presentation, ..Default::default() };
            let pb = ok!(self.b.create_publisher(QosKind::Specific(pq), NO_LISTENER, NO_STATUS));
            let (ownership, liveliness) = match cur {
                Q::R(r) => (r.ownership.clone(), r.liveliness.clone()),
                _ => (OwnershipQosPolicy::default(), LivelinessQosPolicy::default()),
            };
            let wq = DataWriterQos {
                reliability: reliable(1000),
                durability: DurabilityQosPolicy { kind: DurabilityQosPolicyKind::TransientLocal },
                destination_order: DestinationOrderQosPolicy { kind: DestinationOrderQosPolicyKind::BySourceTimestamp },
                liveliness,
                deadline: DeadlineQosPolicy { period: secs(1000) },
                ownership,
                ..Default::default()
            };
            let dw = ok!(pb.create_datawriter::<Msg>(&tb, QosKind::Specific(wq), NO_LISTENER, NO_STATUS));
            self.peer = Peer::Writer(dw);
        }
        true
    }

    /// What participant B currently knows about the entity: announced policies only.
    /// `None`: B has no data (not discovered / not matched).
    async fn peer_view(&self, e: &Ent) -> Option<Pol> {
        fn of_pub(d: &PublicationBuiltinTopicData, group: bool) -> Pol {
            if group {
                vec![("presentation", format!("{:?}", d.presentation())), ("partition", format!("{:?}", d.partition())), ("group_data", format!("{:?}", d.group_data()))]
            } else {
                vec![
                    ("durability", format!("{:?}", d.durability())),
                    ("deadline", format!("{:?}", d.deadline())),
                    ("latency_budget", format!("{:?}", d.latency_budget())),
                    ("liveliness", format!("{:?}", d.liveliness())),
                    ("reliability", format!("{:?}", d.reliability())),
                    ("destination_order", format!("{:?}", d.destination_order())),
                    ("lifespan", format!("{:?}", d.lifespan())),
                    ("user_data", format!("{:?}", d.user_data())),
                    ("ownership", format!("{:?}", d.ownership())),
                    ("ownership_strength", format!("{:?}", d.ownership_strength())),
                ]
            }
        }
        fn of_sub(d: &SubscriptionBuiltinTopicData, group: bool) -> Pol {
            if group {
                vec![("presentation", format!("{:?}", d.presentation())), ("partition", format!("{:?}", d.partition())), ("group_data", format!("{:?}", d.group_data()))]
            } else {
                vec![
                    ("durability", format!("{:?}", d.durability())),
                    ("deadline", format!("{:?}", d.deadline())),
                    ("latency_budget", format!("{:?}", d.latency_budget())),
                    ("liveliness", format!("{:?}", d.liveliness())),
                    ("reliability", format!("{:?}", d.reliability())),
                    ("destination_order", format!("{:?}", d.destination_order())),
                    ("user_data", format!("{:?}", d.user_data())),
                    ("ownership", format!("{:?}", d.ownership())),
                    ("time_based_filter", format!("{:?}", d.time_based_filter())),
                ]
            }
        }
        fn of_topic(d: &TopicBuiltinTopicData) -> Pol {
            vec![
                ("topic_data", format!("{:?}", d.topic_data())),
                ("durability", format!("{:?}", d.durability())),
                ("deadline", format!("{:?}", d.deadline())),
                ("latency_budget", format!("{:?}", d.latency_budget())),
                ("liveliness", format!("{:?}", d.liveliness())),
                ("reliability", format!("{:?}", d.reliability())),
                ("destination_order", format!("{:?}", d.destination_order())),
                ("history", format!("{:?}", d.history())),
                ("resource_limits", format!("{:?}", d.resource_limits())),
                ("transport_priority", format!("{:?}", d.transport_priority())),
                ("lifespan", format!("{:?}", d.lifespan())),
                ("ownership", format!("{:?}", d.ownership())),
            ]
        }
        match (e, &self.peer) {
            (Ent::T(t), _) => call(&self.sim, self.b.get_discovered_topic_data(t.get_instance_handle())).await.ok().map(|d| of_topic(&d)),
            (Ent::W(w), Peer::Reader(dr)) => call(&self.sim, dr.get_matched_publication_data(w.get_instance_handle())).await.ok().map(|d| of_pub(&d, false)),
            (Ent::P(_, Some(w)), Peer::Reader(dr)) => call(&self.sim, dr.get_matched_publication_data(w.get_instance_handle())).await.ok().map(|d| of_pub(&d, true)),
            (Ent::R(r), Peer::Writer(dw)) => call(&self.sim, dw.get_matched_subscription_data(r.get_instance_handle())).await.ok().map(|d| of_sub(&d, false)),
            (Ent::S(_, Some(r)), Peer::Writer(dw)) => call(&self.sim, dw.get_matched_subscription_data(r.get_instance_handle())).await.ok().map(|d| of_sub(&d, true)),
            _ => None,
        }
    }
}

const ANNOUNCE_BOUND: i64 = 30 * SEC;

async fn scenario(w: World, case: Case) -> Outcome {
    let sim = w.sim.clone();
    let mut out = Outcome::default();
    let kind = case.kind;
    macro_rules! setup {
        ($e:expr) => {
            match call(&sim, $e).await {
                Out::Ok(v) => v,
                _ => {
                    out.aborted_at = Some(0);
                    out.notes.push("setup call failed".into());
                    return out;
                }
            }
        };
    }
    let a = setup!(w.factory.create_participant(0, QosKind::Default, NO_LISTENER, NO_STATUS));
    let b = setup!(w.factory.create_participant(0, QosKind::Default, NO_LISTENER, NO_STATUS));
    let mut ctx = Ctx { sim: sim.clone(), a: a.clone(), b, topic_a: None, pub_a: None, sub_a: None, peer: Peer::None };
    let can_enable = matches!(kind, EK::Topic | EK::Writer | EK::Reader);
    if kind != EK::Topic {
        ctx.topic_a = Some(setup!(a.create_topic::<Msg>("QT", "Msg", QosKind::Default, NO_LISTENER, NO_STATUS)));
    }
    if !case.enabled_at_creation && matches!(kind, EK::Topic | EK::Publisher | EK::Subscriber) {
        // entities created by this participant are not enabled automatically
        setup!(a.set_qos(QosKind::Specific(DomainParticipantQos {
            entity_factory: EntityFactoryQosPolicy { autoenable_created_entities: false },
            ..Default::default()
        })));
    }
    let mut enabled = case.enabled_at_creation;

    macro_rules! stop {
        ($r:expr, $opname:expr, $step:expr) => {{
            match &$r {
                Out::Hang => {
                    out.findings.push(Finding {
                        sig: format!("hang|op={}.{}", kind.name(), $opname),
                        what: format!("{}.{} did not return within 5 s of virtual time", kind.name(), $opname),
                        step: $step,
                    });
                    out.aborted_at = Some($step);
                    return out;
                }
                Out::Dead => {
                    out.panic_op = Some(format!("{}.{}", kind.name(), $opname));
                    out.aborted_at = Some($step);
                    return out;
                }
                _ => {}
            }
        }};
    }
    macro_rules! flag {
        ($policy:expr, $failure:expr, $at:expr, $detail:expr, $step:expr) => {{
            out.findings.push(Finding {
                sig: format!("{}|{}|{}|at={}|enabled={}", kind.name(), $policy, $failure, $at, if $at == "create" { "-" } else { yn(enabled) }),
                what: format!("{} {}: {} [{}] ({})", kind.name(), $at, $failure, $policy, $detail),
                step: $step,
            });
        }};
    }

    // ---- creation
    if let Some(qb) = &case.q_bad {
        let rule = inconsistent(qb).unwrap_or("?");
        let r = ctx.create(kind, qb, enabled).await;
        stop!(r, "create", 0);
        out.checks += 1;
        out.shapes.push(format!("create/{}/inconsistent:{rule}/{}", yn(enabled), r.name()));
        out.results.insert(format!("create[inconsistent]:{}", r.name()));
        match r {
            Out::Err(dust_dds::infrastructure::error::DdsError::InconsistentPolicy) => {}
            Out::Ok(_) => {
                flag!(rule, "accepted_inconsistent", "create", format!("creation with {} succeeded", qb.json().to_string()), 0);
                // the entity exists now under the name/handle we wanted: stop here, the rest of
                // the history would run against a second entity
                out.aborted_at = Some(0);
                return out;
            }
            o => {
                flag!(rule, format!("wrong_error_{}", o.name()), "create", format!("creation with {} must fail with InconsistentPolicy", qb.json().to_string()), 0);
            }
        }
    }
    let r = ctx.create(kind, &case.q0, enabled).await;
    stop!(r, "create", 0);
    out.shapes.push(format!("create/{}/consistent/{}", yn(enabled), r.name()));
    out.results.insert(format!("create[consistent]:{}", r.name()));
    let mut ent = match r {
        Out::Ok(e) => e,
        o => {
            out.checks += 1;
            let d = diff(&Q::default_of(kind).pol(), &case.q0.pol());
            flag!(d.first().cloned().unwrap_or("default"), "rejected_valid", "create", format!("creation with consistent QoS {} failed with {}", case.q0.json().to_string(), o.name()), 0);
            out.aborted_at = Some(0);
            return out;
        }
    };
    let mut cur = case.q0.clone();
    let mut matched_once = false;
    // what the peer saw at the end of the previous announcement check
    let mut prev_view: Option<Pol> = None;

    // get_qos must return `want`; returns the actual value
    macro_rules! check_get {
        ($want:expr, $failure:expr, $at:expr, $step:expr) => {{
            let g = ctx.get_qos(&ent).await;
            stop!(g, "get_qos", $step);
            out.checks += 1;
            match g {
                Out::Ok(actual) => {
                    let d = diff(&$want.pol(), &actual.pol());
                    if let Some(p) = d.first() {
                        flag!(p, $failure, $at, format!("get_qos returns {} where {} is expected", actual.json().to_string(), $want.json().to_string()), $step);
                    }
                    Some(actual)
                }
                o => {
                    out.notes.push(format!("get_qos failed with {}", o.name()));
                    None
                }
            }
        }};
    }
    // the peer must see `cur` (announced policies) within 30 s
    macro_rules! check_announced {
        ($at:expr, $step:expr) => {{
            if enabled && !(matches!(kind, EK::Publisher | EK::Subscriber) && !case.enabled_at_creation) {
                if !ctx.ensure_peer(&mut ent, &cur).await {
                    out.notes.push("peer endpoint could not be created".into());
                } else {
                    if sim.worker_dead() {
                        out.panic_op = Some("peer setup".into());
                        out.aborted_at = Some($step);
                        return out;
                    }
                    let want: Pol = cur.pol().into_iter().filter(|p| is_announced(kind, p.0)).collect();
                    let t0 = sim.now();
                    let mut last: Option<Pol> = None;
                    let mut ok = false;
                    loop {
                        if let Some(v) = ctx.peer_view(&ent).await {
                            let v: Pol = want.iter().filter_map(|w| v.iter().find(|x| x.0 == w.0).cloned()).collect();
                            ok = v == want;
                            last = Some(v);
                        }
                        if sim.worker_dead() {
                            out.panic_op = Some("waiting for announcement".into());
                            out.aborted_at = Some($step);
                            return out;
                        }
                        if ok || sim.now() - t0 > ANNOUNCE_BOUND {
                            break;
                        }
                        sim.sleep(50 * MS).await;
                    }
                    let last2 = last.clone();
                    match (&last, ok) {
                        (_, true) => {
                            matched_once = true;
                            out.checks += 1;
                            *out.stats.entry("announcements_seen".into()).or_default() += 1;
                        }
                        (Some(v), false) => {
                            matched_once = true;
                            out.checks += 1;
                            let d = diff(&want, v);
                            // nothing at all arrived (peer view identical to the one before the
                            // change): one root cause, whatever policies were changed
                            let p = if prev_view.as_ref() == Some(v) { "any" } else { d.first().cloned().unwrap_or("?") };
                            let d0 = d.first().cloned().unwrap_or("?");
                            let wv = want.iter().find(|x| x.0 == d0).map(|x| x.1.clone()).unwrap_or_default();
                            let pv = v.iter().find(|x| x.0 == d0).map(|x| x.1.clone()).unwrap_or_default();
                            flag!(p, "not_announced", $at, format!("30 s after the change the peer participant still sees {pv}, get_qos returns {wv}"), $step);
                        }
                        (None, false) => {
                            // never discovered / matched at all: no verdict here (matching rules
                            // are other properties' business)
                            *out.stats.entry(format!("peer_has_no_data_{}", kind.name())).or_default() += 1;
                            if matched_once {
                                out.notes.push("peer lost the match".into());
                            }
                        }
                    }
                    prev_view = last2;
                }
            }
        }};
    }

    if let Some(actual) = check_get!(case.q0, "get_qos_differs", "create", 0) {
        cur = actual;
    }
    check_announced!("create", 0);

    // ---- set_qos / enable history
    for (i, st) in case.steps.iter().enumerate() {
        let step = i + 1;
        match st {
            Step::Enable => {
                if enabled || !can_enable {
                    continue;
                }
                let r = ctx.enable(&ent).await;
                stop!(r, "enable", step);
                out.shapes.push(format!("enable/{}", r.name()));
                if r.is_ok() {
                    enabled = true;
                    // enabling must not alter the QoS, and announces it
                    if let Some(actual) = check_get!(cur, "get_qos_differs", "enable", step) {
                        cur = actual;
                    }
                    check_announced!("enable", step);
                } else {
                    out.notes.push(format!("enable failed with {}", r.name()));
                }
            }
            Step::Set(q, via_default) => {
                let via_default = *via_default;
                let changed = diff(&cur.pol(), &q.pol());
                if changed.iter().any(|n| is_unsettled(n)) && enabled {
                    continue; // X-Types policies after enable: not settled by the DDS table
                }
                let inc = inconsistent(q);
                let imm: Vec<&str> = if enabled { changed.iter().cloned().filter(|n| is_immutable(kind, n)).collect() } else { vec![] };
                let r = ctx.set_qos(&ent, q, via_default).await;
                stop!(r, "set_qos", step);
                let got = r.name();
                out.checks += 1;
                let class = match (inc, imm.is_empty()) {
                    (Some(_), true) => "inconsistent",
                    (Some(_), false) => "inconsistent+immutable",
                    (None, false) => "immutable",
                    (None, true) => "valid",
                };
                out.shapes.push(format!("set_qos/{}/{}/{}/{}/{}", yn(enabled), class, changed.join("+"), got, if via_default { "via_default" } else { "specific" }));
                out.results.insert(format!("set_qos[{},enabled={}]:{}", class, yn(enabled), got));
                let policy = inc.unwrap_or_else(|| imm.first().cloned().unwrap_or_else(|| changed.first().cloned().unwrap_or("none")));
                let accepted = r.is_ok();
                let expected_ok = inc.is_none() && imm.is_empty();
                if accepted && !expected_ok {
                    let failure = if inc.is_some() { "accepted_inconsistent" } else { "accepted_immutable" };
                    flag!(policy, failure, "set_qos", format!("set_qos({}) on top of {} returned Ok", q.json().to_string(), cur.json().to_string()), step);
                    // the entity is in a state the contract does not allow: everything after it
                    // would be a consequence of this finding
                    out.aborted_at = Some(step);
                    return out;
                } else if !accepted && expected_ok {
                    flag!(policy, "rejected_valid", "set_qos", format!("set_qos({}) on top of {} failed with {got}", q.json().to_string(), cur.json().to_string()), step);
                } else if !accepted {
                    let fine = match (inc.is_some(), imm.is_empty()) {
                        (true, true) => got == "InconsistentPolicy",
                        (true, false) => got == "InconsistentPolicy" || got == "ImmutablePolicy",
                        _ => got == "ImmutablePolicy",
                    };
                    if !fine {
                        flag!(policy, format!("wrong_error_{got}"), "set_qos", format!("set_qos({}) on top of {} ({class} change)", q.json().to_string(), cur.json().to_string()), step);
                    }
                }
                if accepted {
                    if let Some(actual) = check_get!(q, "get_qos_differs", "set_qos", step) {
                        cur = actual;
                    } else {
                        cur = q.clone();
                    }
                    if expected_ok {
                        check_announced!("set_qos", step);
                    }
                } else if let Some(actual) = check_get!(cur, "not_atomic", "set_qos", step) {
                    cur = actual;
                }
            }
        }
    }
    out
}

// ------------------------------------------------------------------------------------------

fn run_case(cs: u64, case: &Case, policy: Policy) -> (Option<Outcome>, RunStats) {
    let mut cfg = WorldConfig::default();
    cfg.sim.seed = cs;
    cfg.sim.policy = policy;
    cfg.sim.max_polls = 4_000_000;
    let c2 = case.clone();
    let (res, stats, _net) = run_world(&cfg, move |w| scenario(w, c2));
    (res, stats)
}

fn sigs_of(res: &Option<Outcome>, stats: &RunStats) -> Vec<(String, String)> {
    let mut v: Vec<(String, String)> = Vec::new();
    let panics = dds_panics(stats);
    let op = res.as_ref().and_then(|o| o.panic_op.clone()).unwrap_or_else(|| "idle".into());
    for p in &panics {
        v.push((panic_sig(p, &op), format!("DDS {:?} task panicked at {} during {}: {}", p.task, p.location, op, p.msg)));
    }
    if let Some(o) = res {
        for f in &o.findings {
            if f.sig.starts_with("hang|") && !panics.is_empty() {
                continue;
            }
            v.push((f.sig.clone(), f.what.clone()));
        }
    }
    v
}

fn case_json(c: &Case) -> Json {
    Json::obj()
        .set("entity", c.kind.name())
        .set("created_enabled", c.enabled_at_creation)
        .set("inconsistent_creation_attempt", c.q_bad.as_ref().map(|q| q.json()))
        .set("creation_qos(non-default policies)", c.q0.json())
        .set("steps", Json::Arr(c.steps.iter().map(|s| s.json(&c.q0)).collect()))
}

pub fn run(shard: &Shard) -> Report {
    let mut rep = Report::new("C37");
    let tier = replay_tier(shard);
    let thorough = tier == "thorough";
    let trace = shard.args.has("trace");
    for case_no in shard.my_cases() {
        let cs = shard.case_seed(case_no);
        let mut rng = Rng::new(cs);
        let case = gen_case(&mut rng, thorough);
        let policy = pick_policy(&mut rng);
        if trace {
            eprintln!("case {case_no}: {}", case_json(&case).to_string());
        }
        let (res, stats) = run_case(cs, &case, policy);
        rep.eval();
        let replay = shard.base_replay("c37", case_no).set("engine", "scen_ent").set("tier", tier.clone()).set("case_description", case_json(&case));
        let found = sigs_of(&res, &stats);
        for p in &stats.panics {
            if p.task == TaskKind::Local {
                rep.inconclusive(format!("case {case_no}: harness task panicked at {}: {}", p.location, p.msg));
            }
        }
        let mut done: Vec<String> = Vec::new();
        for (sig, what) in &found {
            if done.contains(sig) {
                continue;
            }
            done.push(sig.clone());
            let seen = rep.violation_counts.get(sig).cloned().unwrap_or(0);
            let mut r = replay.clone().set("violation", sig.clone());
            let mut what = what.clone();
            if seen < 1 {
                // shrink: drop the inconsistent creation attempt, then steps
                let mut c = case.clone();
                let test = |c: &Case| {
                    let (r, s) = run_case(cs, c, policy);
                    sigs_of(&r, &s).iter().any(|(x, _)| x == sig)
                };
                if c.q_bad.is_some() {
                    let mut c2 = c.clone();
                    c2.q_bad = None;
                    if test(&c2) {
                        c = c2;
                    }
                }
                let mut budget = 60usize;
                let base = c.clone();
                let steps = ddmin(
                    c.steps.clone(),
                    |cand: &[Step]| {
                        let mut c3 = base.clone();
                        c3.steps = cand.to_vec();
                        test(&c3)
                    },
                    &mut budget,
                );
                // possibly no step at all is needed
                let mut c3 = base.clone();
                c3.steps = vec![];
                if test(&c3) {
                    c = c3;
                } else {
                    c.steps = steps;
                }
                // the inconsistent creation attempt reduced to the policies of the rule
                if let Some(qb) = c.q_bad.clone() {
                    let mut e = Q::default_of(c.kind);
                    match (&mut e, &qb) {
                        (Q::T(e), Q::T(b)) => {
                            e.history = b.history.clone();
                            e.resource_limits = b.resource_limits.clone();
                        }
                        (Q::W(e), Q::W(b)) => {
                            e.history = b.history.clone();
                            e.resource_limits = b.resource_limits.clone();
                            e.representation = b.representation.clone();
                        }
                        (Q::R(e), Q::R(b)) => {
                            e.history = b.history.clone();
                            e.resource_limits = b.resource_limits.clone();
                            e.deadline = b.deadline.clone();
                            e.time_based_filter = b.time_based_filter.clone();
                        }
                        _ => {}
                    }
                    let mut c5 = c.clone();
                    c5.q_bad = Some(e);
                    if test(&c5) {
                        c = c5;
                    }
                }
                // try the default creation QoS
                let mut c4 = c.clone();
                c4.q0 = Q::default_of(c.kind);
                if matches!(c.kind, EK::Publisher | EK::Subscriber) {
                    set_partition_a(&mut c4.q0);
                }
                if c4.q0 != c.q0 && test(&c4) {
                    c = c4;
                }
                let (r2, s2) = run_case(cs, &c, policy);
                if let Some((_, w2)) = sigs_of(&r2, &s2).into_iter().find(|(x, _)| x == sig) {
                    what = w2;
                }
                what = format!("{what}; minimal case: {}", case_json(&c).to_string());
                r = r.set("minimal_case", case_json(&c));
            }
            if sig.starts_with("panic|") {
                if let Some(p) = dds_panics(&stats).first() {
                    r = r.set("panic_location", p.location.clone());
                }
            }
            rep.violation(sig.clone(), what, r);
        }
        let Some(o) = res else {
            if found.is_empty() {
                rep.inconclusive(format!("case {case_no}: history did not finish ({:?})", stats.stop));
            }
            continue;
        };
        if o.aborted_at.is_some() && found.is_empty() {
            rep.inconclusive(format!("case {case_no}: aborted at step {:?} without a finding ({})", o.aborted_at, o.notes.join("; ")));
        }
        for n in &o.notes {
            rep.set("notes", n.clone());
        }
        for (k, v) in &o.stats {
            rep.stat(k, *v as i128);
        }
        for r in &o.results {
            rep.set("errors", r.clone());
        }
        rep.stat(&format!("cases_{}", case.kind.name()), 1);
        rep.stat("oracle_checks", o.checks as i128);
        rep.stat("polls", stats.polls as i128);
        rep.maxstat("max_virtual_s", ((stats.end_ns - EPOCH_NS) / SEC) as i128);
        if o.checks > 1 {
            rep.nontrivial(vcore::mix(vcore::fnv_str(case.kind.name()), hash_strs(o.shapes.iter().map(|s| s.as_str()))));
        }
        if case_no < 64 {
            rep.sample(
                Json::obj()
                    .set("case", case_no)
                    .set("description", case_json(&case))
                    .set("observed", strs(&o.shapes))
                    .set("violations", strs(&found.iter().map(|x| x.0.clone()).collect::<Vec<_>>())),
            );
        }
    }
    rep
}

fn set_partition_a(q: &mut Q) {
    match q {
        Q::P(p) => p.partition.name = vec!["A".into()],
        Q::S(p) => p.partition.name = vec!["A".into()],
        _ => {}
    }
}
