//! C16: matched-status counts track the actual matched set.
//!
//! One observed participant P0 with a writer W (topic TW) and a reader R (topic TR); one or two
//! remote participants create readers on TW / writers on TR, update their QoS (latency budget
//! incompatible / compatible again, user data), change the partition of their subscriber /
//! publisher, delete endpoints, leave (network cut + lease expiry, or delete_participant).
//! After every step (1-2 operations of one kind, each followed by a settling window) both
//! matched statuses are read and compared with the scenario's own model.
use crate::common::*;
use dust_dds::dds_async::data_reader::DataReaderAsync;
use dust_dds::dds_async::data_writer::DataWriterAsync;
use dust_dds::dds_async::domain_participant::DomainParticipantAsync;
use dust_dds::dds_async::publisher::PublisherAsync;
use dust_dds::dds_async::subscriber::SubscriberAsync;
use dust_dds::dds_async::topic::TopicAsync;
use dust_dds::infrastructure::listener::NO_LISTENER;
use dust_dds::infrastructure::qos::{DataReaderQos, DataWriterQos, PublisherQos, QosKind, SubscriberQos};
use dust_dds::infrastructure::qos_policy::*;
use dust_dds::infrastructure::status::NO_STATUS;
use dust_dds::infrastructure::time::{Duration, DurationKind};
use simnet::*;
use std::collections::BTreeSet;
use vcore::rtpswalk::Class;
use vcore::{Json, Report, Rng};

const SETTLE: i64 = 30 * SEC;
const LEASE: i64 = 100 * SEC;
const LEASE_MARGIN: i64 = 10 * SEC;

#[derive(Clone, Debug, PartialEq)]
enum Op {
    Create {
        ep: usize,
        part: usize,
        is_reader: bool,
        qos_ok: bool,
        part_ok: bool,
        reliable: bool,
    },
    SetLatency {
        ep: usize,
        ok: bool,
    },
    UserData {
        ep: usize,
        val: u8,
    },
    Partition {
        ep: usize,
        ok: bool,
    },
    Delete {
        ep: usize,
    },
    DeleteParticipant {
        part: usize,
    },
    Lease {
        part: usize,
    },
}

impl Op {
    fn describe(&self) -> String {
        match self {
            Op::Create {
                ep,
                part,
                is_reader,
                qos_ok,
                part_ok,
                reliable,
            } => format!(
                "create {} e{ep} on P{part} ({}, latency budget {}, partition {})",
                if *is_reader { "reader(TW)" } else { "writer(TR)" },
                if *reliable { "RELIABLE" } else { "BEST_EFFORT" },
                if *qos_ok { "compatible" } else { "INCOMPATIBLE" },
                if *part_ok { "A" } else { "B" }
            ),
            Op::SetLatency { ep, ok } => format!(
                "set_qos e{ep}: latency budget -> {}",
                if *ok { "compatible" } else { "INCOMPATIBLE" }
            ),
            Op::UserData { ep, val } => format!("set_qos e{ep}: user_data -> [{val}] (still compatible)"),
            Op::Partition { ep, ok } => format!(
                "set_qos on e{ep}'s {{publisher|subscriber}}: partition -> {}",
                if *ok { "A (matching)" } else { "B (not matching)" }
            ),
            Op::Delete { ep } => format!("delete e{ep}"),
            Op::DeleteParticipant { part } => format!("P{part}: delete_contained_entities + delete_participant"),
            Op::Lease { part } => format!("P{part} cut off the network, wait lease 100 s"),
        }
    }
}

#[derive(Clone, Debug)]
struct Step {
    cause: &'static str,
    ops: Vec<Op>,
    /// wait the whole settling window even if the matched lists already agree with the model
    full_wait: bool,
    /// read each status twice in a row (second read must report no change)
    double_read: bool,
}

#[derive(Clone, Debug)]
struct Ep {
    part: usize,
    is_reader: bool,
    exists: bool,
    qos_ok: bool,
    part_ok: bool,
}

#[derive(Clone, Debug, Default)]
struct SideModel {
    cur: i32,
    episodes: i32,
    ever: BTreeSet<usize>,
}

#[derive(Clone, Debug)]
struct Model {
    eps: Vec<Ep>,
    alive: Vec<bool>,
    /// [0] writer-observer W (counts remote readers), [1] reader-observer R (counts remote writers)
    side: [SideModel; 2],
}

impl Model {
    fn new(n_parts: usize) -> Model {
        Model {
            eps: Vec::new(),
            alive: vec![true; n_parts + 1],
            side: [SideModel::default(), SideModel::default()],
        }
    }
    fn matched(&self, e: &Ep) -> bool {
        e.exists && e.qos_ok && e.part_ok && self.alive[e.part]
    }
    fn matched_readers_on(&self, part: usize) -> usize {
        self.eps.iter().filter(|e| e.is_reader && e.part == part && self.matched(e)).count()
    }
    fn apply(&mut self, op: &Op) {
        let before: Vec<bool> = self.eps.iter().map(|e| self.matched(e)).collect();
        match op {
            Op::Create {
                ep,
                part,
                is_reader,
                qos_ok,
                part_ok,
                ..
            } => {
                assert_eq!(*ep, self.eps.len());
                self.eps.push(Ep {
                    part: *part,
                    is_reader: *is_reader,
                    exists: true,
                    qos_ok: *qos_ok,
                    part_ok: *part_ok,
                });
            }
            Op::SetLatency { ep, ok } => self.eps[*ep].qos_ok = *ok,
            Op::UserData { .. } => {}
            Op::Partition { ep, ok } => self.eps[*ep].part_ok = *ok,
            Op::Delete { ep } => self.eps[*ep].exists = false,
            Op::DeleteParticipant { part } => {
                for e in self.eps.iter_mut().filter(|e| e.part == *part) {
                    e.exists = false;
                }
                self.alive[*part] = false;
            }
            Op::Lease { part } => self.alive[*part] = false,
        }
        for (i, e) in self.eps.iter().enumerate() {
            let was = before.get(i).copied().unwrap_or(false);
            let is = self.matched(e);
            let s = if e.is_reader { 0 } else { 1 };
            if is && !was {
                self.side[s].cur += 1;
                self.side[s].episodes += 1;
                self.side[s].ever.insert(i);
            } else if was && !is {
                self.side[s].cur -= 1;
            }
        }
    }
}

fn gen_history(rng: &mut Rng, thorough: bool) -> (usize, Vec<Step>) {
    let n_parts = 1 + rng.usize(2);
    let mut m = Model::new(n_parts);
    let mut steps = Vec::new();
    let n_steps = 3 + rng.usize(if thorough { 10 } else { 6 });
    let mut lease_used = false;
    for si in 0..n_steps {
        let alive_parts: Vec<usize> = (1..=n_parts).filter(|p| m.alive[*p]).collect();
        if alive_parts.is_empty() {
            break;
        }
        let live: Vec<usize> = (0..m.eps.len()).filter(|i| m.eps[*i].exists && m.alive[m.eps[*i].part]).collect();
        let kind = if si == 0 || live.is_empty() {
            0
        } else {
            match rng.below(100) {
                0..=24 => 0,
                25..=54 => 1,
                55..=69 => 2,
                70..=84 => 3,
                _ => 4,
            }
        };
        let n_ops = if rng.chance(0.3) { 2 } else { 1 };
        let mut ops = Vec::new();
        let cause;
        match kind {
            0 => {
                cause = "create";
                for _ in 0..n_ops {
                    if m.eps.len() >= 12 {
                        break;
                    }
                    let is_reader = rng.bool();
                    let op = Op::Create {
                        ep: m.eps.len(),
                        part: *rng.pick(&alive_parts),
                        is_reader,
                        qos_ok: rng.chance(0.8),
                        part_ok: rng.chance(0.85),
                        reliable: !is_reader || rng.bool(),
                    };
                    m.apply(&op);
                    ops.push(op);
                }
            }
            1 => {
                cause = "update";
                for _ in 0..n_ops {
                    let ep = *rng.pick(&live);
                    let op = if rng.chance(0.35) {
                        Op::UserData {
                            ep,
                            val: rng.below(250) as u8,
                        }
                    } else {
                        Op::SetLatency {
                            ep,
                            ok: !m.eps[ep].qos_ok,
                        }
                    };
                    m.apply(&op);
                    ops.push(op);
                }
            }
            2 => {
                cause = "partition_change";
                for _ in 0..n_ops {
                    let ep = *rng.pick(&live);
                    let op = Op::Partition {
                        ep,
                        ok: !m.eps[ep].part_ok,
                    };
                    m.apply(&op);
                    ops.push(op);
                }
            }
            3 => {
                cause = "delete";
                if rng.chance(0.2) {
                    let op = Op::DeleteParticipant {
                        part: *rng.pick(&alive_parts),
                    };
                    m.apply(&op);
                    ops.push(op);
                } else {
                    for _ in 0..n_ops {
                        let live: Vec<usize> =
                            (0..m.eps.len()).filter(|i| m.eps[*i].exists && m.alive[m.eps[*i].part]).collect();
                        if live.is_empty() {
                            break;
                        }
                        let op = Op::Delete { ep: *rng.pick(&live) };
                        m.apply(&op);
                        ops.push(op);
                    }
                }
            }
            _ => {
                cause = "lease";
                if lease_used {
                    continue;
                }
                lease_used = true;
                let op = Op::Lease {
                    part: *rng.pick(&alive_parts),
                };
                m.apply(&op);
                ops.push(op);
            }
        }
        if ops.is_empty() {
            continue;
        }
        steps.push(Step {
            cause,
            ops,
            full_wait: rng.chance(0.2),
            double_read: rng.chance(0.2),
        });
    }
    (n_parts, steps)
}

#[derive(Clone, Debug)]
struct Read {
    step: usize,
    cause: &'static str,
    side: usize,
    at_ms: i64,
    total: i32,
    total_change: i32,
    current: i32,
    current_change: i32,
    list_len: i32,
    model_cur: i32,
    model_lo: i32,
    model_hi: i32,
    second: bool,
}

struct Outcome {
    reads: Vec<Read>,
    /// (participant index, from_ns, to_ns, kinds of the steps that un-matched this participant's
    /// formerly matched readers)
    quiet: Vec<(usize, i64, i64, BTreeSet<&'static str>)>,
    op_errors: Vec<String>,
    end_ns: i64,
}

enum Remote {
    Reader(SubscriberAsync, DataReaderAsync<Msg>, DataReaderQos),
    Writer(PublisherAsync, DataWriterAsync<Msg>, DataWriterQos),
}

fn latency(ms: Option<i64>) -> LatencyBudgetQosPolicy {
    LatencyBudgetQosPolicy {
        duration: match ms {
            Some(ms) => finite_ms(ms),
            None => DurationKind::Infinite,
        },
    }
}

fn part(name: &str) -> PartitionQosPolicy {
    PartitionQosPolicy {
        name: vec![name.to_string()],
    }
}

async fn scenario(w: World, n_parts: usize, steps: Vec<Step>) -> Outcome {
    let sim = w.sim.clone();
    w.net.enable_sent_log(400_000, false);
    let p0 = new_participant(&w, 0).await;
    let tw0 = new_topic::<Msg>(&p0, "TW", "Msg").await;
    let tr0 = new_topic::<Msg>(&p0, "TR", "Msg").await;
    let pb0 = p0
        .create_publisher(
            QosKind::Specific(PublisherQos {
                partition: part("A"),
                ..Default::default()
            }),
            NO_LISTENER,
            NO_STATUS,
        )
        .await
        .expect("publisher");
    let sb0 = p0
        .create_subscriber(
            QosKind::Specific(SubscriberQos {
                partition: part("A"),
                ..Default::default()
            }),
            NO_LISTENER,
            NO_STATUS,
        )
        .await
        .expect("subscriber");
    let wobs = new_writer::<Msg>(
        &pb0,
        &tw0,
        DataWriterQos {
            reliability: reliable(100),
            history: keep_last(1),
            latency_budget: latency(Some(1000)),
            ..Default::default()
        },
    )
    .await;
    let robs = new_reader::<Msg>(
        &sb0,
        &tr0,
        DataReaderQos {
            reliability: reliable(100),
            history: keep_last(1),
            latency_budget: latency(Some(1000)),
            ..Default::default()
        },
    )
    .await;
    let mut parts: Vec<Option<(DomainParticipantAsync, TopicAsync, TopicAsync)>> = vec![None];
    for _ in 0..n_parts {
        let p = new_participant(&w, 0).await;
        let tw = new_topic::<Msg>(&p, "TW", "Msg").await;
        let tr = new_topic::<Msg>(&p, "TR", "Msg").await;
        parts.push(Some((p, tw, tr)));
    }
    // let the participants discover each other
    sim.sleep(2 * SEC).await;

    let mut model = Model::new(n_parts);
    let mut remotes: Vec<Option<Remote>> = Vec::new();
    let mut out = Outcome {
        reads: Vec::new(),
        quiet: Vec::new(),
        op_errors: Vec::new(),
        end_ns: 0,
    };
    let mut open: Vec<Option<(i64, BTreeSet<&'static str>)>> = vec![None; n_parts + 1];
    let mut unmatch_cause: Vec<Option<&'static str>> = Vec::new();
    let mut seq = 0u32;

    for (si, step) in steps.iter().enumerate() {
        for op in &step.ops {
            let before: Vec<usize> = (0..=n_parts).map(|p| model.matched_readers_on(p)).collect();
            let t_op = sim.now();
            let mut bound = SETTLE;
            let res: Result<(), String> = match op {
                Op::Create {
                    part: pi,
                    is_reader,
                    qos_ok,
                    part_ok,
                    reliable: rel,
                    ..
                } => {
                    let (p, tw, tr) = parts[*pi].as_ref().unwrap();
                    let pname = if *part_ok { "A" } else { "B" };
                    if *is_reader {
                        let sb = p
                            .create_subscriber(
                                QosKind::Specific(SubscriberQos {
                                    partition: part(pname),
                                    ..Default::default()
                                }),
                                NO_LISTENER,
                                NO_STATUS,
                            )
                            .await
                            .expect("subscriber");
                        let q = DataReaderQos {
                            reliability: if *rel { reliable(100) } else { best_effort() },
                            history: keep_last(1),
                            latency_budget: latency(if *qos_ok { None } else { Some(1) }),
                            ..Default::default()
                        };
                        let dr = new_reader::<Msg>(&sb, tw, q.clone()).await;
                        remotes.push(Some(Remote::Reader(sb, dr, q)));
                    } else {
                        let pb = p
                            .create_publisher(
                                QosKind::Specific(PublisherQos {
                                    partition: part(pname),
                                    ..Default::default()
                                }),
                                NO_LISTENER,
                                NO_STATUS,
                            )
                            .await
                            .expect("publisher");
                        let q = DataWriterQos {
                            reliability: reliable(100),
                            history: keep_last(1),
                            latency_budget: latency(if *qos_ok { Some(1) } else { None }),
                            ..Default::default()
                        };
                        let dw = new_writer::<Msg>(&pb, tr, q.clone()).await;
                        remotes.push(Some(Remote::Writer(pb, dw, q)));
                    }
                    Ok(())
                }
                Op::SetLatency { ep, ok } => match remotes[*ep].as_mut().unwrap() {
                    Remote::Reader(_, dr, q) => {
                        q.latency_budget = latency(if *ok { None } else { Some(1) });
                        dr.set_qos(QosKind::Specific(q.clone())).await.map_err(|e| err_name(&e))
                    }
                    Remote::Writer(_, dw, q) => {
                        q.latency_budget = latency(if *ok { Some(1) } else { None });
                        dw.set_qos(QosKind::Specific(q.clone())).await.map_err(|e| err_name(&e))
                    }
                },
                Op::UserData { ep, val } => match remotes[*ep].as_mut().unwrap() {
                    Remote::Reader(_, dr, q) => {
                        q.user_data = UserDataQosPolicy { value: vec![*val, 1] };
                        dr.set_qos(QosKind::Specific(q.clone())).await.map_err(|e| err_name(&e))
                    }
                    Remote::Writer(_, dw, q) => {
                        q.user_data = UserDataQosPolicy { value: vec![*val, 2] };
                        dw.set_qos(QosKind::Specific(q.clone())).await.map_err(|e| err_name(&e))
                    }
                },
                Op::Partition { ep, ok } => {
                    let pname = if *ok { "A" } else { "B" };
                    match remotes[*ep].as_ref().unwrap() {
                        Remote::Reader(sb, _, _) => sb
                            .set_qos(QosKind::Specific(SubscriberQos {
                                partition: part(pname),
                                ..Default::default()
                            }))
                            .await
                            .map_err(|e| err_name(&e)),
                        Remote::Writer(pb, _, _) => pb
                            .set_qos(QosKind::Specific(PublisherQos {
                                partition: part(pname),
                                ..Default::default()
                            }))
                            .await
                            .map_err(|e| err_name(&e)),
                    }
                }
                Op::Delete { ep } => match remotes[*ep].take().unwrap() {
                    Remote::Reader(sb, dr, _) => sb.delete_datareader(&dr).await.map_err(|e| err_name(&e)),
                    Remote::Writer(pb, dw, _) => pb.delete_datawriter(&dw).await.map_err(|e| err_name(&e)),
                },
                Op::DeleteParticipant { part: pi } => {
                    for (i, e) in model.eps.iter().enumerate() {
                        if e.part == *pi {
                            remotes[i] = None;
                        }
                    }
                    let (p, _, _) = parts[*pi].take().unwrap();
                    let r1 = p.delete_contained_entities().await.map_err(|e| err_name(&e));
                    let r2 = w.factory.delete_participant(&p).await.map_err(|e| err_name(&e));
                    r1.and(r2)
                }
                Op::Lease { part: pi } => {
                    w.net.set_partitioned(*pi, true);
                    sim.sleep(LEASE).await;
                    bound = LEASE_MARGIN;
                    Ok(())
                }
            };
            if let Err(e) = res {
                out.op_errors.push(format!("{}: {e}", op.describe()));
            }
            let was: Vec<bool> = model.eps.iter().map(|e| model.matched(e)).collect();
            model.apply(op);
            unmatch_cause.resize(model.eps.len(), None);
            for (i, e) in model.eps.iter().enumerate() {
                let is = model.matched(e);
                if was.get(i).copied().unwrap_or(false) && !is {
                    unmatch_cause[i] = Some(step.cause);
                } else if is {
                    unmatch_cause[i] = None;
                }
            }
            // traffic bookkeeping (writer observer only)
            let quiet_from = match op {
                Op::Lease { .. } => t_op + LEASE + LEASE_MARGIN,
                _ => t_op + SETTLE,
            };
            for p in 1..=n_parts {
                let now_n = model.matched_readers_on(p);
                if before[p] > 0 && now_n == 0 {
                    let causes: BTreeSet<&'static str> = model
                        .eps
                        .iter()
                        .enumerate()
                        .filter(|(_, e)| e.is_reader && e.part == p)
                        .filter_map(|(i, _)| unmatch_cause[i])
                        .collect();
                    open[p] = Some((quiet_from, causes));
                } else if now_n > 0 {
                    if let Some((from, cause)) = open[p].take() {
                        if from < t_op {
                            out.quiet.push((p, from, t_op, cause));
                        }
                    }
                }
            }
            // settling window
            let t_s = sim.now();
            loop {
                let wl = wobs.get_matched_subscriptions().await.map(|v| v.len() as i32).unwrap_or(-1);
                let rl = robs.get_matched_publications().await.map(|v| v.len() as i32).unwrap_or(-1);
                let agree = wl == model.side[0].cur && rl == model.side[1].cur;
                if sim.now() - t_s >= bound || (agree && !step.full_wait) {
                    break;
                }
                sim.sleep(250 * MS).await;
            }
            sim.sleep(500 * MS).await;
            // something to send for the writer observer
            seq += 1;
            let _ = sim.timeout(5 * SEC, wobs.write(msg(1, 0, seq, 16), None)).await;
            sim.sleep(300 * MS).await;
        }
        let n_reads = if step.double_read { 2 } else { 1 };
        for k in 0..n_reads {
            read_both(&sim, &wobs, &robs, &model, si, step.cause, k == 1, &mut out.reads).await;
        }
    }
    // final observation window for the traffic clause
    sim.sleep(SETTLE + 2 * SEC).await;
    seq += 1;
    let _ = sim.timeout(5 * SEC, wobs.write(msg(1, 0, seq, 16), None)).await;
    sim.sleep(3 * SEC).await;
    let last_cause = steps.last().map(|s| s.cause).unwrap_or("create");
    read_both(&sim, &wobs, &robs, &model, steps.len(), last_cause, false, &mut out.reads).await;
    let t_end = sim.now();
    for p in 1..=n_parts {
        if let Some((from, cause)) = open[p].take() {
            if from < t_end {
                out.quiet.push((p, from, t_end, cause));
            }
        }
    }
    out.end_ns = t_end;
    out
}

#[allow(clippy::too_many_arguments)]
async fn read_both(
    sim: &Sim,
    wobs: &DataWriterAsync<Msg>,
    robs: &DataReaderAsync<Msg>,
    model: &Model,
    step: usize,
    cause: &'static str,
    second: bool,
    reads: &mut Vec<Read>,
) {
    let wl = wobs.get_matched_subscriptions().await.map(|v| v.len() as i32).unwrap_or(-1);
    if let Ok(s) = wobs.get_publication_matched_status().await {
        reads.push(Read {
            step,
            cause,
            side: 0,
            at_ms: (sim.now() - EPOCH_NS) / MS,
            total: s.total_count,
            total_change: s.total_count_change,
            current: s.current_count,
            current_change: s.current_count_change,
            list_len: wl,
            model_cur: model.side[0].cur,
            model_lo: model.side[0].ever.len() as i32,
            model_hi: model.side[0].episodes,
            second,
        });
    }
    let rl = robs.get_matched_publications().await.map(|v| v.len() as i32).unwrap_or(-1);
    if let Ok(s) = robs.get_subscription_matched_status().await {
        reads.push(Read {
            step,
            cause,
            side: 1,
            at_ms: (sim.now() - EPOCH_NS) / MS,
            total: s.total_count,
            total_change: s.total_count_change,
            current: s.current_count,
            current_change: s.current_count_change,
            list_len: rl,
            model_cur: model.side[1].cur,
            model_lo: model.side[1].ever.len() as i32,
            model_hi: model.side[1].episodes,
            second,
        });
    }
}

fn read_json(r: &Read) -> Json {
    Json::obj()
        .set("after_step", r.step)
        .set("second_read_in_a_row", r.second)
        .set("side", ["writer", "reader"][r.side])
        .set("at_ms", r.at_ms)
        .set("total_count", r.total)
        .set("total_count_change", r.total_change)
        .set("current_count", r.current)
        .set("current_count_change", r.current_change)
        .set("matched_list_len", r.list_len)
        .set("model_current", r.model_cur)
        .set("model_total_range", format!("{}..={}", r.model_lo, r.model_hi))
}

fn run_case(shard: &Shard, rep: &mut Report, case: u64, trace: bool) {
    let cs = shard.case_seed(case);
    let mut rng = Rng::new(cs);
    let thorough = shard.tier == "thorough";
    let (n_parts, steps) = gen_history(&mut rng, thorough);
    let mut cfg = WorldConfig::default();
    cfg.sim.seed = cs;
    cfg.sim.policy = pick_policy(&mut rng);
    cfg.sim.clock_tick = *rng.pick(&[0i64, 0, 1, 1000]);
    cfg.sim.jitter_max = *rng.pick(&[0i64, 0, 1000, 1_000_000]);
    cfg.sim.max_polls = shard.args.u64("max-polls", 20_000_000);
    cfg.sim.max_virtual_ns = 4 * 3600 * SEC;
    let history: Vec<Json> = steps
        .iter()
        .enumerate()
        .map(|(i, s)| {
            Json::obj()
                .set("step", i)
                .set("cause", s.cause)
                .set("ops", s.ops.iter().map(|o| Json::Str(o.describe())).collect::<Vec<_>>())
                .set("full_settling_window", s.full_wait)
        })
        .collect();
    if trace {
        for h in &history {
            eprintln!("  {}", h.to_string());
        }
    }
    let steps2 = steps.clone();
    let t_wall = std::time::Instant::now();
    let (res, stats, net) = run_world(&cfg, move |w| scenario(w, n_parts, steps2));
    rep.eval();
    rep.stat("worlds", 1);
    rep.stat("worker_polls", stats.worker_polls as i128);
    rep.maxstat("max_virtual_s", ((stats.end_ns - EPOCH_NS) / SEC) as i128);
    let base = shard
        .base_replay("c16", case)
        .set("engine", "scen_disc")
        .set("remote_participants", n_parts)
        .set("history", Json::Arr(history.clone()));
    let panicked = report_panics(rep, &stats, &base);
    if trace {
        eprintln!(
            "  world: wall={:?} polls={} worker_polls={} end={}s stop={:?}",
            t_wall.elapsed(),
            stats.polls,
            stats.worker_polls,
            (stats.end_ns - EPOCH_NS) / SEC,
            stats.stop
        );
    }
    let Some(o) = res else {
        if !panicked {
            rep.inconclusive(format!("case {case}: scenario did not finish ({:?})", stats.stop));
        }
        return;
    };
    if !o.op_errors.is_empty() {
        // an operation of the history was refused: the model no longer describes the run
        for e in &o.op_errors {
            rep.set("operation_errors(no verdict)", e.clone());
        }
        rep.stat("worlds_with_refused_operation(no verdict)", 1);
        return;
    }
    let mut hist_hash = vcore::fnv_str(&Json::Arr(history.clone()).to_string());
    for s in &steps {
        rep.stat(&format!("steps_{}", s.cause), 1);
        rep.stat("operations", s.ops.len() as i128);
    }
    let mut diverged = [false, false];
    let mut prev: [(i32, i32); 2] = [(0, 0), (0, 0)];
    for r in &o.reads {
        hist_hash = vcore::mix(hist_hash, (r.total as u64) << 32 | (r.current as u64 & 0xffff) << 8 | r.side as u64);
        rep.stat("status_reads", 1);
        rep.maxstat("max_current_count", r.current as i128);
        rep.maxstat("max_total_count", r.total as i128);
        let side = ["writer", "reader"][r.side];
        if trace {
            eprintln!("  read {}", read_json(r).to_string());
        }
        let prev_side = prev[r.side];
        let witness = |field: &str| {
            base.clone()
                .set("field", field)
                .set("read", read_json(r))
                .set("previous_read_total_current", format!("{:?}", prev_side))
                .set(
                    "all_reads_of_this_side",
                    o.reads.iter().filter(|x| x.side == r.side).map(read_json).collect::<Vec<_>>(),
                )
        };
        // after the first divergence of a side its later reads carry the earlier defect along:
        // they are not judged (keeps the cause attribution exact)
        if diverged[r.side] {
            prev[r.side] = (r.total, r.current);
            continue;
        }
        // change fields: difference since the previous read of this status (model free)
        let exp_cc = r.current - prev[r.side].1;
        let exp_tc = r.total - prev[r.side].0;
        if r.current_change != exp_cc || r.total_change != exp_tc {
            diverged[r.side] = true;
            rep.violation(
                format!("field=change|cause={}|side={}", r.cause, side),
                format!(
                    "{side} matched status after step {} ({}): current_count {} -> {} but current_count_change = {}; total_count {} -> {} but total_count_change = {}",
                    r.step, r.cause, prev[r.side].1, r.current, r.current_change, prev[r.side].0, r.total, r.total_change
                ),
                witness("change"),
            );
        }
        prev[r.side] = (r.total, r.current);
        if r.current != r.model_cur {
            diverged[r.side] = true;
            rep.violation(
                format!("field=current|cause={}|side={}", r.cause, side),
                format!(
                    "{side} current_count = {} (matched list: {}) but {} remote endpoint(s) are matched per the history, read {} after step {} ({})",
                    r.current,
                    r.list_len,
                    r.model_cur,
                    if r.cause == "lease" { "lease + 10 s" } else { "after the settling window" },
                    r.step,
                    r.cause
                ),
                witness("current"),
            );
        }
        if r.total < r.model_lo || r.total > r.model_hi {
            diverged[r.side] = true;
            rep.violation(
                format!("field=total|cause={}|side={}", r.cause, side),
                format!(
                    "{side} total_count = {} but the history contains {} distinct matched endpoints / {} match episodes (step {}, {})",
                    r.total, r.model_lo, r.model_hi, r.step, r.cause
                ),
                witness("total"),
            );
        }
    }
    // traffic clause
    let log = net.take_sent_log();
    rep.stat("datagrams_logged", log.len() as i128);
    rep.stat("quiet_intervals_observed", o.quiet.len() as i128);
    for (p, from, to, causes) in &o.quiet {
        if causes.len() != 1 {
            // readers of this participant were un-matched by steps of different kinds: traffic
            // could not be attributed to one of them
            rep.stat("quiet_intervals_with_mixed_causes(not judged)", 1);
            continue;
        }
        let cause = causes.iter().next().unwrap();
        rep.stat("quiet_interval_seconds", ((to - from) / SEC) as i128);
        let offending: Vec<&SentRecord> = log
            .iter()
            .filter(|r| {
                r.src == 0
                    && r.class == Class::User
                    && r.at_ns > *from
                    && r.at_ns < *to
                    && r.dsts.contains(p)
                    && (r.summary.contains("DATA(") || r.summary.contains("HB(") || r.summary.contains("GAP(") || r.summary.contains("DATA_FRAG("))
            })
            .collect();
        if let Some(first) = offending.first() {
            rep.violation(
                format!("traffic_after_unmatch|cause={cause}"),
                format!(
                    "{} datagram(s) with DATA/HEARTBEAT/GAP of the observed writer addressed to P{p} later than the settling window although none of P{p}'s readers is matched any more ({}); first at +{} ms: {}",
                    offending.len(),
                    cause,
                    (first.at_ns - EPOCH_NS) / MS,
                    first.summary
                ),
                base.clone()
                    .set("participant", *p)
                    .set("quiet_from_ms", (from - EPOCH_NS) / MS)
                    .set("quiet_to_ms", (to - EPOCH_NS) / MS)
                    .set("offending_datagrams", offending.len())
                    .set("first_summary", first.summary.clone())
                    .set("first_at_ms", (first.at_ns - EPOCH_NS) / MS),
            );
        }
    }
    rep.nontrivial(hist_hash);
    if case < 64 {
        rep.sample(
            base.clone()
                .set("reads", o.reads.iter().take(12).map(read_json).collect::<Vec<_>>())
                .set("virtual_seconds", (o.end_ns - EPOCH_NS) / SEC),
        );
    }
}

pub fn run(shard: &Shard) -> Report {
    let mut rep = Report::new("C16");
    let trace = shard.args.has("trace") || shard.replay.is_some();
    let mut seen = BTreeSet::new();
    for case in shard.my_cases() {
        if !seen.insert(case) {
            continue;
        }
        if trace {
            eprintln!("case {case}");
        }
        run_case(shard, &mut rep, case, trace);
    }
    rep
}

#[allow(dead_code)]
fn unused(_: Duration) {}
