//! Shard report: what one engine process observed. The python runner merges shard reports,
//! applies KNOWN_FINDINGS.txt and writes evidence/<id>.json.
use crate::json::Json;
use std::collections::{BTreeMap, BTreeSet};

#[derive(Clone, Debug)]
pub struct Violation {
    /// seed-independent root-cause signature (see DESIGN.md 2.5)
    pub sig: String,
    /// human readable one-liner
    pub what: String,
    /// everything needed to replay (engine, scenario, params, seed, case index, witness)
    pub replay: Json,
}

#[derive(Default)]
pub struct Report {
    pub property: String,
    pub evaluations: u64,
    pub nontrivial: BTreeSet<u64>,
    pub violations: Vec<Violation>,
    pub violation_counts: BTreeMap<String, u64>,
    pub samples: Vec<Json>,
    pub stats: BTreeMap<String, i128>,
    pub maxstats: BTreeMap<String, i128>,
    pub sets: BTreeMap<String, BTreeSet<String>>,
    pub inconclusive: Vec<String>,
    pub max_samples: usize,
}

impl Report {
    pub fn new(property: &str) -> Self {
        Report {
            property: property.to_string(),
            max_samples: 4,
            ..Default::default()
        }
    }
    pub fn eval(&mut self) {
        self.evaluations += 1;
    }
    pub fn nontrivial(&mut self, h: u64) {
        if self.nontrivial.len() < 400_000 {
            self.nontrivial.insert(h);
        }
    }
    pub fn stat(&mut self, k: &str, n: i128) {
        *self.stats.entry(k.to_string()).or_insert(0) += n;
    }
    pub fn maxstat(&mut self, k: &str, n: i128) {
        let e = self.maxstats.entry(k.to_string()).or_insert(n);
        if n > *e {
            *e = n;
        }
    }
    pub fn set(&mut self, k: &str, v: impl Into<String>) {
        let s = self.sets.entry(k.to_string()).or_default();
        if s.len() < 2000 {
            s.insert(v.into());
        }
    }
    pub fn sample(&mut self, j: Json) {
        if self.samples.len() < self.max_samples {
            self.samples.push(j);
        }
    }
    pub fn violation(&mut self, sig: impl Into<String>, what: impl Into<String>, replay: Json) {
        let sig = sig.into();
        let c = self.violation_counts.entry(sig.clone()).or_insert(0);
        *c += 1;
        // keep the first 3 witnesses per signature
        if *c <= 3 {
            self.violations.push(Violation {
                sig,
                what: what.into(),
                replay,
            });
        }
    }
    pub fn inconclusive(&mut self, why: impl Into<String>) {
        if self.inconclusive.len() < 50 {
            self.inconclusive.push(why.into());
        }
    }
    /// Merge a report previously written with `to_json` (e.g. by a child process).
    pub fn absorb_json(&mut self, j: &Json) {
        self.evaluations += j.get("evaluations").and_then(|x| x.as_u64()).unwrap_or(0);
        if let Some(a) = j.get("nontrivial").and_then(|x| x.as_arr()) {
            for h in a {
                if let Some(s) = h.as_str() {
                    if let Ok(v) = u64::from_str_radix(s, 16) {
                        self.nontrivial(v);
                    }
                }
            }
        }
        if let Some(Json::Obj(m)) = j.get("violation_counts") {
            for (k, v) in m {
                *self.violation_counts.entry(k.clone()).or_insert(0) += v.as_u64().unwrap_or(0);
            }
        }
        if let Some(a) = j.get("violations").and_then(|x| x.as_arr()) {
            for v in a {
                let sig = v.get("sig").and_then(|x| x.as_str()).unwrap_or("").to_string();
                let have = self.violations.iter().filter(|x| x.sig == sig).count();
                if have < 3 {
                    self.violations.push(Violation {
                        sig,
                        what: v.get("what").and_then(|x| x.as_str()).unwrap_or("").to_string(),
                        replay: v.get("replay").cloned().unwrap_or(Json::Null),
                    });
                }
            }
        }
        if let Some(a) = j.get("samples").and_then(|x| x.as_arr()) {
            for s in a {
                self.sample(s.clone());
            }
        }
        if let Some(Json::Obj(m)) = j.get("stats") {
            for (k, v) in m {
                if let Json::Int(i) = v {
                    self.stat(k, *i);
                }
            }
        }
        if let Some(Json::Obj(m)) = j.get("maxstats") {
            for (k, v) in m {
                if let Json::Int(i) = v {
                    self.maxstat(k, *i);
                }
            }
        }
        if let Some(Json::Obj(m)) = j.get("sets") {
            for (k, v) in m {
                if let Some(a) = v.as_arr() {
                    for x in a {
                        if let Some(s) = x.as_str() {
                            self.set(k, s);
                        }
                    }
                }
            }
        }
        if let Some(a) = j.get("inconclusive").and_then(|x| x.as_arr()) {
            for x in a {
                if let Some(s) = x.as_str() {
                    self.inconclusive(s);
                }
            }
        }
    }

    pub fn to_json(&self) -> Json {
        let mut viol = Json::arr();
        for v in &self.violations {
            viol.push(
                Json::obj()
                    .set("sig", v.sig.clone())
                    .set("what", v.what.clone())
                    .set("replay", v.replay.clone()),
            );
        }
        let mut vc = Json::obj();
        for (k, v) in &self.violation_counts {
            vc.put(k, *v);
        }
        let mut stats = Json::obj();
        for (k, v) in &self.stats {
            stats.put(k, *v);
        }
        let mut maxstats = Json::obj();
        for (k, v) in &self.maxstats {
            maxstats.put(k, *v);
        }
        let mut sets = Json::obj();
        for (k, v) in &self.sets {
            sets.put(k, v.iter().cloned().collect::<Vec<_>>());
        }
        Json::obj()
            .set("property", self.property.clone())
            .set("evaluations", self.evaluations)
            .set(
                "nontrivial",
                self.nontrivial
                    .iter()
                    .map(|h| Json::Str(format!("{:x}", h)))
                    .collect::<Vec<_>>(),
            )
            .set("violations", viol)
            .set("violation_counts", vc)
            .set("samples", Json::Arr(self.samples.clone()))
            .set("stats", stats)
            .set("maxstats", maxstats)
            .set("sets", sets)
            .set("inconclusive", self.inconclusive.clone())
    }
    pub fn write(&self, path: &str) {
        let s = self.to_json().to_string();
        if path == "-" || path.is_empty() {
            println!("{}", s);
        } else {
            std::fs::write(path, s).expect("write report");
        }
    }
}

/// `--key value` style arguments.
#[derive(Clone, Debug, Default)]
pub struct Args {
    pub pos: Vec<String>,
    pub kv: BTreeMap<String, String>,
}

impl Args {
    pub fn parse() -> Args {
        Self::from_iter(std::env::args().skip(1))
    }
    pub fn from_iter(it: impl Iterator<Item = String>) -> Args {
        let mut a = Args::default();
        let v: Vec<String> = it.collect();
        let mut i = 0;
        while i < v.len() {
            if let Some(k) = v[i].strip_prefix("--") {
                if let Some((k, val)) = k.split_once('=') {
                    a.kv.insert(k.to_string(), val.to_string());
                } else if i + 1 < v.len() && !v[i + 1].starts_with("--") {
                    a.kv.insert(k.to_string(), v[i + 1].clone());
                    i += 1;
                } else {
                    a.kv.insert(k.to_string(), "1".to_string());
                }
            } else {
                a.pos.push(v[i].clone());
            }
            i += 1;
        }
        a
    }
    pub fn u64(&self, k: &str, d: u64) -> u64 {
        self.kv.get(k).and_then(|s| s.parse().ok()).unwrap_or(d)
    }
    pub fn str(&self, k: &str, d: &str) -> String {
        self.kv.get(k).cloned().unwrap_or_else(|| d.to_string())
    }
    pub fn has(&self, k: &str) -> bool {
        self.kv.contains_key(k)
    }
}
