//! Executable sequential model of the DDS 1.4 DataReader cache (OMG formal/2015-04-10, 2.2.2.5.1,
//! 2.2.2.5.3, 2.2.3) for SHARED ownership, and the comparison of returned collections with it.
//!
//! Freedom the specification leaves is modelled explicitly:
//!  * every invalid-data sample (dispose / unregister notification) is *optional*: the model accepts
//!    a collection with or without it and learns from the observation whether it exists;
//!  * the order of different instances inside one collection is free; with `max_samples` smaller
//!    than the number of matching samples any subset that is a prefix per instance is accepted;
//!  * an instance that is not alive, has no live writer and no stored sample may have been forgotten:
//!    its generation counts are no longer compared;
//!  * whether invalid samples / empty instances count towards resource limits is free: when the
//!    conventions disagree about a rejection the history is abandoned without a verdict.
use crate::hist::*;
use dust_dds::infrastructure::instance::InstanceHandle;
use std::collections::{BTreeMap, BTreeSet};

#[derive(Clone, Copy, PartialEq, Eq, Debug)]
pub enum IState {
    Alive,
    Disposed,
    NoWriters,
}
impl IState {
    pub fn bit(self) -> u8 {
        match self {
            IState::Alive => IS_ALIVE,
            IState::Disposed => IS_DISPOSED,
            IState::NoWriters => IS_NO_WRITERS,
        }
    }
    pub fn name(self) -> &'static str {
        match self {
            IState::Alive => "ALIVE",
            IState::Disposed => "NOT_ALIVE_DISPOSED",
            IState::NoWriters => "NOT_ALIVE_NO_WRITERS",
        }
    }
}

#[derive(Clone, Copy, PartialEq, Eq, Debug)]
pub enum Reason {
    Samples,
    Instances,
    Spi,
}
impl Reason {
    pub fn kind(self) -> &'static str {
        match self {
            Reason::Samples => "max_samples",
            Reason::Instances => "max_instances",
            Reason::Spi => "max_samples_per_instance",
        }
    }
}

/// One observed sample of a returned collection.
#[derive(Clone, Debug)]
pub struct Obs {
    pub valid: bool,
    /// (writer, seq) of the data, if valid
    pub id: Option<(u32, u32)>,
    pub dkey: Option<u32>,
    pub payload_ok: bool,
    pub handle: InstanceHandle,
    pub read: bool,
    pub view_new: bool,
    pub ist: IState,
    pub dgc: i32,
    pub nwgc: i32,
    pub srank: i32,
    pub grank: i32,
    pub agrank: i32,
    pub ts: Option<i64>,
}

impl Obs {
    pub fn short(&self) -> String {
        let id = match self.id {
            Some((w, s)) => format!("w{w}#{s}"),
            None => "invalid".to_string(),
        };
        format!(
            "{}[{},{},{},dg{},nw{},r{}/{}/{},t{}]",
            id,
            if self.read { "READ" } else { "NOT_READ" },
            if self.view_new { "NEW" } else { "NOT_NEW" },
            self.ist.name(),
            self.dgc,
            self.nwgc,
            self.srank,
            self.grank,
            self.agrank,
            self.ts.map(|t| t.to_string()).unwrap_or("-".into())
        )
    }
}

#[derive(Clone, Debug)]
pub struct MSample {
    pub valid: bool,
    pub w: u32,
    pub seq: u32,
    pub ts: i64,
    pub read: bool,
    pub dgc: i32,
    pub nwgc: i32,
    /// invalid samples whose existence has not been observed yet
    pub optional: bool,
}

#[derive(Clone, Debug)]
pub struct MInst {
    pub key: u32,
    pub ist: IState,
    pub view_new: bool,
    pub dgc: i32,
    pub nwgc: i32,
    pub live: BTreeSet<u32>,
    pub samples: Vec<MSample>,
    pub counts_unsure: bool,
    /// why the model expects the current view state ("first" | "rebirth" | "accessed")
    pub view_cause: &'static str,
    /// last change delivered for the instance since the view state expectation was set
    pub last_change: &'static str,
    /// a dispose / unregister was delivered since the application last accessed the instance
    pub na_since_access: bool,
    /// an unregister (without dispose) from one writer arrived while other writers of the instance
    /// were alive (sticky; groups downstream symptoms of one defect class in signatures)
    pub partial_unreg: bool,
    /// C25: stamps of all samples the model accepted (for ever)
    pub accepted_ts: Vec<i64>,
    /// C25: stamps that may or may not be in the filter's memory: every dispose / unregister
    /// notification (None) - the specification does not say whether TIME_BASED_FILTER applies to
    /// them - and data samples (their id) whose acceptance depends on such a stamp
    pub maybe_ts: Vec<(i64, Option<(u32, u32)>)>,
}

impl MInst {
    /// signature of a view-state mismatch: what the model expects and why
    pub fn view_sig(&self, obs_new: bool) -> String {
        if self.view_new {
            format!("view_state|exp=NEW({})|obs={}", self.view_cause, vs_name(obs_new))
        } else {
            format!(
                "view_state|exp=NOT_NEW|obs={}|dispose_or_unregister_since_last_access={}",
                vs_name(obs_new),
                if self.na_since_access { "yes" } else { "no" }
            )
        }
    }
    pub fn istate_sig(&self, obs: IState) -> String {
        format!(
            "instance_state|exp={}|obs={}|unregister_while_other_writers_alive_seen={}",
            self.ist.name(),
            obs.name(),
            if self.partial_unreg { "yes" } else { "no" }
        )
    }
}

#[derive(Clone, Debug)]
pub struct Finding {
    pub sig: String,
    pub what: String,
    pub fatal: bool,
}

#[derive(Clone, Copy, Debug, Default)]
pub struct Checks {
    pub sample_state: bool,
    pub view_state: bool,
    pub instance_state: bool,
    pub counts: bool,
    pub ranks: bool,
    pub stamps: bool,
    pub grouping: bool,
}

#[derive(Clone, Debug, PartialEq)]
pub enum Expect {
    Stored,
    Replaced,
    Filtered,
    Rejected(Vec<Reason>),
    StateChange,
    Unsure(String),
}

#[derive(Clone, Debug, PartialEq, Eq)]
pub enum Fate {
    Stored,
    Taken,
    Evicted,
    Rejected,
    Filtered,
}

pub struct Model {
    pub cfg: Cfg,
    pub checks: Checks,
    pub insts: BTreeMap<u32, MInst>,
    pub handles: BTreeMap<u32, InstanceHandle>,
    pub fate: BTreeMap<(u32, u32), (u32, i64, Fate)>,
    /// stamps of every valid sample presented so far per instance: (ts, still stored?, id)
    pub presented: BTreeMap<u32, Vec<(i64, (u32, u32))>>,
    pub stats: BTreeMap<&'static str, i64>,
    pub shape: u64,
    pub states_visited: BTreeSet<u64>,
    pub rejections_expected: i32,
    /// number of data samples delivered so far (set by the executor) and, per taken sample, its value at the take
    pub arrival_clock: u64,
    pub taken_at: BTreeMap<(u32, u32), u64>,
    /// C25: (arrival number, instance, stamp) of every dispose / unregister delivered
    pub c25_notifs: Vec<(u64, u32, i64)>,
}

fn ss_bit(read: bool) -> u8 {
    if read { SS_READ } else { SS_NOT_READ }
}
fn vs_bit(new: bool) -> u8 {
    if new { VS_NEW } else { VS_NOT_NEW }
}
fn vs_name(new: bool) -> &'static str {
    if new { "NEW" } else { "NOT_NEW" }
}

impl Model {
    pub fn new(cfg: &Cfg) -> Model {
        let all = Checks { sample_state: true, view_state: true, instance_state: true, counts: true, ranks: true, stamps: true, grouping: true };
        let checks = match cfg.prop.as_str() {
            "C20" => all,
            "C22" => Checks { view_state: true, instance_state: true, counts: true, ..Default::default() },
            "C23" => Checks { sample_state: true, ..Default::default() },
            _ => Checks::default(),
        };
        Model {
            cfg: cfg.clone(),
            checks,
            insts: BTreeMap::new(),
            handles: BTreeMap::new(),
            fate: BTreeMap::new(),
            presented: BTreeMap::new(),
            stats: BTreeMap::new(),
            shape: 0,
            states_visited: BTreeSet::new(),
            rejections_expected: 0,
            arrival_clock: 0,
            taken_at: BTreeMap::new(),
            c25_notifs: Vec::new(),
        }
    }
    pub fn stat(&mut self, k: &'static str, n: i64) {
        *self.stats.entry(k).or_insert(0) += n;
    }
    pub fn get(&self, k: &'static str) -> i64 {
        self.stats.get(k).copied().unwrap_or(0)
    }
    fn note(&mut self, token: &str) {
        self.shape = vcore::mix(self.shape, vcore::fnv_str(token));
    }
    pub fn note_shape(&mut self, token: &str) {
        self.note(token)
    }
    fn visit_state(&mut self) {
        // abstract state: per instance (state, view, #valid, #read, counts)
        let mut h = 0u64;
        for (i, (_, inst)) in self.insts.iter().enumerate() {
            let valid = inst.samples.iter().filter(|s| s.valid).count() as u64;
            let read = inst.samples.iter().filter(|s| s.read).count() as u64;
            let t = (inst.ist.bit() as u64) | (inst.view_new as u64) << 3 | valid.min(15) << 4 | read.min(15) << 8
                | (inst.dgc.min(7) as u64) << 12 | (inst.nwgc.min(7) as u64) << 15 | (inst.live.len() as u64) << 18;
            h = vcore::mix(h, t ^ ((i as u64) << 40));
        }
        self.states_visited.insert(h);
    }
    pub fn key_of(&self, h: &InstanceHandle) -> Option<u32> {
        self.handles.iter().find(|(_, v)| *v == h).map(|(k, _)| *k)
    }
    pub fn writer_live(&self, w: usize, key: u32) -> bool {
        self.insts.get(&key).map(|i| i.live.contains(&(w as u32))).unwrap_or(false)
    }
    pub fn knows(&self, key: u32) -> bool {
        self.insts.contains_key(&key)
    }

    fn reclaim_check(inst: &mut MInst) {
        if inst.ist != IState::Alive && inst.live.is_empty() && inst.samples.iter().all(|s| s.optional) {
            inst.counts_unsure = true;
        }
    }

    // -------------------------------------------------------------------------------------------
    // receptions

    pub fn deliver_data(&mut self, w: u32, key: u32, seq: u32, ts: i64) -> Expect {
        let cfg = self.cfg.clone();
        self.note(&format!("d{w}.{key}"));
        let known = self.insts.contains_key(&key);
        // TIME_BASED_FILTER (C25: KEEP_ALL, no limits). A sample closer than the separation to a
        // stamp the model is sure was accepted is filtered; one that is only close to a stamp that
        // may or may not be remembered (notification, or a data sample that itself depends on one) is
        // stored as *optional*: the model accepts it present or absent and learns from the reads.
        let mut c25_maybe = false;
        if cfg.min_sep_ms > 0 {
            let acc = self.insts.get(&key).map(|i| i.accepted_ts.clone()).unwrap_or_default();
            if acc.iter().any(|a| (ts - a).abs() < cfg.min_sep_ms) {
                self.fate.insert((w, seq), (key, ts, Fate::Filtered));
                self.stat("model_filtered", 1);
                self.note("filtered");
                return Expect::Filtered;
            }
            let maybe = self.insts.get(&key).map(|i| i.maybe_ts.clone()).unwrap_or_default();
            if maybe.iter().any(|(a, _)| (ts - a).abs() < cfg.min_sep_ms) {
                c25_maybe = true;
                self.stat("model_unsure_sample_near_notification_stamp", 1);
                self.note("maybe");
            }
        }
        // ---- resource limits under the counting conventions the specification leaves open:
        //   conv 0: only valid-data samples count; 1: invalid (notification) samples count too;
        //   2: additionally every known instance counts as an instance, even without samples;
        //   with_opt: data samples that a dispose/unregister notification may have pushed out of a
        //   full KEEP_LAST instance (still `optional` in the model) are counted / not counted.
        let count = |conv: u8, with_opt: bool, insts: &BTreeMap<u32, MInst>| -> (i64, i64, i64, bool, i64) {
            // (samples of this instance, total samples, instances, this instance present, valid samples of this instance)
            let cnt = |i: &MInst| -> i64 {
                i.samples.iter().filter(|s| if s.valid { with_opt || !s.optional } else { conv >= 1 }).count() as i64
            };
            let ci = insts.get(&key).map(cnt).unwrap_or(0);
            let ct: i64 = insts.values().map(cnt).sum();
            // an instance that still has a stored sample of ANY kind (data or dispose/unregister
            // notification) is held by the reader under every convention; only instances without
            // stored samples are open (conv 2)
            let holds = |i: &MInst| -> bool { i.samples.iter().any(|s| if s.valid { with_opt || !s.optional } else { true }) };
            let (ninst, present) = if conv == 2 {
                (insts.len() as i64, insts.contains_key(&key))
            } else {
                (insts.values().filter(|i| holds(i)).count() as i64, insts.get(&key).map(holds).unwrap_or(false))
            };
            let vi = insts.get(&key).map(|i| i.samples.iter().filter(|s| s.valid && (with_opt || !s.optional)).count()).unwrap_or(0) as i64;
            (ci, ct, ninst, present, vi)
        };
        let valid_inst = self.insts.get(&key).map(|i| i.samples.iter().filter(|s| s.valid).count()).unwrap_or(0) as i64;
        // for the model's own bookkeeping: with the possibly-evicted samples counted the oldest valid
        // sample goes; without them the new sample is appended - the resulting set is the same
        let at_depth = cfg.depth.map(|d| valid_inst >= d as i64).unwrap_or(false);
        let mut decisions: Vec<Vec<Reason>> = Vec::new();
        for with_opt in [true, false] {
            for conv in 0..3u8 {
                let (ci, ct, ninst, present, vi) = count(conv, with_opt, &self.insts);
                let at_depth_here = cfg.depth.map(|d| vi >= d as i64).unwrap_or(false);
                let mut r = Vec::new();
                if at_depth_here {
                    // replacement keeps every count unchanged; only an over-full total is doubtful
                    if cfg.max_samples.map(|m| ct > m as i64).unwrap_or(false) {
                        r.push(Reason::Samples);
                    }
                } else {
                    if cfg.max_samples.map(|m| ct >= m as i64).unwrap_or(false) {
                        r.push(Reason::Samples);
                    }
                    if cfg.max_instances.map(|m| !present && ninst >= m as i64).unwrap_or(false) {
                        r.push(Reason::Instances);
                    }
                    if cfg.max_spi.map(|m| ci >= m as i64).unwrap_or(false) {
                        r.push(Reason::Spi);
                    }
                }
                decisions.push(r);
            }
        }
        let any_reject = decisions.iter().any(|d| !d.is_empty());
        let all_reject = decisions.iter().all(|d| !d.is_empty());
        if any_reject && !all_reject {
            self.stat("model_unsure_limit_convention", 1);
            return Expect::Unsure("resource-limit counting conventions (invalid samples / empty instances / data sample possibly pushed out by a notification at depth) disagree".into());
        }
        // ---- instance life cycle
        let inst = self.insts.entry(key).or_insert_with(|| MInst {
            key,
            ist: IState::Alive,
            view_new: true,
            dgc: 0,
            nwgc: 0,
            live: BTreeSet::new(),
            samples: Vec::new(),
            counts_unsure: false,
            view_cause: "first",
            last_change: "none",
            na_since_access: false,
            partial_unreg: false,
            accepted_ts: Vec::new(),
            maybe_ts: Vec::new(),
        });
        if all_reject {
            let mut reasons: Vec<Reason> = Vec::new();
            for d in &decisions {
                for r in d {
                    if !reasons.contains(r) {
                        reasons.push(*r);
                    }
                }
            }
            // what a rejected sample does to the instance state is not specified: stop comparing it
            inst.counts_unsure = true;
            inst.live.insert(w);
            let fresh = !known;
            if fresh {
                // the instance may or may not be known to the reader now
                self.insts.remove(&key);
            }
            self.fate.insert((w, seq), (key, ts, Fate::Rejected));
            self.rejections_expected += 1;
            self.stat("model_rejections", 1);
            self.note("rejected");
            return Expect::Rejected(reasons);
        }
        inst.live.insert(w);
        let reborn = inst.ist != IState::Alive;
        match inst.ist {
            IState::Alive => {}
            IState::Disposed => {
                inst.ist = IState::Alive;
                inst.dgc += 1;
                inst.view_new = true;
                inst.view_cause = "rebirth";
            }
            IState::NoWriters => {
                inst.ist = IState::Alive;
                inst.nwgc += 1;
                inst.view_new = true;
                inst.view_cause = "rebirth";
            }
        }

        inst.last_change = "write";
        if c25_maybe {
            inst.maybe_ts.push((ts, Some((w, seq))));
        } else {
            inst.accepted_ts.push(ts);
        }
        let s = MSample { valid: true, w, seq, ts, read: false, dgc: inst.dgc, nwgc: inst.nwgc, optional: c25_maybe };
        let mut evicted = None;
        if at_depth {
            let pos = inst.samples.iter().position(|s| s.valid).expect("at depth");
            let old = inst.samples.remove(pos);
            evicted = Some((old.w, old.seq));
        }
        if cfg.by_source {
            let pos = inst.samples.iter().rposition(|x| x.ts <= ts).map(|p| p + 1).unwrap_or(0);
            inst.samples.insert(pos, s);
        } else {
            inst.samples.push(s);
        }
        self.fate.insert((w, seq), (key, ts, Fate::Stored));
        if reborn {
            self.stat("model_rebirths", 1);
        }
        if let Some(e) = evicted {
            if let Some(f) = self.fate.get_mut(&e) {
                f.2 = Fate::Evicted;
            }
            self.stat("model_replacements", 1);
            self.note("replaced");
            self.visit_state();
            return Expect::Replaced;
        }
        self.stat("model_stored", 1);
        self.visit_state();
        Expect::Stored
    }

    /// dispose (`unreg == false`) or unregister_instance from writer `w`
    pub fn deliver_not_alive(&mut self, w: u32, key: u32, ts: i64, unreg: bool) -> Expect {
        let auto = self.cfg.autodispose.get(w as usize).copied().unwrap_or(true);
        self.note(&format!("{}{w}.{key}", if unreg { "u" } else { "x" }));
        let Some(inst) = self.insts.get_mut(&key) else {
            return Expect::Unsure("state change for an instance unknown to the model".into());
        };
        let before = inst.ist;
        if unreg {
            inst.live.remove(&w);
            inst.last_change = if auto { "unregister_autodispose" } else { "unregister" };
        } else {
            inst.last_change = "dispose";
        }
        let dispose = !unreg || auto;
        match inst.ist {
            IState::Alive => {
                if dispose {
                    inst.ist = IState::Disposed;
                } else if inst.live.is_empty() {
                    inst.ist = IState::NoWriters;
                }
            }
            IState::Disposed => {}
            IState::NoWriters => {
                if dispose && self.cfg.min_sep_ms == 0 {
                    // the state chart has no NO_WRITERS -> DISPOSED edge; implementations differ
                    // (C25 does not judge instance states: it goes on)
                    self.stat("model_unsure_dispose_in_no_writers", 1);
                    return Expect::Unsure("dispose received while NOT_ALIVE_NO_WRITERS".into());
                }
            }
        }
        inst.na_since_access = true;
        if self.cfg.min_sep_ms > 0 {
            inst.maybe_ts.push((ts, None));
            self.c25_notifs.push((self.arrival_clock, key, ts));
        }
        // KEEP_LAST: whether a dispose / unregister notification occupies a history slot (and thereby
        // pushes out the oldest data sample of a full instance) is not specified
        if let Some(d) = self.cfg.depth {
            if inst.samples.iter().filter(|s| s.valid).count() >= d as usize {
                if let Some(s) = inst.samples.iter_mut().find(|s| s.valid) {
                    s.optional = true;
                }
            }
        }
        let (dgc, nwgc) = (inst.dgc, inst.nwgc);
        inst.samples.push(MSample { valid: false, w, seq: 0, ts, read: false, dgc, nwgc, optional: true });
        if before != inst.ist {
            let k = match inst.ist {
                IState::Disposed => "model_to_disposed",
                IState::NoWriters => "model_to_no_writers",
                IState::Alive => "model_to_alive",
            };
            self.stat(k, 1);
        } else if unreg && before == IState::Alive {
            inst.partial_unreg = true;
            self.stat("model_unregister_other_writers_alive", 1);
        }
        self.visit_state();
        Expect::StateChange
    }

    // -------------------------------------------------------------------------------------------
    // read / take

    fn matches(&self, inst: &MInst, s: &MSample, ss: u8, vs: u8, is: u8) -> bool {
        ss & ss_bit(s.read) != 0 && vs & vs_bit(inst.view_new) != 0 && is & inst.ist.bit() != 0
    }

    /// Compare the result of read/take/read_instance/take_instance (or one step of a next-instance
    /// walk, `sel = Inst(k)`) with the model and apply its effects.
    pub fn check_read(&mut self, op: &ReadOp, res: &Result<Vec<Obs>, String>) -> Vec<Finding> {
        let mut f: Vec<Finding> = Vec::new();
        let empty = Vec::new();
        let obs: &Vec<Obs> = match res {
            Ok(v) => v,
            Err(e) if e == "NoData" => &empty,
            Err(e) => {
                if let (Sel::Inst(k), "BadParameter") = (op.sel, e.as_str()) {
                    let has_required = self
                        .insts
                        .get(&k)
                        .map(|i| i.samples.iter().any(|s| !s.optional))
                        .unwrap_or(false);
                    if !has_required {
                        // unknown or possibly forgotten instance
                        return f;
                    }
                }
                f.push(Finding { sig: format!("unexpected_error|{e}"), what: format!("returned {e}"), fatal: true });
                return f;
            }
        };
        if let Ok(v) = res {
            if v.is_empty() {
                f.push(Finding { sig: "empty_collection_instead_of_nodata".into(), what: "Ok with an empty collection".into(), fatal: false });
            }
        }
        self.stat("collections_compared", 1);
        self.stat("samples_compared", obs.len() as i64);
        // ---- group by instance
        let mut groups: Vec<(u32, Vec<usize>)> = Vec::new();
        let mut closed: BTreeSet<u32> = BTreeSet::new();
        let mut last_key: Option<u32> = None;
        let mut grouping_ok = true;
        for (i, o) in obs.iter().enumerate() {
            let Some(key) = self.key_of(&o.handle) else {
                f.push(Finding { sig: "unknown_instance_handle".into(), what: format!("sample {} has an instance handle no writer reported", o.short()), fatal: true });
                return f;
            };
            if o.valid {
                if o.dkey != Some(key) {
                    f.push(Finding { sig: "instance_handle".into(), what: format!("sample {} with key {:?} carries the handle of key {key}", o.short(), o.dkey), fatal: true });
                    return f;
                }
                if !o.payload_ok {
                    f.push(Finding { sig: "data".into(), what: format!("payload of {} differs from what was written", o.short()), fatal: true });
                    return f;
                }
            }
            if last_key != Some(key) {
                if let Some(l) = last_key {
                    closed.insert(l);
                }
                if closed.contains(&key) {
                    grouping_ok = false;
                }
                last_key = Some(key);
            }
            match groups.iter_mut().find(|g| g.0 == key) {
                Some(g) => g.1.push(i),
                None => groups.push((key, vec![i])),
            }
        }
        if !grouping_ok && self.checks.grouping {
            f.push(Finding {
                sig: "grouping".into(),
                what: format!(
                    "samples of one instance are not consecutive in the returned collection: instances in order {:?}",
                    obs.iter().map(|o| self.key_of(&o.handle).unwrap_or(0)).collect::<Vec<_>>()
                ),
                fatal: false,
            });
        }
        if groups.len() >= 2 {
            self.stat("collections_with_several_instances", 1);
        }
        if op.max != MAX_ALL && obs.len() as i64 > op.max as i64 {
            f.push(Finding { sig: "max_samples_exceeded".into(), what: format!("{} samples returned, max_samples {}", obs.len(), op.max), fatal: true });
            return f;
        }
        if let Sel::Inst(k) = op.sel {
            if let Some(g) = groups.iter().find(|g| g.0 != k) {
                f.push(Finding { sig: "other_instance_returned".into(), what: format!("samples of instance k{} returned for instance k{k}", g.0), fatal: true });
                return f;
            }
        }
        let limited = obs.len() as i64 == op.max as i64;
        // ---- per instance prefix alignment
        struct Matched {
            key: u32,
            // (index in model samples, index in obs)
            pairs: Vec<(usize, usize)>,
            absent: Vec<usize>,
        }
        let mut matched: Vec<Matched> = Vec::new();
        let keys: Vec<u32> = match op.sel {
            Sel::All => {
                let mut k: Vec<u32> = self.insts.keys().cloned().collect();
                for g in &groups {
                    if !k.contains(&g.0) {
                        k.push(g.0);
                    }
                }
                k
            }
            Sel::Inst(k) => vec![k],
        };
        for key in keys {
            let oi: Vec<usize> = groups.iter().find(|g| g.0 == key).map(|g| g.1.clone()).unwrap_or_default();
            let Some(inst) = self.insts.get(&key) else {
                if let Some(&i) = oi.first() {
                    f.push(self.classify_extra(key, &obs[i], op));
                    return f;
                }
                continue;
            };
            let mut m = Matched { key, pairs: Vec::new(), absent: Vec::new() };
            let mut j = 0usize;
            let mut missing: Option<usize> = None;
            for (mi, s) in inst.samples.iter().enumerate() {
                if !self.matches(inst, s, op.ss, op.vs, op.is) {
                    continue;
                }
                if j >= oi.len() {
                    // not returned
                    if !limited {
                        if s.optional {
                            m.absent.push(mi);
                        } else if missing.is_none() {
                            missing = Some(mi);
                        }
                    }
                    continue;
                }
                let o = &obs[oi[j]];
                if s.optional {
                    if s.valid == o.valid && (if s.valid { o.id == Some((s.w, s.seq)) } else { o.ts == Some(s.ts) }) {
                        m.pairs.push((mi, oi[j]));
                        j += 1;
                    } else {
                        m.absent.push(mi);
                    }
                } else if s.valid == o.valid && (!s.valid || o.id == Some((s.w, s.seq))) && (s.valid || o.ts == Some(s.ts)) {
                    m.pairs.push((mi, oi[j]));
                    j += 1;
                } else {
                    // a required model sample is skipped or something else is in its place
                    let is_later_expected = inst.samples[mi + 1..].iter().any(|x| {
                        self.matches(inst, x, op.ss, op.vs, op.is)
                            && x.valid == o.valid
                            && (!x.valid || o.id == Some((x.w, x.seq)))
                            && (x.valid || o.ts == Some(x.ts))
                    });
                    if is_later_expected {
                        f.push(self.classify_missing(inst, s, op, obs.len()));
                    } else {
                        f.push(self.classify_extra(key, o, op));
                    }
                    return f;
                }
            }
            if j < oi.len() {
                f.push(self.classify_extra(key, &obs[oi[j]], op));
                return f;
            }
            if let Some(mi) = missing {
                f.push(self.classify_missing(inst, &inst.samples[mi], op, obs.len()));
                return f;
            }
            matched.push(m);
        }
        // ---- SampleInfo of the matched samples
        let ck = self.checks;
        for m in &matched {
            let inst = self.insts.get(&m.key).unwrap();
            let n = m.pairs.len();
            let mrsic = m.pairs.last().map(|(mi, _)| (inst.samples[*mi].dgc + inst.samples[*mi].nwgc) as i64);
            for (pos, (mi, oi)) in m.pairs.iter().enumerate() {
                let s = &inst.samples[*mi];
                let o = &obs[*oi];
                let tag = format!("instance k{} sample {}", m.key, o.short());
                if ck.sample_state && o.read != s.read {
                    f.push(Finding {
                        sig: format!("sample_state|exp={}", if s.read { "READ" } else { "NOT_READ" }),
                        what: format!("{tag}: expected sample_state {}", if s.read { "READ" } else { "NOT_READ" }),
                        fatal: true,
                    });
                }
                if ck.view_state && o.view_new != inst.view_new {
                    f.push(Finding {
                        sig: inst.view_sig(o.view_new),
                        what: format!(
                            "{tag}: expected view_state {} (set by: {}; last change received since: {})",
                            vs_name(inst.view_new),
                            inst.view_cause,
                            inst.last_change
                        ),
                        fatal: true,
                    });
                }
                if ck.instance_state && o.ist != inst.ist {
                    f.push(Finding {
                        sig: inst.istate_sig(o.ist),
                        what: format!(
                            "{tag}: expected instance_state {} (last change: {}, live writers known to the reader: {:?})",
                            inst.ist.name(),
                            inst.last_change,
                            inst.live
                        ),
                        fatal: true,
                    });
                }
                if ck.counts && !inst.counts_unsure {
                    if o.dgc != s.dgc {
                        f.push(Finding {
                            sig: format!(
                                "disposed_generation_count|{}|unregister_while_other_writers_alive_seen={}",
                                if o.dgc < s.dgc { "obs_lt_exp" } else { "obs_gt_exp" },
                                if inst.partial_unreg { "yes" } else { "no" }
                            ),
                            what: format!("{tag}: expected disposed_generation_count {}", s.dgc),
                            fatal: true,
                        });
                    }
                    if o.nwgc != s.nwgc {
                        f.push(Finding {
                            sig: format!(
                                "no_writers_generation_count|{}|unregister_while_other_writers_alive_seen={}",
                                if o.nwgc < s.nwgc { "obs_lt_exp" } else { "obs_gt_exp" },
                                if inst.partial_unreg { "yes" } else { "no" }
                            ),
                            what: format!("{tag}: expected no_writers_generation_count {}", s.nwgc),
                            fatal: true,
                        });
                    }
                }
                if ck.stamps && o.ts != Some(s.ts) {
                    f.push(Finding { sig: "source_timestamp".into(), what: format!("{tag}: expected source_timestamp t{}", s.ts), fatal: false });
                }
                if ck.ranks {
                    let exp_rank = (n - 1 - pos) as i32;
                    if o.srank != exp_rank {
                        f.push(Finding { sig: "sample_rank".into(), what: format!("{tag}: expected sample_rank {exp_rank} ({} samples of the instance follow in the collection)", exp_rank), fatal: false });
                    }
                    // the generation ranks are judged only when the generation counts of all returned
                    // samples of the instance agree with the model (a count mismatch has its own signature)
                    let counts_agree = m.pairs.iter().all(|(mi, oi)| {
                        obs[*oi].dgc == inst.samples[*mi].dgc && obs[*oi].nwgc == inst.samples[*mi].nwgc
                    });
                    if !inst.counts_unsure && counts_agree && !inst.partial_unreg {
                        let g = (s.dgc + s.nwgc) as i64;
                        let exp_g = mrsic.unwrap() - g;
                        if o.grank as i64 != exp_g {
                            f.push(Finding { sig: "generation_rank".into(), what: format!("{tag}: expected generation_rank {exp_g}"), fatal: false });
                        }
                        let exp_a = (inst.dgc + inst.nwgc) as i64 - g;
                        if o.agrank as i64 != exp_a {
                            f.push(Finding {
                                sig: format!("absolute_generation_rank|{}", if (o.agrank as i64) > exp_a { "obs_gt_exp" } else { "obs_lt_exp" }),
                                what: format!(
                                    "{tag}: expected absolute_generation_rank {exp_a} (instance generation {} - sample generation {g})",
                                    inst.dgc + inst.nwgc
                                ),
                                fatal: false,
                            });
                        }
                    }
                }
            }
        }
        // ---- effects
        let mut any_mask = op.ss != SS_ANY || op.vs != VS_ANY || op.is != IS_ANY;
        if op.max != MAX_ALL {
            any_mask = true;
        }
        if any_mask && !obs.is_empty() {
            self.stat("collections_with_masks_or_max", 1);
        }
        for m in matched {
            let inst = self.insts.get_mut(&m.key).unwrap();
            for (mi, oi) in &m.pairs {
                let s = &mut inst.samples[*mi];
                if s.optional && s.valid {
                    // C25: the sample was accepted after all: its stamp is in the filter's memory
                    let id = (s.w, s.seq);
                    if let Some(p) = inst.maybe_ts.iter().position(|(_, i)| *i == Some(id)) {
                        let (t, _) = inst.maybe_ts.remove(p);
                        inst.accepted_ts.push(t);
                    }
                }
                s.optional = false;
                if s.valid {
                    let o = &obs[*oi];
                    self.presented.entry(m.key).or_default().push((o.ts.unwrap_or(s.ts), (s.w, s.seq)));
                }
            }
            if !m.pairs.is_empty() {
                if inst.view_new {
                    inst.view_new = false;
                }
                inst.view_cause = "accessed";
                inst.last_change = "none";
                inst.na_since_access = false;
            }
            let mut remove: Vec<usize> = m.absent.clone();
            for mi in &m.absent {
                let s = &inst.samples[*mi];
                if s.valid {
                    let id = (s.w, s.seq);
                    let was_maybe = inst.maybe_ts.iter().position(|(_, i)| *i == Some(id));
                    if let Some(ft) = self.fate.get_mut(&id) {
                        ft.2 = if was_maybe.is_some() { Fate::Filtered } else { Fate::Evicted };
                    }
                    if let Some(p) = was_maybe {
                        inst.maybe_ts.remove(p);
                    }
                }
            }
            for (mi, _) in &m.pairs {
                if op.take {
                    let s = &inst.samples[*mi];
                    if s.valid {
                        if let Some(ft) = self.fate.get_mut(&(s.w, s.seq)) {
                            ft.2 = Fate::Taken;
                        }
                        self.taken_at.insert((s.w, s.seq), self.arrival_clock);
                    }
                    remove.push(*mi);
                } else {
                    inst.samples[*mi].read = true;
                }
            }
            remove.sort();
            remove.dedup();
            for mi in remove.into_iter().rev() {
                inst.samples.remove(mi);
            }
            Self::reclaim_check(inst);
        }
        self.note(&format!("r{}", obs.len().min(9)));
        self.visit_state();
        f
    }

    fn classify_extra(&self, key: u32, o: &Obs, op: &ReadOp) -> Finding {
        let prop = self.cfg.prop.as_str();
        let tag = format!("instance k{key}: unexpected sample {}", o.short());
        if !o.valid {
            // an invalid sample the model does not hold: never a verdict (their existence is free)
            return Finding { sig: "~unsure_invalid_sample".into(), what: tag, fatal: true };
        }
        let id = o.id.unwrap();
        let Some((fkey, fts, fate)) = self.fate.get(&id).cloned() else {
            return Finding { sig: "phantom_sample".into(), what: format!("{tag}: never written"), fatal: true };
        };
        if fkey != key {
            return Finding { sig: "instance_handle".into(), what: format!("{tag}: was written to k{fkey}"), fatal: true };
        }
        let inst = self.insts.get(&key);
        match fate {
            Fate::Stored => {
                // stored but not expected here: a mask was not honoured, or order within the instance
                if let Some(inst) = inst {
                    if let Some(s) = inst.samples.iter().find(|s| s.valid && (s.w, s.seq) == id) {
                        if op.vs & vs_bit(inst.view_new) == 0 || (self.checks.view_state && o.view_new != inst.view_new) {
                            return Finding {
                                sig: inst.view_sig(o.view_new),
                                what: format!("{tag}: returned for view-state mask {} but the instance's view state is {} (set by: {}; last change since: {})", vs_str(op.vs), vs_name(inst.view_new), inst.view_cause, inst.last_change),
                                fatal: true,
                            };
                        }
                        if op.is & inst.ist.bit() == 0 {
                            return Finding {
                                sig: inst.istate_sig(o.ist),
                                what: format!("{tag}: returned for instance-state mask {} but the instance is {}", is_str(op.is), inst.ist.name()),
                                fatal: true,
                            };
                        }
                        if op.ss & ss_bit(s.read) == 0 {
                            return Finding {
                                sig: format!("sample_state|exp={}", if s.read { "READ" } else { "NOT_READ" }),
                                what: format!("{tag}: returned for sample-state mask {} but the sample is {}", ss_str(op.ss), if s.read { "READ" } else { "NOT_READ" }),
                                fatal: true,
                            };
                        }
                        return Finding { sig: "order_within_instance".into(), what: format!("{tag}: not in storage order"), fatal: true };
                    }
                }
                Finding { sig: "selection|other".into(), what: tag, fatal: true }
            }
            Fate::Taken => Finding { sig: "taken_sample_returned_again".into(), what: tag, fatal: true },
            Fate::Evicted => {
                if prop == "C18" || prop == "C20" || prop == "C22" || prop == "C23" {
                    let newest_missing = inst
                        .map(|i| i.samples.iter().rev().find(|s| s.valid).map(|s| (s.w, s.seq)))
                        .flatten();
                    Finding {
                        sig: "~evicted_sample_present".into(),
                        what: format!("{tag}: should have been replaced by a newer sample (KEEP_LAST); newest expected {:?}", newest_missing),
                        fatal: true,
                    }
                } else {
                    Finding { sig: "~evicted_sample_present".into(), what: tag, fatal: true }
                }
            }
            Fate::Rejected => Finding { sig: "~rejected_sample_present".into(), what: tag, fatal: true },
            Fate::Filtered => {
                // C25: which earlier presented / accepted sample is it too close to?
                let sep = self.cfg.min_sep_ms;
                let acc = inst.map(|i| i.accepted_ts.clone()).unwrap_or_default();
                let near: Vec<i64> = acc.iter().cloned().filter(|a| (a - fts).abs() < sep).collect();
                Finding {
                    sig: "~filtered_sample_present".into(),
                    what: format!("{tag}: stamp t{fts} is closer than {sep} ms to accepted stamp(s) {near:?}"),
                    fatal: true,
                }
            }
        }
    }

    fn classify_missing(&self, inst: &MInst, s: &MSample, op: &ReadOp, n_obs: usize) -> Finding {
        let what = if s.valid {
            format!(
                "instance k{}: stored sample w{}#{} (t{}, {}) matches the masks ss={} vs={} is={} but was not returned ({} samples returned, max_samples {})",
                inst.key,
                s.w,
                s.seq,
                s.ts,
                if s.read { "READ" } else { "NOT_READ" },
                ss_str(op.ss),
                vs_str(op.vs),
                is_str(op.is),
                n_obs,
                if op.max == MAX_ALL { "MAX".to_string() } else { op.max.to_string() }
            )
        } else {
            format!("instance k{}: invalid sample (t{}) not returned", inst.key, s.ts)
        };
        let sig = if !s.valid {
            "~unsure_invalid_sample".to_string()
        } else if n_obs == 0 {
            "~missing|nodata".to_string()
        } else {
            "~missing".to_string()
        };
        Finding { sig, what, fatal: true }
    }

    /// expected number of stored valid samples per instance (diagnostics)
    pub fn stored_ids(&self, key: u32) -> Vec<(u32, u32)> {
        self.insts.get(&key).map(|i| i.samples.iter().filter(|s| s.valid).map(|s| (s.w, s.seq)).collect()).unwrap_or_default()
    }

    /// Instances that currently have at least one *required* sample matching the masks, and those
    /// that only have optional ones.
    pub fn matching_instances(&self, ss: u8, vs: u8, is: u8) -> (Vec<u32>, Vec<u32>) {
        let mut req = Vec::new();
        let mut opt = Vec::new();
        for (k, inst) in &self.insts {
            let m: Vec<&MSample> = inst.samples.iter().filter(|s| self.matches(inst, s, ss, vs, is)).collect();
            if m.iter().any(|s| !s.optional) {
                req.push(*k);
            } else if !m.is_empty() {
                opt.push(*k);
            }
        }
        (req, opt)
    }
}
