//! Reader-cache semantics (C18..C25): model-based monitoring through the public async API in the
//! simulation. `scen_rc <c18..c25> --seed S --shard i --nshards n --cases N --tier T --out F [--replay F]`
#[path = "../../scen/src/common.rs"]
mod common;
mod hist;
mod model;
mod own;
mod run;
mod wlim;

use common::Shard;
use hist::*;
use run::Outcome;
use simnet::*;
use std::collections::BTreeSet;
use vcore::{Args, Json, Report, Rng};

fn policy_of(p: u8) -> Policy {
    match p {
        0 => Policy::Fifo,
        1 => Policy::Random,
        _ => Policy::Lifo,
    }
}

/// One world per history. Deterministic function of the history.
fn execute(h: &Hist, trace: bool, max_polls: u64) -> (Option<Outcome>, RunStats) {
    let mut cfg = WorldConfig::default();
    cfg.sim.seed = vcore::mix(vcore::fnv_str(&h.cfg.class()), h.cfg.policy as u64 + 17);
    cfg.sim.policy = policy_of(h.cfg.policy);
    cfg.sim.clock_tick = h.cfg.clock_tick;
    cfg.sim.jitter_max = h.cfg.jitter;
    cfg.sim.max_polls = max_polls;
    let h2 = h.clone();
    let (res, stats, _net) = run_world(&cfg, move |w| async move {
        match h2.cfg.prop.as_str() {
            "C24" => own::scenario(w, h2, trace).await,
            "C19W" | "C19WL" => wlim::scenario(w, h2, trace).await,
            _ => run::scenario(w, h2, trace).await,
        }
    });
    (res, stats)
}

fn sigs_of(h: &Hist, max_polls: u64) -> BTreeSet<String> {
    let (out, stats) = execute(h, false, max_polls);
    let mut s: BTreeSet<String> = BTreeSet::new();
    if let Some(o) = out {
        for f in o.findings {
            s.insert(f.sig);
        }
    }
    for p in &stats.panics {
        if matches!(p.task, TaskKind::Worker | TaskKind::Listener) {
            s.insert(format!("panic|{}|{}", p.sym, vcore::normalize_msg(&p.msg)));
        }
    }
    s
}

/// Delta debugging (ddmin) on the operation list, then a few configuration simplifications.
fn shrink(h: &Hist, sig: &str, max_polls: u64, budget: usize) -> (Hist, usize) {
    let mut cur = h.clone();
    let mut runs = 0usize;
    let test = |cand: &Hist, runs: &mut usize| -> bool {
        *runs += 1;
        sigs_of(cand, max_polls).contains(sig)
    };
    let mut n = 2usize;
    while cur.ops.len() >= 2 && runs < budget {
        let len = cur.ops.len();
        let chunk = len.div_ceil(n);
        let mut reduced = false;
        let mut start = 0;
        while start < len && runs < budget {
            let end = (start + chunk).min(len);
            let mut cand = cur.clone();
            cand.ops.drain(start..end);
            if !cand.ops.is_empty() && test(&cand, &mut runs) {
                cur = cand;
                n = (n - 1).max(2);
                reduced = true;
                break;
            }
            start = end;
        }
        if !reduced {
            if n >= len {
                break;
            }
            n = (2 * n).min(len);
        }
    }
    // single removals once more (ddmin granularity 1 may have been cut by the budget)
    let mut i = 0;
    while i < cur.ops.len() && cur.ops.len() > 1 && runs < budget {
        let mut cand = cur.clone();
        cand.ops.remove(i);
        if test(&cand, &mut runs) {
            cur = cand;
        } else {
            i += 1;
        }
    }
    // configuration: quiet scheduling, fewer writers
    for step in 0..4 {
        if runs >= budget {
            break;
        }
        let mut cand = cur.clone();
        match step {
            0 => {
                cand.cfg.policy = 0;
                cand.cfg.clock_tick = 0;
                cand.cfg.jitter = 0;
            }
            1 => {
                let used = cand
                    .ops
                    .iter()
                    .filter_map(|o| match o {
                        Op::Write { w, .. } | Op::Dispose { w, .. } | Op::Unreg { w, .. } | Op::DeleteWriter { w } => Some(*w),
                        _ => None,
                    })
                    .max()
                    .unwrap_or(0);
                if used + 1 < cand.cfg.n_writers {
                    cand.cfg.n_writers = used + 1;
                } else {
                    continue;
                }
            }
            2 => {
                if cand.cfg.max_instances.is_some() && cand.cfg.prop != "C19" && !cand.cfg.prop.starts_with("C19W") {
                    cand.cfg.max_instances = None;
                } else {
                    continue;
                }
            }
            _ => {
                if cand.cfg.max_samples.is_some() && cand.cfg.prop == "C18" {
                    cand.cfg.max_samples = None;
                } else {
                    continue;
                }
            }
        }
        if cand.cfg != cur.cfg && test(&cand, &mut runs) {
            cur = cand;
        }
    }
    (cur, runs)
}

fn outcome_json(o: &Outcome) -> Json {
    let mut st = Json::obj();
    for (k, v) in &o.stats {
        st.put(k, *v);
    }
    Json::obj()
        .set("findings", o.findings.iter().map(|f| Json::obj().set("sig", f.sig.clone()).set("what", f.what.clone()).set("op_index", f.op_index)).collect::<Vec<_>>())
        .set("abandoned_without_verdict", o.abandoned.clone())
        .set("stats", st)
}

struct Driver<'a> {
    shard: &'a Shard,
    rep: Report,
    prop: String,
    max_polls: u64,
    shrunk: BTreeSet<String>,
    last_trace: Vec<String>,
}

impl<'a> Driver<'a> {
    fn run_history(&mut self, h: &Hist, case: u64, replaying: bool) {
        let trace_flag = self.shard.args.has("trace");
        let (out, stats) = execute(h, trace_flag || replaying, self.max_polls);
        self.last_trace = out.as_ref().map(|o| o.trace.clone()).unwrap_or_default();
        self.rep.eval();
        self.rep.stat("worker_polls", stats.worker_polls as i128);
        self.rep.maxstat("max_virtual_ms", ((stats.end_ns - EPOCH_NS) / MS) as i128);
        let base = self.shard.base_replay(&format!("scen_rc/{}", h.cfg.prop), case);
        // ---- panics
        let mut dds_panic = false;
        for p in &stats.panics {
            match p.task {
                TaskKind::Worker | TaskKind::Listener => {
                    dds_panic = true;
                    let sig = format!("panic|{}|{}", p.sym, vcore::normalize_msg(&p.msg));
                    let what = format!("DDS {:?} task panicked at {}: {}", p.task, p.location, p.msg);
                    self.report(h, &sig, &what, h.ops.len(), &base, replaying);
                }
                TaskKind::Local => {
                    // a panic inside a dust-dds API call made by the scenario is judged by the
                    // scenario itself (status getter probe); anything else is a harness problem
                    if !p.location.contains("/dds/src/") {
                        self.rep.inconclusive(format!("case {case}: harness task panicked at {}: {}", p.location, p.msg));
                    }
                }
            }
        }
        let Some(o) = out else {
            if !dds_panic {
                self.rep.inconclusive(format!("case {case}: scenario did not finish ({:?})", stats.stop));
            }
            return;
        };
        if trace_flag {
            eprintln!("case {case}: {}", h.cfg.to_json().to_string());
            for l in &o.trace {
                eprintln!("  {l}");
            }
            eprintln!("  => findings {:?} abandoned {:?} inconclusive {:?}", o.findings.iter().map(|f| &f.sig).collect::<Vec<_>>(), o.abandoned, o.inconclusive);
        }
        if let Some(why) = &o.inconclusive {
            if !dds_panic {
                self.rep.inconclusive(format!("case {case}: {why}"));
            }
            return;
        }
        for (k, v) in &o.stats {
            self.rep.stat(k, *v as i128);
        }
        self.rep.stat("ops_executed", o.ops_executed as i128);
        self.rep.stat("model_states_visited(sum over histories)", o.states.len() as i128);
        self.rep.maxstat("max_ops_in_a_history", h.ops.len() as i128);
        if o.abandoned.is_some() {
            self.rep.stat("histories_abandoned_without_verdict", 1);
        }
        self.rep.set("history", match h.cfg.depth {
            None => "KEEP_ALL".to_string(),
            Some(d) => format!("KEEP_LAST({d})"),
        });
        if o.nontrivial {
            let mut hsh = o.shape;
            for s in &o.states {
                hsh = vcore::mix(hsh, *s);
            }
            self.rep.nontrivial(hsh);
            self.rep.stat("histories_nontrivial", 1);
        }
        if case / self.shard.nshards < 2 && !replaying {
            self.rep.sample(Json::obj().set("case", case).set("history", h.to_json()).set("outcome", outcome_json(&o)));
        }
        for f in &o.findings {
            self.report(h, &f.sig, &f.what, f.op_index, &base, replaying);
        }
    }

    fn report(&mut self, h: &Hist, sig: &str, what: &str, op_index: usize, base: &Json, replaying: bool) {
        let mut replay = base.clone();
        let no_shrink = self.shard.args.has("no-shrink") || replaying;
        if !self.shrunk.contains(sig) && !no_shrink {
            self.shrunk.insert(sig.to_string());
            let budget = self.shard.args.u64("shrink-budget", 300) as usize;
            let (small, runs) = shrink(h, sig, self.max_polls, budget);
            let (o2, _) = execute(&small, true, self.max_polls);
            let mut what2 = what.to_string();
            let mut trace = Vec::new();
            if let Some(o2) = o2 {
                if let Some(f) = o2.findings.iter().find(|f| f.sig == sig) {
                    what2 = f.what.clone();
                }
                trace = o2.trace;
            }
            self.rep.stat("shrink_runs", runs as i128);
            replay = replay
                .set("history", small.to_json())
                .set("shrunk_from_ops", h.ops.len())
                .set("shrink_runs", runs)
                .set("observed_trace", trace);
            self.rep.violation(sig.to_string(), what2, replay);
        } else {
            replay = replay.set("history", h.to_json()).set("failing_op_index", op_index).set("shrunk", false);
            if replaying {
                replay = replay.set("observed_trace", self.last_trace.clone());
            }
            self.rep.violation(sig.to_string(), what.to_string(), replay);
        }
    }
}

fn main() {
    let args = Args::parse();
    let sub = args.pos.first().cloned().unwrap_or_default();
    let prop = sub.to_uppercase();
    if !["C18", "C19", "C20", "C21", "C22", "C23", "C24", "C25"].contains(&prop.as_str()) {
        eprintln!("unknown subcommand {sub}");
        std::process::exit(3);
    }
    let shard = Shard::from_args(args);
    let thorough = shard.tier == "thorough";
    if !shard.out.is_empty() && shard.out != "-" && !shard.args.has("child") {
        simnet::hang::install(&prop.to_uppercase(), &shard.out);
    }
    let mut d = Driver {
        shard: &shard,
        rep: Report::new(&prop),
        prop: prop.clone(),
        max_polls: shard.args.u64("max-polls", 3_000_000),
        shrunk: BTreeSet::new(),
        last_trace: Vec::new(),
    };
    if let Some(r) = &shard.replay {
        // re-run the witnesses' (shrunk) histories
        let mut n = 0u64;
        if let Some(ws) = r.get("witnesses").and_then(|w| w.as_arr()) {
            for w in ws {
                let Some(hj) = w.get("replay").and_then(|r| r.get("history")) else { continue };
                let Some(h) = Hist::from_json(hj) else {
                    d.rep.inconclusive("replay file: cannot parse history".to_string());
                    continue;
                };
                let case = w.get("replay").and_then(|r| r.get("case")).and_then(|c| c.as_u64()).unwrap_or(n);
                d.run_history(&h, case, true);
                n += 1;
            }
        }
        if n == 0 {
            d.rep.inconclusive("replay file has no witness with a history".to_string());
        }
    } else {
        for case in shard.my_cases() {
            let mut rng = Rng::new(shard.case_seed(case));
            let h = if d.prop == "C19" && case % 5 == 4 { wlim::generate(&mut rng, thorough) } else { generate(&d.prop, &mut rng, thorough) };
            d.run_history(&h, case, false);
        }
    }
    d.rep.write(&shard.out);
}
