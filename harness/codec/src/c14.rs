//! C14: timestamps and durations survive the conversion to the RTPS wire types and back exactly;
//! Duration/Time arithmetic yields normalised values and is monotone.
//!
//! Conversion pairs (all public `From` impls that exist between the DDS and the wire types):
//!   Duration|behavior : infrastructure::time::Duration -> rtps::behavior_types::Duration -> back
//!   Duration|msgtime  : infrastructure::time::Duration -> rtps_messages::types::Time      -> back
//!   Time|msgtime      : infrastructure::time::Time -> transport::types::Time
//!                         -> rtps_messages::types::Time -> transport::types::Time -> back
//!     (the path a source timestamp takes through INFO_TS)
use crate::{Run, util};
use dust_dds::infrastructure::time::{Duration, Time};
use dust_dds::rtps::behavior_types::Duration as BehDuration;
use dust_dds::rtps_messages::types::Time as MsgTime;
use dust_dds::transport::types::Time as TrTime;
use vcore::{Json, Report, Rng};

const NS: u64 = 1_000_000_000;
const SECS: [i32; 7] = [0, 1, 2, 59, 86_400, i32::MAX - 1, i32::MAX];
const PAIRS: [&str; 3] = ["Duration|via=behavior", "Duration|via=msgtime", "Time|via=msgtime"];

#[inline(always)]
fn convert(pair: usize, s: i32, n: u32) -> (i32, u32) {
    match pair {
        0 => {
            let w: BehDuration = Duration::new(s, n).into();
            let b: Duration = w.into();
            (b.sec(), b.nanosec())
        }
        1 => {
            let w: MsgTime = Duration::new(s, n).into();
            let b: Duration = w.into();
            (b.sec(), b.nanosec())
        }
        _ => {
            let t: TrTime = Time::new(s, n).into();
            let w: MsgTime = t.into();
            let t2: TrTime = w.into();
            let b: Time = t2.into();
            (b.sec(), b.nanosec())
        }
    }
}

#[derive(Default)]
struct SigAcc {
    /// number of (ns, sec) round trips with this signature
    count: u64,
    /// number of distinct ns values (counted at the first second value)
    ns_values: u64,
    smallest: Vec<(u32, i32, i32, u32)>,
}

struct Conv {
    acc: Vec<SigAcc>,
    evals: u64,
    ok: u64,
    ns_done: u64,
    bucket_seen: Vec<u8>, // (pair, sec, bucket) x outcome bitmask
}

impl Conv {
    fn new() -> Self {
        Conv {
            acc: (0..36).map(|_| SigAcc::default()).collect(),
            evals: 0,
            ok: 0,
            ns_done: 0,
            bucket_seen: vec![0u8; 3 * SECS.len() * 1000],
        }
    }
    #[inline(always)]
    fn one_ns(&mut self, n: u32) {
        self.ns_done += 1;
        let bucket = (n / 1_000_000) as usize;
        for pair in 0..3 {
            for (si, &s) in SECS.iter().enumerate() {
                let (bs, bn) = convert(pair, s, n);
                self.evals += 1;
                let idx = (pair * SECS.len() + si) * 1000 + bucket;
                if bs == s && bn == n {
                    self.ok += 1;
                    self.bucket_seen[idx] |= 1;
                } else {
                    self.bucket_seen[idx] |= 2;
                    self.fail(pair, s, n, bs, bn, si == 0);
                }
            }
        }
    }
    #[inline(always)]
    fn fail(&mut self, pair: usize, s: i32, n: u32, bs: i32, bn: u32, first_sec: bool) {
        let diff = (bs as i128 * NS as i128 + bn as i128) - (s as i128 * NS as i128 + n as i128);
        // class index: 0 denormalized, 1..=9 off_by -4..+4, 10 seconds_changed, 11 large
        let class = if bn as u64 >= NS {
            0
        } else if diff.abs() <= 4 {
            (diff + 5) as usize
        } else if bs != s && bn == n {
            10
        } else {
            11
        };
        let a = &mut self.acc[pair * 12 + class];
        a.count += 1;
        if first_sec {
            a.ns_values += 1;
        }
        if a.smallest.len() < 3 {
            a.smallest.push((n, s, bs, bn));
        }
    }
    fn sig(idx: usize) -> String {
        let class = match idx % 12 {
            0 => "denormalized".to_string(),
            c @ 1..=9 => format!("off_by={:+}ns", c as i64 - 5),
            10 => "seconds_changed".to_string(),
            _ => "off_by=large".to_string(),
        };
        format!("roundtrip|type={}|{}", PAIRS[idx / 12], class)
    }
}

/// ns values every run covers regardless of the sample (quick tier): range ends, decades,
/// powers of two, halves.
fn boundary_values() -> Vec<u32> {
    let mut v: Vec<u64> = Vec::new();
    for x in 0..=4096u64 {
        v.push(x);
        v.push(NS - 1 - x);
    }
    let mut p = 1u64;
    while p < NS {
        for d in 0..3 {
            v.push(p + d);
            v.push(p.saturating_sub(d));
        }
        p *= 2;
    }
    let mut p = 10u64;
    while p < NS {
        for m in 1..10 {
            for d in 0..3 {
                v.push(p * m + d);
                v.push((p * m).saturating_sub(d));
            }
        }
        p *= 10;
    }
    for k in 1..1000u64 {
        v.push(k * 1_000_000);
        v.push(k * 1_000_000 - 1);
        v.push(k * 1_000_000 + 1);
    }
    v.retain(|x| *x < NS);
    v.sort();
    v.dedup();
    v.into_iter().map(|x| x as u32).collect()
}

// ---------------------------------------------------------------- arithmetic

type SN = (i32, u32);

fn total(x: SN) -> i128 {
    x.0 as i128 * NS as i128 + x.1 as i128
}
fn from_total(t: i128) -> Option<SN> {
    let s = t.div_euclid(NS as i128);
    let n = t.rem_euclid(NS as i128);
    if s < i32::MIN as i128 || s > i32::MAX as i128 {
        None
    } else {
        Some((s as i32, n as u32))
    }
}
fn fits(x: i128) -> bool {
    x >= i32::MIN as i128 + 2 && x <= i32::MAX as i128 - 2
}

fn gen_sec(rng: &mut Rng) -> i32 {
    match rng.below(12) {
        0 => 0,
        1 => 1,
        2 => -1,
        3 => i32::MAX,
        4 => i32::MAX - 1,
        5 => i32::MIN,
        6 => i32::MIN + 1,
        7 => rng.range(-5, 5) as i32,
        8 => rng.range(i32::MAX as i64 - 5, i32::MAX as i64) as i32,
        9 => rng.range(0, 2_000_000_000) as i32,
        10 => rng.range(i32::MIN as i64, i32::MAX as i64) as i32,
        _ => rng.range(0, 100_000) as i32,
    }
}
fn gen_ns(rng: &mut Rng) -> u32 {
    match rng.below(8) {
        0 => 0,
        1 => 1,
        2 => (NS - 1) as u32,
        3 => 500_000_000,
        4 => 499_999_999,
        5 => (NS - 1 - rng.below(10)) as u32,
        _ => rng.below(NS) as u32,
    }
}
fn gen_sn(rng: &mut Rng) -> SN {
    (gen_sec(rng), gen_ns(rng))
}
/// a value >= x, close to it or unrelated
fn gen_ge(rng: &mut Rng, x: SN) -> SN {
    let t = total(x);
    let d: i128 = match rng.below(6) {
        0 => 0,
        1 => 1,
        2 => NS as i128 - 1,
        3 => NS as i128,
        4 => rng.below(3 * NS) as i128,
        _ => rng.below(1 << 40) as i128,
    };
    from_total(t + d).unwrap_or(x)
}

#[derive(Clone, Copy, PartialEq)]
enum Op {
    DurAdd,
    DurSub,
    TimeAddDur,
    TimeSubTime,
}
impl Op {
    fn name(self) -> &'static str {
        match self {
            Op::DurAdd => "duration_add",
            Op::DurSub => "duration_sub",
            Op::TimeAddDur => "time_add_duration",
            Op::TimeSubTime => "time_sub_time",
        }
    }
    fn is_add(self) -> bool {
        matches!(self, Op::DurAdd | Op::TimeAddDur)
    }
    fn apply(self, a: SN, b: SN) -> SN {
        match self {
            Op::DurAdd => {
                let r = Duration::new(a.0, a.1) + Duration::new(b.0, b.1);
                (r.sec(), r.nanosec())
            }
            Op::DurSub => {
                let r = Duration::new(a.0, a.1) - Duration::new(b.0, b.1);
                (r.sec(), r.nanosec())
            }
            Op::TimeAddDur => {
                let r = Time::new(a.0, a.1) + Duration::new(b.0, b.1);
                (r.sec(), r.nanosec())
            }
            Op::TimeSubTime => {
                let r = Time::new(a.0, a.1) - Time::new(b.0, b.1);
                (r.sec(), r.nanosec())
            }
        }
    }
    /// exact result and whether any (intermediate or final) seconds value comes near the i32 limits
    fn exact(self, a: SN, b: SN) -> (i128, bool) {
        let (t, secs) = if self.is_add() {
            (total(a) + total(b), a.0 as i128 + b.0 as i128)
        } else {
            (total(a) - total(b), a.0 as i128 - b.0 as i128)
        };
        let s = t.div_euclid(NS as i128);
        (t, !(fits(secs) && fits(s)))
    }
}

fn sn_json(x: SN) -> Json {
    Json::obj().set("sec", x.0).set("nanosec", x.1)
}

fn arith_case(r: &mut Report, op: Op, a: SN, a2: SN, b: SN, b2: SN, record: bool) {
    let replay = Json::obj()
        .set("kind", "arith")
        .set("op", op.name())
        .set("a", sn_json(a))
        .set("a2", sn_json(a2))
        .set("b", sn_json(b))
        .set("b2", sn_json(b2));
    let res = util::guarded(|| (op.apply(a, b), op.apply(a2, b), op.apply(a, b2)));
    r.eval();
    r.stat(&format!("arith_{}", op.name()), 1);
    let (r_ab, r_a2b, r_ab2) = match res {
        Ok(x) => x,
        Err(p) => {
            r.violation(
                util::panic_sig(&p),
                format!("{} panicked for a={a:?} a2={a2:?} b={b:?} b2={b2:?}: {} at {}", op.name(), p.msg, p.loc),
                replay,
            );
            return;
        }
    };
    let (e_ab, sat_ab) = op.exact(a, b);
    let (_, sat_a2b) = op.exact(a2, b);
    let (_, sat_ab2) = op.exact(a, b2);
    let region = |s: bool| if s { "saturating" } else { "normal" };
    r.stat(if sat_ab { "arith_saturating_region" } else { "arith_normal_region" }, 1);
    // normalised
    for (x, y, res, sat) in [(a, b, r_ab, sat_ab), (a2, b, r_a2b, sat_a2b), (a, b2, r_ab2, sat_ab2)] {
        if res.1 as u64 >= NS {
            r.violation(
                format!("denormalized|op={}|region={}", op.name(), region(sat)),
                format!("{}({x:?}, {y:?}) = {res:?}: nanosec >= 10^9", op.name()),
                replay.clone(),
            );
        }
    }
    // agreement with exact integer arithmetic where no saturation can be involved
    if !sat_ab && total(r_ab) != e_ab {
        r.violation(
            format!("wrong_result|op={}|region=normal", op.name()),
            format!(
                "{}({a:?}, {b:?}) = {r_ab:?} (= {} ns), exact result is {} ns",
                op.name(),
                total(r_ab),
                e_ab
            ),
            replay.clone(),
        );
    }
    // monotone in the left operand: a <= a2  =>  op(a,b) <= op(a2,b)
    if total(a) <= total(a2) && r_ab > r_a2b {
        r.violation(
            format!("non_monotone|op={}|region={}", op.name(), region(sat_ab || sat_a2b)),
            format!(
                "{op}: a={a:?} <= a2={a2:?} but {op}(a,b)={r_ab:?} > {op}(a2,b)={r_a2b:?} with b={b:?}",
                op = op.name()
            ),
            replay.clone(),
        );
    }
    // monotone in the right operand: b <= b2  =>  add: op(a,b) <= op(a,b2); sub: op(a,b) >= op(a,b2)
    if total(b) <= total(b2) {
        let bad = if op.is_add() { r_ab > r_ab2 } else { r_ab < r_ab2 };
        if bad {
            r.violation(
                format!("non_monotone|op={}|region={}", op.name(), region(sat_ab || sat_ab2)),
                format!(
                    "{op}: b={b:?} <= b2={b2:?} but {op}(a,b)={r_ab:?} {} {op}(a,b2)={r_ab2:?} with a={a:?}",
                    if op.is_add() { ">" } else { "<" },
                    op = op.name()
                ),
                replay.clone(),
            );
        }
    }
    if record {
        let cls = |x: SN| {
            let s = match x.0 {
                0 => "0",
                i32::MAX => "max",
                i32::MIN => "min",
                s if s < 0 => "neg",
                _ => "pos",
            };
            let n = match x.1 {
                0 => "0",
                999_999_999 => "max",
                n if n < 500_000_000 => "lo",
                _ => "hi",
            };
            format!("{s}/{n}")
        };
        let carry = if op.is_add() {
            (a.1 as u64 + b.1 as u64) >= NS
        } else {
            a.1 < b.1
        };
        r.nontrivial(util::hash_str(&format!(
            "arith|{}|{}|{}|carry={}|sat={}",
            op.name(),
            cls(a),
            cls(b),
            carry,
            sat_ab
        )));
    }
}

fn new_case(r: &mut Report, s: i32, n: u32) {
    // Duration::new / Time::new accept any u32 nanosecond count and must normalise it
    let replay = Json::obj().set("kind", "new").set("sec", s).set("nanosec", n);
    let res = util::guarded(|| {
        let d = Duration::new(s, n);
        let t = Time::new(s, n);
        ((d.sec(), d.nanosec()), (t.sec(), t.nanosec()))
    });
    r.eval();
    r.stat("arith_new", 1);
    match res {
        Err(p) => r.violation(
            util::panic_sig(&p),
            format!("Duration::new/Time::new({s}, {n}) panicked: {} at {}", p.msg, p.loc),
            replay,
        ),
        Ok((d, t)) => {
            let exact = s as i128 * NS as i128 + n as i128;
            let sat = !fits(exact.div_euclid(NS as i128));
            for (ty, x) in [("Duration", d), ("Time", t)] {
                if x.1 as u64 >= NS {
                    r.violation(
                        format!("denormalized|op={ty}::new|region={}", if sat { "saturating" } else { "normal" }),
                        format!("{ty}::new({s}, {n}) = {x:?}: nanosec >= 10^9"),
                        replay.clone(),
                    );
                } else if !sat && total(x) != exact {
                    r.violation(
                        format!("wrong_result|op={ty}::new|region=normal"),
                        format!("{ty}::new({s}, {n}) = {x:?}, exact value is {exact} ns"),
                        replay.clone(),
                    );
                }
            }
            r.nontrivial(util::hash_str(&format!("new|carry={}|sat={}", n as u64 / NS, sat)));
        }
    }
}

fn parse_sn(j: Option<&Json>) -> SN {
    let s = j.and_then(|x| x.get("sec")).and_then(|x| x.as_i64()).unwrap_or(0) as i32;
    let n = j.and_then(|x| x.get("nanosec")).and_then(|x| x.as_i64()).unwrap_or(0) as u32;
    (s, n)
}

pub fn run(run: &Run) -> Report {
    let mut r = Report::new("C14");
    let mut conv = Conv::new();
    if let Some(rep) = &run.replay {
        for w in util::replay_objects(rep) {
            match w.get("kind").and_then(|k| k.as_str()).unwrap_or("") {
                "conv" => {
                    let n = w.get("nanosec").and_then(|x| x.as_u64()).unwrap_or(0) as u32;
                    conv.one_ns(n);
                }
                "arith" => {
                    let op = match w.get("op").and_then(|x| x.as_str()).unwrap_or("") {
                        "duration_add" => Op::DurAdd,
                        "duration_sub" => Op::DurSub,
                        "time_add_duration" => Op::TimeAddDur,
                        _ => Op::TimeSubTime,
                    };
                    arith_case(
                        &mut r,
                        op,
                        parse_sn(w.get("a")),
                        parse_sn(w.get("a2")),
                        parse_sn(w.get("b")),
                        parse_sn(w.get("b2")),
                        true,
                    );
                }
                "new" => {
                    let s = w.get("sec").and_then(|x| x.as_i64()).unwrap_or(0) as i32;
                    let n = w.get("nanosec").and_then(|x| x.as_u64()).unwrap_or(0) as u32;
                    new_case(&mut r, s, n);
                }
                _ => r.inconclusive("replay witness without kind"),
            }
        }
        finish_conv(&mut r, conv);
        return r;
    }

    // ---- conversions
    let exhaustive = run.cases >= NS;
    if exhaustive {
        let (lo, hi) = run.my_range(NS);
        for n in lo..hi {
            conv.one_ns(n as u32);
        }
        r.stat("conv_exhaustive_shards", 1);
    } else {
        // stratified sample: one value per stride, position inside the stride drawn from the seed;
        // boundaries are covered completely by shard 0.
        if run.shard == 0 {
            for n in boundary_values() {
                conv.one_ns(n);
            }
        }
        let cases = run.cases.max(1);
        let (lo, hi) = run.my_range(cases);
        for k in lo..hi {
            let start = (k as u128 * NS as u128 / cases as u128) as u64;
            let end = ((k as u128 + 1) * NS as u128 / cases as u128) as u64;
            let span = (end - start).max(1);
            let n = start + vcore::mix(run.seed, k) % span;
            conv.one_ns(n as u32);
        }
    }
    r.sample(
        Json::obj()
            .set("kind", "conversion")
            .set("pairs", PAIRS.iter().map(|s| Json::s(*s)).collect::<Vec<_>>())
            .set("seconds", SECS.iter().map(|s| Json::Int(*s as i128)).collect::<Vec<_>>())
            .set("example", {
                let n = 123_456_789u32;
                let (s, bn) = convert(0, 1, n);
                format!("Duration(1 s, {n} ns) -> behavior Duration -> Duration({s} s, {bn} ns)")
            }),
    );

    // ---- arithmetic
    let arith_total = (run.cases / 10).clamp(100_000, 50_000_000);
    let (lo, hi) = run.my_range(arith_total);
    for i in lo..hi {
        let mut rng = Rng::new(vcore::mix(run.seed ^ 0xA14, i));
        let op = *rng.pick(&[Op::DurAdd, Op::DurSub, Op::TimeAddDur, Op::TimeSubTime]);
        let a = gen_sn(&mut rng);
        let b = gen_sn(&mut rng);
        let a2 = gen_ge(&mut rng, a);
        let b2 = gen_ge(&mut rng, b);
        if i - lo < 2 {
            let res = op.apply(a, b);
            r.sample(
                Json::obj()
                    .set("kind", "arithmetic")
                    .set("op", op.name())
                    .set("a", sn_json(a))
                    .set("b", sn_json(b))
                    .set("result", sn_json(res)),
            );
        }
        arith_case(&mut r, op, a, a2, b, b2, true);
        if i % 16 == 0 {
            let s = gen_sec(&mut rng);
            let n = match rng.below(4) {
                0 => rng.next_u32(),
                1 => u32::MAX - rng.below(4) as u32,
                2 => (NS + rng.below(3)) as u32 - 1,
                _ => gen_ns(&mut rng),
            };
            new_case(&mut r, s, n);
        }
    }
    finish_conv(&mut r, conv);
    r
}

fn finish_conv(r: &mut Report, conv: Conv) {
    r.evaluations += conv.evals;
    r.stat("conv_roundtrips", conv.evals as i128);
    r.stat("conv_roundtrips_exact", conv.ok as i128);
    r.stat("conv_ns_values", conv.ns_done as i128);
    for (i, m) in conv.bucket_seen.iter().enumerate() {
        for bit in [1u8, 2u8] {
            if m & bit != 0 {
                r.nontrivial(vcore::mix(0xC14, (i as u64) << 2 | bit as u64));
            }
        }
    }
    for (idx, a) in conv.acc.into_iter().enumerate() {
        if a.count == 0 {
            continue;
        }
        let sig = Conv::sig(idx);
        r.stat(&format!("ns_values_failing|{sig}"), a.ns_values as i128);
        if let Some(first) = a.smallest.first() {
            r.maxstat(&format!("neg_smallest_failing_ns|{sig}"), -(first.0 as i128));
        }
        for (n, s, bs, bn) in &a.smallest {
            r.violations.push(vcore::Violation {
                sig: sig.clone(),
                what: format!(
                    "{} ({s} s, {n} ns) -> {} -> ({bs} s, {bn} ns); {} nanosecond values of this shard's range fail this way",
                    if idx / 12 == 2 { "Time" } else { "Duration" },
                    ["rtps::behavior_types::Duration", "rtps_messages::types::Time", "transport::types::Time -> rtps_messages::types::Time"][idx / 12],
                    a.ns_values
                ),
                replay: Json::obj().set("kind", "conv").set("nanosec", *n).set("sec", *s),
            });
        }
        *r.violation_counts.entry(sig).or_insert(0) += a.count;
    }
}
