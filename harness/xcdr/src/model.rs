//! Own model of XTypes types and values (an enum tree). Oracles work on this model only and never ask
//! dust-dds what was generated. Includes the seeded generator, JSON (de)serialisation for samples and
//! replay, shape classes for signatures and a structural shrinker.
use std::collections::BTreeSet;
use std::rc::Rc;
use vcore::{Json, Rng};

#[derive(Clone, Copy, Debug, PartialEq, Eq, Hash, PartialOrd, Ord)]
pub enum Prim {
    Bool,
    Byte,
    I8,
    U8,
    I16,
    U16,
    I32,
    U32,
    I64,
    U64,
    F32,
    F64,
    F128,
    Char8,
}

pub const ALL_PRIMS: [Prim; 14] = [
    Prim::Bool,
    Prim::Byte,
    Prim::I8,
    Prim::U8,
    Prim::I16,
    Prim::U16,
    Prim::I32,
    Prim::U32,
    Prim::I64,
    Prim::U64,
    Prim::F32,
    Prim::F64,
    Prim::F128,
    Prim::Char8,
];

impl Prim {
    pub fn size(self) -> usize {
        match self {
            Prim::Bool | Prim::Byte | Prim::I8 | Prim::U8 | Prim::Char8 => 1,
            Prim::I16 | Prim::U16 => 2,
            Prim::I32 | Prim::U32 | Prim::F32 => 4,
            Prim::I64 | Prim::U64 | Prim::F64 => 8,
            Prim::F128 => 16,
        }
    }
    pub fn name(self) -> &'static str {
        match self {
            Prim::Bool => "bool",
            Prim::Byte => "byte",
            Prim::I8 => "i8",
            Prim::U8 => "u8",
            Prim::I16 => "i16",
            Prim::U16 => "u16",
            Prim::I32 => "i32",
            Prim::U32 => "u32",
            Prim::I64 => "i64",
            Prim::U64 => "u64",
            Prim::F32 => "f32",
            Prim::F64 => "f64",
            Prim::F128 => "f128",
            Prim::Char8 => "char8",
        }
    }
    pub fn from_name(s: &str) -> Option<Prim> {
        ALL_PRIMS.iter().copied().find(|p| p.name() == s)
    }
    pub fn is_byte_like(self) -> bool {
        matches!(self, Prim::Byte | Prim::U8)
    }
}

#[derive(Clone, Copy, Debug, PartialEq, Eq, Hash, PartialOrd, Ord)]
pub enum Ext {
    Final,
    Appendable,
    Mutable,
}
impl Ext {
    pub fn name(self) -> &'static str {
        match self {
            Ext::Final => "final",
            Ext::Appendable => "appendable",
            Ext::Mutable => "mutable",
        }
    }
    pub fn from_name(s: &str) -> Ext {
        match s {
            "appendable" => Ext::Appendable,
            "mutable" => Ext::Mutable,
            _ => Ext::Final,
        }
    }
}

#[derive(Clone, Debug, PartialEq)]
pub enum Ty {
    Prim(Prim),
    /// bound 0 = unbounded
    Str { bound: u32 },
    WStr { bound: u32 },
    Enum(Rc<EnumTy>),
    Struct(Rc<StructTy>),
    Union(Rc<UnionTy>),
    /// bound 0 = unbounded
    Seq { elem: Box<Ty>, bound: u32 },
    Arr { elem: Box<Ty>, len: u32 },
}

#[derive(Clone, Debug, PartialEq)]
pub struct EnumTy {
    pub name: String,
    pub bits: u8,
    pub literals: Vec<(String, i32)>,
    /// whether the literals are declared as members of the dust-dds DynamicType (XML style) or the
    /// member list is left empty (derive style)
    pub declared: bool,
}

#[derive(Clone, Debug, PartialEq)]
pub struct Member {
    pub name: String,
    pub id: u32,
    pub ty: Ty,
    pub key: bool,
    pub optional: bool,
    pub must_understand: bool,
}

#[derive(Clone, Debug, PartialEq)]
pub struct StructTy {
    pub name: String,
    pub ext: Ext,
    pub members: Vec<Member>,
}

#[derive(Clone, Debug, PartialEq)]
pub struct Case {
    pub name: String,
    pub id: u32,
    pub labels: Vec<i32>,
    pub is_default: bool,
    pub ty: Option<Ty>,
}

#[derive(Clone, Debug, PartialEq)]
pub struct UnionTy {
    pub name: String,
    pub ext: Ext,
    pub disc: Ty,
    pub cases: Vec<Case>,
}

#[derive(Clone, Debug, PartialEq)]
pub enum Val {
    Bool(bool),
    /// Byte and U8
    U8(u8),
    I8(i8),
    I16(i16),
    U16(u16),
    I32(i32),
    U32(u32),
    I64(i64),
    U64(u64),
    /// bit pattern
    F32(u32),
    F64(u64),
    F128(i128),
    /// 8-bit character (ISO latin-1 code point)
    Char(u8),
    Str(String),
    Enum(i32),
    /// one entry per member in declaration order; None = absent optional
    Struct(Vec<Option<Val>>),
    /// discriminator value (typed by the discriminator type), selected case index, member value
    Union {
        disc: Box<Val>,
        sel: Option<usize>,
        val: Option<Box<Val>>,
    },
    List(Vec<Val>),
    /// sequence/array of Byte or U8 (canonical form for those element types)
    Bytes(Vec<u8>),
}

impl Val {
    pub fn as_i64(&self) -> Option<i64> {
        Some(match self {
            Val::Bool(b) => *b as i64,
            Val::U8(x) => *x as i64,
            Val::I8(x) => *x as i64,
            Val::I16(x) => *x as i64,
            Val::U16(x) => *x as i64,
            Val::I32(x) => *x as i64,
            Val::U32(x) => *x as i64,
            Val::I64(x) => *x,
            Val::U64(x) => *x as i64,
            Val::Char(x) => *x as i64,
            Val::Enum(x) => *x as i64,
            _ => return None,
        })
    }
}

// ------------------------------------------------------------------------------------------------
// JSON
// ------------------------------------------------------------------------------------------------

pub fn ty_to_json(t: &Ty) -> Json {
    match t {
        Ty::Prim(p) => Json::s(p.name()),
        Ty::Str { bound } => Json::obj().set("k", "string").set("bound", *bound),
        Ty::WStr { bound } => Json::obj().set("k", "wstring").set("bound", *bound),
        Ty::Enum(e) => Json::obj()
            .set("k", "enum")
            .set("name", e.name.clone())
            .set("bits", e.bits)
            .set("declared", e.declared)
            .set(
                "literals",
                e.literals
                    .iter()
                    .map(|(n, v)| Json::Arr(vec![Json::s(n.clone()), Json::i(*v)]))
                    .collect::<Vec<_>>(),
            ),
        Ty::Struct(s) => Json::obj()
            .set("k", "struct")
            .set("name", s.name.clone())
            .set("ext", s.ext.name())
            .set(
                "members",
                s.members
                    .iter()
                    .map(|m| {
                        let mut j = Json::obj()
                            .set("name", m.name.clone())
                            .set("id", m.id)
                            .set("ty", ty_to_json(&m.ty));
                        if m.key {
                            j.put("key", true);
                        }
                        if m.optional {
                            j.put("optional", true);
                        }
                        if m.must_understand {
                            j.put("mu", true);
                        }
                        j
                    })
                    .collect::<Vec<_>>(),
            ),
        Ty::Union(u) => Json::obj()
            .set("k", "union")
            .set("name", u.name.clone())
            .set("ext", u.ext.name())
            .set("disc", ty_to_json(&u.disc))
            .set(
                "cases",
                u.cases
                    .iter()
                    .map(|c| {
                        let mut j = Json::obj()
                            .set("name", c.name.clone())
                            .set("id", c.id)
                            .set("labels", c.labels.clone());
                        if c.is_default {
                            j.put("default", true);
                        }
                        if let Some(t) = &c.ty {
                            j.put("ty", ty_to_json(t));
                        }
                        j
                    })
                    .collect::<Vec<_>>(),
            ),
        Ty::Seq { elem, bound } => Json::obj()
            .set("k", "seq")
            .set("bound", *bound)
            .set("elem", ty_to_json(elem)),
        Ty::Arr { elem, len } => Json::obj()
            .set("k", "arr")
            .set("len", *len)
            .set("elem", ty_to_json(elem)),
    }
}

fn jbool(j: &Json, k: &str) -> bool {
    j.get(k).and_then(|x| x.as_bool()).unwrap_or(false)
}
fn ju32(j: &Json, k: &str) -> u32 {
    j.get(k).and_then(|x| x.as_u64()).unwrap_or(0) as u32
}
fn jstr(j: &Json, k: &str) -> String {
    j.get(k).and_then(|x| x.as_str()).unwrap_or("").to_string()
}

pub fn ty_from_json(j: &Json) -> Result<Ty, String> {
    if let Some(s) = j.as_str() {
        return Prim::from_name(s)
            .map(Ty::Prim)
            .ok_or_else(|| format!("unknown primitive {s}"));
    }
    let k = jstr(j, "k");
    Ok(match k.as_str() {
        "string" => Ty::Str {
            bound: ju32(j, "bound"),
        },
        "wstring" => Ty::WStr {
            bound: ju32(j, "bound"),
        },
        "enum" => {
            let mut literals = Vec::new();
            for l in j.get("literals").and_then(|x| x.as_arr()).unwrap_or(&[]) {
                let a = l.as_arr().ok_or("literal")?;
                literals.push((
                    a[0].as_str().unwrap_or("").to_string(),
                    a[1].as_i64().unwrap_or(0) as i32,
                ));
            }
            Ty::Enum(Rc::new(EnumTy {
                name: jstr(j, "name"),
                bits: ju32(j, "bits") as u8,
                literals,
                declared: jbool(j, "declared"),
            }))
        }
        "struct" => {
            let mut members = Vec::new();
            for m in j.get("members").and_then(|x| x.as_arr()).unwrap_or(&[]) {
                members.push(Member {
                    name: jstr(m, "name"),
                    id: ju32(m, "id"),
                    ty: ty_from_json(m.get("ty").ok_or("member ty")?)?,
                    key: jbool(m, "key"),
                    optional: jbool(m, "optional"),
                    must_understand: jbool(m, "mu"),
                });
            }
            Ty::Struct(Rc::new(StructTy {
                name: jstr(j, "name"),
                ext: Ext::from_name(&jstr(j, "ext")),
                members,
            }))
        }
        "union" => {
            let mut cases = Vec::new();
            for c in j.get("cases").and_then(|x| x.as_arr()).unwrap_or(&[]) {
                cases.push(Case {
                    name: jstr(c, "name"),
                    id: ju32(c, "id"),
                    labels: c
                        .get("labels")
                        .and_then(|x| x.as_arr())
                        .unwrap_or(&[])
                        .iter()
                        .map(|x| x.as_i64().unwrap_or(0) as i32)
                        .collect(),
                    is_default: jbool(c, "default"),
                    ty: match c.get("ty") {
                        Some(t) => Some(ty_from_json(t)?),
                        None => None,
                    },
                });
            }
            Ty::Union(Rc::new(UnionTy {
                name: jstr(j, "name"),
                ext: Ext::from_name(&jstr(j, "ext")),
                disc: ty_from_json(j.get("disc").ok_or("disc")?)?,
                cases,
            }))
        }
        "seq" => Ty::Seq {
            elem: Box::new(ty_from_json(j.get("elem").ok_or("elem")?)?),
            bound: ju32(j, "bound"),
        },
        "arr" => Ty::Arr {
            elem: Box::new(ty_from_json(j.get("elem").ok_or("elem")?)?),
            len: ju32(j, "len"),
        },
        other => return Err(format!("unknown type kind {other}")),
    })
}

/// Values are written type-directed so the JSON stays small and unambiguous.
pub fn val_to_json(t: &Ty, v: &Val) -> Json {
    match (t, v) {
        (_, Val::Bool(b)) => Json::Bool(*b),
        (_, Val::U8(x)) => Json::i(*x),
        (_, Val::I8(x)) => Json::i(*x),
        (_, Val::I16(x)) => Json::i(*x),
        (_, Val::U16(x)) => Json::i(*x),
        (_, Val::I32(x)) => Json::i(*x),
        (_, Val::U32(x)) => Json::i(*x),
        (_, Val::I64(x)) => Json::i(*x),
        (_, Val::U64(x)) => Json::i(*x),
        (_, Val::F32(x)) => Json::obj().set("f32bits", *x).set("approx", format!("{:e}", f32::from_bits(*x))),
        (_, Val::F64(x)) => Json::obj().set("f64bits", *x).set("approx", format!("{:e}", f64::from_bits(*x))),
        (_, Val::F128(x)) => Json::i(*x),
        (_, Val::Char(x)) => Json::i(*x),
        (_, Val::Str(s)) => Json::s(s.clone()),
        (_, Val::Enum(x)) => Json::i(*x),
        (_, Val::Bytes(b)) => {
            if b.len() > 64 {
                Json::obj()
                    .set("bytes_len", b.len())
                    .set("bytes_fill_seed", vcore::fnv(b) as i128)
                    .set("hex", vcore::hex(b))
            } else {
                Json::obj().set("hex", vcore::hex(b))
            }
        }
        (Ty::Struct(s), Val::Struct(ms)) => {
            let mut o = Json::obj();
            for (m, mv) in s.members.iter().zip(ms.iter()) {
                match mv {
                    Some(x) => o.put(&m.name, val_to_json(&m.ty, x)),
                    None => o.put(&m.name, Json::Null),
                }
            }
            o
        }
        (Ty::Union(u), Val::Union { disc, sel, val }) => {
            let mut o = Json::obj().set("disc", val_to_json(&u.disc, disc));
            if let Some(i) = sel {
                o.put("sel", *i);
                if let (Some(ct), Some(x)) = (&u.cases[*i].ty, val) {
                    o.put("val", val_to_json(ct, x));
                }
            }
            o
        }
        (Ty::Seq { elem, .. }, Val::List(xs)) | (Ty::Arr { elem, .. }, Val::List(xs)) => {
            Json::Arr(xs.iter().map(|x| val_to_json(elem, x)).collect())
        }
        _ => Json::s(format!("<ill-typed {:?}>", v)),
    }
}

pub fn val_from_json(t: &Ty, j: &Json) -> Result<Val, String> {
    let int = |j: &Json| -> Result<i128, String> {
        match j {
            Json::Int(i) => Ok(*i),
            _ => Err(format!("expected int, got {}", j.to_string())),
        }
    };
    Ok(match t {
        Ty::Prim(p) => match p {
            Prim::Bool => Val::Bool(j.as_bool().ok_or("bool")?),
            Prim::Byte | Prim::U8 => Val::U8(int(j)? as u8),
            Prim::I8 => Val::I8(int(j)? as i8),
            Prim::I16 => Val::I16(int(j)? as i16),
            Prim::U16 => Val::U16(int(j)? as u16),
            Prim::I32 => Val::I32(int(j)? as i32),
            Prim::U32 => Val::U32(int(j)? as u32),
            Prim::I64 => Val::I64(int(j)? as i64),
            Prim::U64 => Val::U64(int(j)? as u64),
            Prim::F32 => Val::F32(int(j.get("f32bits").ok_or("f32bits")?)? as u32),
            Prim::F64 => Val::F64(int(j.get("f64bits").ok_or("f64bits")?)? as u64),
            Prim::F128 => Val::F128(int(j)?),
            Prim::Char8 => Val::Char(int(j)? as u8),
        },
        Ty::Str { .. } | Ty::WStr { .. } => Val::Str(j.as_str().ok_or("string")?.to_string()),
        Ty::Enum(_) => Val::Enum(int(j)? as i32),
        Ty::Struct(s) => {
            let mut ms = Vec::new();
            for m in &s.members {
                match j.get(&m.name) {
                    None | Some(Json::Null) => ms.push(None),
                    Some(x) => ms.push(Some(val_from_json(&m.ty, x)?)),
                }
            }
            Val::Struct(ms)
        }
        Ty::Union(u) => {
            let disc = Box::new(val_from_json(&u.disc, j.get("disc").ok_or("disc")?)?);
            let sel = j.get("sel").and_then(|x| x.as_u64()).map(|x| x as usize);
            let val = match (sel, j.get("val")) {
                (Some(i), Some(x)) => match &u.cases.get(i).ok_or("case index")?.ty {
                    Some(ct) => Some(Box::new(val_from_json(ct, x)?)),
                    None => None,
                },
                _ => None,
            };
            Val::Union { disc, sel, val }
        }
        Ty::Seq { elem, .. } | Ty::Arr { elem, .. } => {
            if let Ty::Prim(p) = &**elem {
                if p.is_byte_like() {
                    let h = j.get("hex").and_then(|x| x.as_str()).ok_or("hex")?;
                    return Ok(Val::Bytes(vcore::unhex(h)));
                }
            }
            let mut xs = Vec::new();
            for x in j.as_arr().ok_or("array")? {
                xs.push(val_from_json(elem, x)?);
            }
            Val::List(xs)
        }
    })
}

// ------------------------------------------------------------------------------------------------
// Shape classes
// ------------------------------------------------------------------------------------------------

fn prim_tag(p: Prim, coarse: bool) -> &'static str {
    if coarse {
        return match p {
            Prim::F128 => "prim16",
            _ => match p.size() {
                8 => "prim8",
                _ => "prim",
            },
        };
    }
    match p {
        Prim::Bool => "bool",
        Prim::Char8 => "char8",
        Prim::F128 => "p16",
        _ => match p.size() {
            1 => "p1",
            2 => "p2",
            4 => "p4",
            _ => "p8",
        },
    }
}

/// Short tag of one type node (not recursive into aggregated types' members).
pub fn ty_tag(t: &Ty) -> String {
    ty_tag_c(t, false)
}

fn ty_tag_c(t: &Ty, coarse: bool) -> String {
    match t {
        Ty::Prim(p) => prim_tag(*p, coarse).to_string(),
        Ty::Str { bound } => if *bound == 0 || coarse { "str" } else { "bstr" }.to_string(),
        Ty::WStr { .. } => "wstr".to_string(),
        Ty::Enum(e) => {
            if coarse {
                "prim".to_string()
            } else {
                format!("enum{}", e.bits)
            }
        }
        Ty::Struct(s) => format!("struct:{}", s.ext.name()),
        Ty::Union(u) => format!("union:{}", u.ext.name()),
        Ty::Seq { elem, .. } => format!("seq<{}>", ty_tag_c(elem, coarse)),
        Ty::Arr { elem, .. } => format!("arr<{}>", ty_tag_c(elem, coarse)),
    }
}

fn collect_tags(t: &Ty, out: &mut BTreeSet<String>, coarse: bool) {
    match t {
        Ty::Struct(s) => {
            for m in &s.members {
                let mut tag = ty_tag_c(&m.ty, coarse);
                if m.optional {
                    tag = format!("opt<{tag}>");
                }
                if m.key {
                    tag = format!("key<{tag}>");
                }
                if s.ext == Ext::Mutable && m.id >= 0x3F00 {
                    out.insert("bigid".into());
                }
                out.insert(tag);
                collect_tags(&m.ty, out, coarse);
            }
            if s.ext == Ext::Mutable {
                let ids: Vec<u32> = s.members.iter().map(|m| m.id).collect();
                if ids.windows(2).any(|w| w[0] > w[1]) {
                    out.insert("ids_unordered".into());
                }
            }
        }
        Ty::Union(u) => {
            if coarse {
                let int = matches!(
                    &u.disc,
                    Ty::Prim(Prim::U8 | Prim::I8 | Prim::Byte | Prim::I16 | Prim::U16 | Prim::I32 | Prim::U32)
                );
                out.insert(if int { "disc<int>".into() } else { "disc<bool|char|enum|int64>".into() });
            } else {
                out.insert(format!("disc<{}>", ty_tag_c(&u.disc, coarse)));
            }
            for c in &u.cases {
                match &c.ty {
                    Some(ct) => {
                        out.insert(format!("case<{}>", ty_tag_c(ct, coarse)));
                        collect_tags(ct, out, coarse);
                    }
                    None => {
                        out.insert("case<none>".into());
                    }
                }
            }
        }
        Ty::Seq { elem, .. } | Ty::Arr { elem, .. } => collect_tags(elem, out, coarse),
        _ => {}
    }
}

/// Shape class of a top-level type: extensibility + the set of member kinds involved (recursively).
pub fn shape_class(t: &Ty) -> String {
    let mut tags = BTreeSet::new();
    collect_tags(t, &mut tags, false);
    let head = ty_tag(t);
    format!("{}{{{}}}", head, tags.into_iter().collect::<Vec<_>>().join(","))
}

/// Coarser shape class used in signatures (integer sizes below 8 merged, enum widths merged,
/// bounded/unbounded strings merged, discriminator kinds in two groups).
pub fn sig_class(t: &Ty) -> String {
    let mut tags = BTreeSet::new();
    collect_tags(t, &mut tags, true);
    let head = ty_tag(t);
    format!("{}{{{}}}", head, tags.into_iter().collect::<Vec<_>>().join(","))
}

/// Root-cause oriented class for signatures: the set of structural features of a (minimised) type,
/// independent of how the failing construct is embedded and of unrelated scalar siblings:
/// non-final aggregates, optionals, collections (of aggregates / of primitives), 8/16-byte alignment,
/// strings only when nothing else is there, union specials.
pub fn root_class(t: &Ty) -> String {
    let mut tags = BTreeSet::new();
    collect_tags(t, &mut tags, true);
    tags.insert(ty_tag(t));
    let mut out: BTreeSet<String> = BTreeSet::new();
    fn norm(tag: &str, out: &mut BTreeSet<String>) {
        let inner = |t: &str, pre: &str| -> Option<String> {
            t.strip_prefix(pre).and_then(|x| x.strip_suffix('>')).map(|x| x.to_string())
        };
        if let Some(x) = inner(tag, "key<") {
            return norm(&x, out);
        }
        if let Some(x) = inner(tag, "opt<") {
            out.insert("opt".into());
            return norm(&x, out);
        }
        if let Some(x) = inner(tag, "case<") {
            if x == "none" {
                out.insert("case<none>".into());
                return;
            }
            return norm(&x, out);
        }
        if tag == "disc<int>" {
            return;
        }
        for (pre, name) in [("seq<", "seq"), ("arr<", "arr")] {
            if let Some(x) = inner(tag, pre) {
                if x.starts_with("struct:") || x.starts_with("union:") {
                    out.insert(format!("coll<{}>", x));
                } else if x == "prim8" || x == "prim16" {
                    out.insert(format!("{}<prim>", name));
                    out.insert("align8".into());
                } else {
                    out.insert(format!("{}<{}>", name, x));
                }
                return;
            }
        }
        match tag {
            "prim8" | "prim16" => {
                out.insert("align8".into());
            }
            "struct:final" | "union:final" | "prim" | "str" | "wstr" | "char8" => {
                out.insert(format!("~{}", tag));
            }
            other => {
                out.insert(other.to_string());
            }
        }
    }
    for tag in &tags {
        norm(tag, &mut out);
    }
    // "~" tags are kept only when nothing more specific is present
    let specific: Vec<String> = out.iter().filter(|x| !x.starts_with('~')).cloned().collect();
    if specific.is_empty() {
        let weak: Vec<String> = out
            .iter()
            .filter(|x| *x != "~struct:final" && *x != "~prim")
            .map(|x| x[1..].to_string())
            .collect();
        if weak.is_empty() { "plain".into() } else { weak.join(",") }
    } else {
        let mut v = specific;
        if out.contains("~union:final") && !v.iter().any(|x| x.contains("union:")) {
            v.push("union:final".into());
        }
        if out.contains("~wstr") {
            v.push("wstr".into());
        }
        v.sort();
        v.join(",")
    }
}

/// Value-dependent features that belong into a signature (a failure that needs them is a different
/// root cause from one that does not).
pub fn value_tags(t: &Ty, v: &Val, out: &mut BTreeSet<&'static str>) {
    match (t, v) {
        (_, Val::Char(c)) if *c >= 0x80 => {
            out.insert("char8>=0x80");
        }
        (_, Val::Bytes(b)) if b.len() > 65535 => {
            out.insert("member>64KiB");
        }
        (Ty::Struct(s), Val::Struct(ms)) => {
            for (m, mv) in s.members.iter().zip(ms.iter()) {
                match mv {
                    Some(x) => value_tags(&m.ty, x, out),
                    None => {
                        out.insert("absent_optional");
                    }
                }
            }
        }
        (Ty::Union(u), Val::Union { disc, sel, val }) => {
            match sel {
                None => {
                    out.insert("disc_selects_no_case");
                }
                Some(i) => {
                    let c = &u.cases[*i];
                    let l = disc.as_i64().unwrap_or(i64::MIN);
                    if c.is_default && !c.labels.iter().any(|x| *x as i64 == l) {
                        out.insert("default_case_by_other_disc");
                    }
                    if let (Some(ct), Some(x)) = (&c.ty, val) {
                        value_tags(ct, x, out);
                    }
                }
            }
        }
        (Ty::Seq { elem, .. } | Ty::Arr { elem, .. }, Val::List(xs)) => {
            if xs.is_empty() {
                out.insert("empty_sequence");
            }
            for x in xs {
                value_tags(elem, x, out);
            }
        }
        (Ty::Seq { .. }, Val::Bytes(b)) if b.is_empty() => {
            out.insert("empty_sequence");
        }
        (Ty::Str { .. } | Ty::WStr { .. }, Val::Str(s)) => {
            if s.is_empty() {
                out.insert("empty_string");
            } else if !s.is_ascii() {
                out.insert("non_ascii_string");
            }
        }
        _ => {}
    }
}

/// value features for signatures: only the unusual ones (absent optionals, empty strings and
/// sequences are ordinary values)
pub fn value_class(t: &Ty, v: &Val) -> String {
    let mut tags = BTreeSet::new();
    value_tags(t, v, &mut tags);
    tags.into_iter()
        .filter(|x| !matches!(*x, "absent_optional" | "empty_sequence" | "empty_string"))
        .collect::<Vec<_>>()
        .join(",")
}

pub fn type_depth(t: &Ty) -> usize {
    match t {
        Ty::Struct(s) => 1 + s.members.iter().map(|m| type_depth(&m.ty)).max().unwrap_or(0),
        Ty::Union(u) => {
            1 + u
                .cases
                .iter()
                .filter_map(|c| c.ty.as_ref())
                .map(type_depth)
                .max()
                .unwrap_or(0)
        }
        Ty::Seq { elem, .. } | Ty::Arr { elem, .. } => type_depth(elem),
        _ => 0,
    }
}

pub fn type_nodes(t: &Ty) -> usize {
    match t {
        Ty::Struct(s) => 1 + s.members.iter().map(|m| type_nodes(&m.ty)).sum::<usize>(),
        Ty::Union(u) => {
            2 + u
                .cases
                .iter()
                .map(|c| 1 + c.ty.as_ref().map(type_nodes).unwrap_or(0))
                .sum::<usize>()
        }
        Ty::Seq { elem, .. } | Ty::Arr { elem, .. } => 1 + type_nodes(elem),
        _ => 1,
    }
}

pub fn val_nodes(v: &Val) -> usize {
    match v {
        Val::Struct(ms) => 1 + ms.iter().flatten().map(val_nodes).sum::<usize>(),
        Val::Union { val, .. } => 2 + val.as_ref().map(|x| val_nodes(x)).unwrap_or(0),
        Val::List(xs) => 1 + xs.iter().map(val_nodes).sum::<usize>(),
        Val::Bytes(b) => 1 + b.len() / 8,
        Val::Str(s) => 1 + s.len() / 8,
        _ => 1,
    }
}

// ------------------------------------------------------------------------------------------------
// Generator
// ------------------------------------------------------------------------------------------------

#[derive(Clone, Debug)]
pub struct GenCfg {
    pub max_depth: usize,
    pub wstrings: bool,
    pub unions: bool,
    pub optionals: bool,
    pub keys: bool,
    /// probability that a mutable struct gets member ids >= 0x4000 (needs the extended PID in XCDR1)
    pub bigid_prob: f64,
    /// probability that a byte sequence value is > 65535 bytes ("large members")
    pub bigmember_prob: f64,
    /// union discriminators other than the 8/16/32-bit integers (bool, char, enum, 64-bit)
    pub exotic_disc_prob: f64,
    /// discriminator values selecting no member (no matching label, no default case)
    pub implicit_default_prob: f64,
    /// char8 values >= 0x80
    pub latin1_char_prob: f64,
    pub f128: bool,
    pub max_members: usize,
}

impl GenCfg {
    pub fn full() -> GenCfg {
        GenCfg {
            max_depth: 4,
            wstrings: true,
            unions: true,
            optionals: true,
            keys: true,
            bigid_prob: 0.03,
            bigmember_prob: 0.004,
            exotic_disc_prob: 0.12,
            implicit_default_prob: 0.05,
            latin1_char_prob: 0.08,
            f128: true,
            max_members: 6,
        }
    }
    /// the subset both dust-dds and the reference encoder support (C10)
    pub fn common_subset() -> GenCfg {
        GenCfg {
            wstrings: false,
            bigid_prob: 0.0,
            exotic_disc_prob: 0.0,
            implicit_default_prob: 0.0,
            latin1_char_prob: 0.0,
            ..GenCfg::full()
        }
    }
}

pub struct Gen {
    pub rng: Rng,
    pub cfg: GenCfg,
    counter: u32,
}

impl Gen {
    pub fn new(rng: Rng, cfg: GenCfg) -> Gen {
        Gen {
            rng,
            cfg,
            counter: 0,
        }
    }
    fn fresh(&mut self, prefix: &str) -> String {
        self.counter += 1;
        format!("{}{}", prefix, self.counter)
    }

    pub fn prim(&mut self) -> Prim {
        loop {
            let p = *self.rng.pick(&ALL_PRIMS);
            if p == Prim::F128 && (!self.cfg.f128 || !self.rng.chance(0.3)) {
                continue;
            }
            return p;
        }
    }

    pub fn enum_ty(&mut self) -> Ty {
        let bits = match self.rng.below(10) {
            0..=5 => 32,
            6..=7 => 16,
            _ => 8,
        };
        let n = 1 + self.rng.usize(5);
        let mut literals = Vec::new();
        let sequential = self.rng.chance(0.6);
        let mut used = BTreeSet::new();
        for i in 0..n {
            let v = if sequential {
                i as i32
            } else {
                loop {
                    let v = match bits {
                        8 => self.rng.range(-128, 127) as i32,
                        16 => self.rng.range(-300, 30000) as i32,
                        _ => self.rng.range(-5, 1_000_000) as i32,
                    };
                    if used.insert(v) {
                        break v;
                    }
                }
            };
            literals.push((format!("L{i}"), v));
        }
        let name = self.fresh("E");
        Ty::Enum(Rc::new(EnumTy {
            name,
            bits,
            literals,
            declared: self.rng.bool(),
        }))
    }

    fn elem_ty(&mut self, depth: usize) -> Ty {
        // element of a collection: never a collection itself (dust-dds' DataStorage cannot hold one)
        loop {
            let t = self.member_ty(depth);
            if !matches!(t, Ty::Seq { .. } | Ty::Arr { .. }) {
                return t;
            }
        }
    }

    pub fn member_ty(&mut self, depth: usize) -> Ty {
        let can_nest = depth < self.cfg.max_depth;
        loop {
            let w = self.rng.below(100);
            return match w {
                0..=37 => Ty::Prim(self.prim()),
                38..=47 => Ty::Str {
                    bound: if self.rng.chance(0.4) {
                        1 + self.rng.below(40) as u32
                    } else {
                        0
                    },
                },
                48..=50 => {
                    if !self.cfg.wstrings {
                        continue;
                    }
                    Ty::WStr {
                        bound: if self.rng.chance(0.3) {
                            1 + self.rng.below(20) as u32
                        } else {
                            0
                        },
                    }
                }
                51..=56 => self.enum_ty(),
                57..=68 => {
                    if !can_nest {
                        continue;
                    }
                    self.struct_ty(depth + 1, false)
                }
                69..=74 => {
                    if !can_nest || !self.cfg.unions {
                        continue;
                    }
                    self.union_ty(depth + 1)
                }
                75..=88 => Ty::Seq {
                    elem: Box::new(self.elem_ty(depth)),
                    bound: if self.rng.chance(0.35) {
                        1 + self.rng.below(12) as u32
                    } else {
                        0
                    },
                },
                _ => {
                    let elem = self.elem_ty(depth);
                    let len = if matches!(elem, Ty::Prim(_)) {
                        { let hi = if self.rng.chance(0.2) { 24 } else { 6 }; 1 + self.rng.below(hi) as u32 }
                    } else {
                        1 + self.rng.below(3) as u32
                    };
                    Ty::Arr {
                        elem: Box::new(elem),
                        len,
                    }
                }
            };
        }
    }

    pub fn struct_ty(&mut self, depth: usize, top: bool) -> Ty {
        let ext = *self.rng.pick(&[Ext::Final, Ext::Appendable, Ext::Mutable]);
        self.struct_ty_ext(depth, top, ext)
    }

    pub fn struct_ty_ext(&mut self, depth: usize, top: bool, ext: Ext) -> Ty {
        let n = 1 + self.rng.usize(self.cfg.max_members);
        let name = self.fresh("S");
        let mut ids: Vec<u32> = (0..n as u32).collect();
        if ext == Ext::Mutable {
            let mode = self.rng.below(100);
            if self.rng.chance(self.cfg.bigid_prob) {
                let base = 0x4000 + self.rng.below(0x0fff_0000) as u32;
                ids = (0..n as u32).map(|i| base + i * 3).collect();
            } else if mode < 50 {
                // sequential
            } else {
                let mut set = BTreeSet::new();
                while set.len() < n {
                    let hi = if self.rng.bool() { 64 } else { 0x3F00 };
                    set.insert(self.rng.below(hi) as u32);
                }
                ids = set.into_iter().collect();
                if mode >= 78 {
                    self.rng.shuffle(&mut ids);
                }
            }
        }
        let mut members = Vec::new();
        let want_key = self.cfg.keys && top && self.rng.chance(0.35);
        for (i, id) in ids.iter().enumerate() {
            let ty = self.member_ty(depth);
            let key = want_key && self.rng.chance(0.4) && key_capable(&ty);
            let optional = !key && self.cfg.optionals && self.rng.chance(0.2);
            members.push(Member {
                name: format!("m{i}"),
                id: *id,
                ty,
                key,
                optional,
                must_understand: key || self.rng.chance(0.08),
            });
        }
        Ty::Struct(Rc::new(StructTy { name, ext, members }))
    }

    pub fn union_ty(&mut self, depth: usize) -> Ty {
        let ext = *self.rng.pick(&[Ext::Final, Ext::Appendable, Ext::Mutable]);
        let disc = if self.rng.chance(self.cfg.exotic_disc_prob) {
            match self.rng.below(5) {
                0 => Ty::Prim(Prim::Bool),
                1 => Ty::Prim(Prim::Char8),
                2 => Ty::Prim(Prim::I64),
                3 => Ty::Prim(Prim::U64),
                _ => self.enum_ty(),
            }
        } else {
            Ty::Prim(*self.rng.pick(&[
                Prim::U8,
                Prim::I8,
                Prim::Byte,
                Prim::I16,
                Prim::U16,
                Prim::I32,
                Prim::I32,
                Prim::U32,
            ]))
        };
        let domain: Vec<i32> = match &disc {
            Ty::Prim(Prim::Bool) => vec![0, 1],
            Ty::Prim(Prim::Char8) => (65..91).collect(),
            Ty::Prim(Prim::I8) => (-20..100).collect(),
            Ty::Prim(Prim::U8) | Ty::Prim(Prim::Byte) => (0..200).collect(),
            Ty::Enum(e) => e.literals.iter().map(|l| l.1).collect(),
            Ty::Prim(Prim::I16) | Ty::Prim(Prim::I32) | Ty::Prim(Prim::I64) => (-10..1000).collect(),
            _ => (0..1000).collect(),
        };
        let mut avail = domain.clone();
        self.rng.shuffle(&mut avail);
        let ncases = (1 + self.rng.usize(4)).min(avail.len());
        let mut cases = Vec::new();
        let default_at = if self.rng.chance(0.3) && avail.len() > ncases {
            Some(self.rng.usize(ncases))
        } else {
            None
        };
        for i in 0..ncases {
            let mut labels = vec![avail.pop().unwrap()];
            if self.rng.chance(0.2) && avail.len() > (ncases - i) {
                labels.push(avail.pop().unwrap());
            }
            let ty = if self.rng.chance(0.15) {
                None
            } else {
                Some(self.member_ty(depth))
            };
            cases.push(Case {
                name: format!("c{i}"),
                id: (i + 1) as u32,
                labels,
                is_default: default_at == Some(i),
                ty,
            });
        }
        let name = self.fresh("U");
        Ty::Union(Rc::new(UnionTy {
            name,
            ext,
            disc,
            cases,
        }))
    }

    /// A top-level type: structure (mostly) or union.
    pub fn top_type(&mut self) -> Ty {
        if self.cfg.unions && self.rng.chance(0.1) {
            self.union_ty(1)
        } else {
            self.struct_ty(1, true)
        }
    }

    // ---------------------------------------------------------------- values

    fn int_edge(&mut self, lo: i128, hi: i128) -> i128 {
        match self.rng.below(10) {
            0 => lo,
            1 => hi,
            2 => 0i128.clamp(lo, hi),
            3 => 1i128.clamp(lo, hi),
            4 => (-1i128).clamp(lo, hi),
            5 => (self.rng.below(256) as i128).clamp(lo, hi),
            _ => {
                let span = (hi - lo) as u128;
                let r = ((self.rng.next_u64() as u128) << 64 | self.rng.next_u64() as u128) % (span + 1);
                lo + r as i128
            }
        }
    }

    pub fn prim_val(&mut self, p: Prim) -> Val {
        match p {
            Prim::Bool => Val::Bool(self.rng.bool()),
            Prim::Byte | Prim::U8 => Val::U8(self.int_edge(0, 255) as u8),
            Prim::I8 => Val::I8(self.int_edge(-128, 127) as i8),
            Prim::I16 => Val::I16(self.int_edge(i16::MIN as i128, i16::MAX as i128) as i16),
            Prim::U16 => Val::U16(self.int_edge(0, u16::MAX as i128) as u16),
            Prim::I32 => Val::I32(self.int_edge(i32::MIN as i128, i32::MAX as i128) as i32),
            Prim::U32 => Val::U32(self.int_edge(0, u32::MAX as i128) as u32),
            Prim::I64 => Val::I64(self.int_edge(i64::MIN as i128, i64::MAX as i128) as i64),
            Prim::U64 => Val::U64(self.int_edge(0, u64::MAX as i128) as u64),
            Prim::F32 => Val::F32(match self.rng.below(6) {
                0 => 0,
                1 => 1.0f32.to_bits(),
                2 => (-2.5f32).to_bits(),
                _ => self.rng.next_u32(),
            }),
            Prim::F64 => Val::F64(match self.rng.below(6) {
                0 => 0,
                1 => 1.0f64.to_bits(),
                2 => (-2.5f64).to_bits(),
                _ => self.rng.next_u64(),
            }),
            Prim::F128 => Val::F128(
                ((self.rng.next_u64() as u128) << 64 | self.rng.next_u64() as u128) as i128,
            ),
            Prim::Char8 => {
                if self.rng.chance(self.cfg.latin1_char_prob) {
                    Val::Char(128 + self.rng.below(128) as u8)
                } else {
                    Val::Char(match self.rng.below(8) {
                        0 => 0,
                        1 => 127,
                        _ => 32 + self.rng.below(95) as u8,
                    })
                }
            }
        }
    }

    fn string_val(&mut self, bound: u32, wide: bool) -> String {
        let mut len = match self.rng.below(12) {
            0 | 1 => 0,
            2 => 1,
            3 => 2,
            4 => 3,
            5 => 4,
            6 => 7,
            7 => 8,
            _ => self.rng.usize(40),
        };
        if bound != 0 {
            len = len.min(bound as usize);
        }
        let mut s = String::new();
        let multibyte = self.rng.chance(0.1);
        while s.len() < len {
            if multibyte && self.rng.chance(0.3) {
                let c = if wide && self.rng.chance(0.2) {
                    '\u{1F600}'
                } else {
                    *self.rng.pick(&['é', 'ß', 'Ж', '€', '中'])
                };
                let units = if wide { c.len_utf16() } else { c.len_utf8() };
                let cur = if wide { s.encode_utf16().count() } else { s.len() };
                if bound == 0 || cur + units <= bound as usize {
                    if !wide && s.len() + units > len.max(units) {
                        break;
                    }
                    s.push(c);
                    continue;
                } else {
                    break;
                }
            }
            s.push((32 + self.rng.below(95) as u8) as char);
        }
        s
    }

    fn list_len(&mut self, bound: u32) -> usize {
        let mut n = match self.rng.below(10) {
            0 | 1 => 0,
            2 | 3 => 1,
            4 => 2,
            5 => 3,
            _ => self.rng.usize(9),
        };
        if bound != 0 {
            n = n.min(bound as usize);
        }
        n
    }

    pub fn value(&mut self, t: &Ty) -> Val {
        match t {
            Ty::Prim(p) => self.prim_val(*p),
            Ty::Str { bound } => Val::Str(self.string_val(*bound, false)),
            Ty::WStr { bound } => Val::Str(self.string_val(*bound, true)),
            Ty::Enum(e) => Val::Enum(self.rng.pick(&e.literals).1),
            Ty::Struct(s) => Val::Struct(
                s.members
                    .iter()
                    .map(|m| {
                        if m.optional && self.rng.chance(0.4) {
                            None
                        } else {
                            Some(self.value(&m.ty))
                        }
                    })
                    .collect(),
            ),
            Ty::Union(u) => {
                let has_default = u.cases.iter().any(|c| c.is_default);
                if !has_default && self.rng.chance(self.cfg.implicit_default_prob) {
                    // a discriminator value that selects no member
                    if let Some(d) = self.unlabelled_disc(u) {
                        return Val::Union {
                            disc: Box::new(d),
                            sel: None,
                            val: None,
                        };
                    }
                }
                let i = self.rng.usize(u.cases.len());
                let c = &u.cases[i];
                let label = if c.is_default && self.rng.chance(0.5) {
                    match self.unlabelled_disc(u) {
                        Some(d) => d,
                        None => disc_val(&u.disc, *self.rng.pick(&c.labels)),
                    }
                } else {
                    disc_val(&u.disc, *self.rng.pick(&c.labels))
                };
                let val = c.ty.as_ref().map(|ct| Box::new(self.value(ct)));
                Val::Union {
                    disc: Box::new(label),
                    sel: Some(i),
                    val,
                }
            }
            Ty::Seq { elem, bound } => {
                if let Ty::Prim(p) = &**elem {
                    if p.is_byte_like() {
                        let n = if *bound == 0 && self.rng.chance(self.cfg.bigmember_prob) {
                            65_536 + self.rng.usize(6000)
                        } else {
                            self.list_len(*bound)
                        };
                        return Val::Bytes(self.rng.bytes(n));
                    }
                }
                let n = self.list_len(*bound);
                Val::List((0..n).map(|_| self.value(elem)).collect())
            }
            Ty::Arr { elem, len } => {
                if let Ty::Prim(p) = &**elem {
                    if p.is_byte_like() {
                        return Val::Bytes(self.rng.bytes(*len as usize));
                    }
                }
                Val::List((0..*len).map(|_| self.value(elem)).collect())
            }
        }
    }

    fn unlabelled_disc(&mut self, u: &UnionTy) -> Option<Val> {
        let used: BTreeSet<i32> = u.cases.iter().flat_map(|c| c.labels.iter().copied()).collect();
        let cands: Vec<i32> = match &u.disc {
            Ty::Prim(Prim::Bool) => vec![0, 1],
            Ty::Prim(Prim::Char8) => (97..123).collect(),
            Ty::Enum(e) => e.literals.iter().map(|l| l.1).collect(),
            Ty::Prim(Prim::I8) => (100..127).collect(),
            Ty::Prim(Prim::U8) | Ty::Prim(Prim::Byte) => (200..255).collect(),
            _ => (1000..1100).collect(),
        };
        let free: Vec<i32> = cands.into_iter().filter(|x| !used.contains(x)).collect();
        if free.is_empty() {
            None
        } else {
            Some(disc_val(&u.disc, *self.rng.pick(&free)))
        }
    }
}

pub fn key_capable(t: &Ty) -> bool {
    match t {
        Ty::Prim(p) => !matches!(p, Prim::F32 | Prim::F64 | Prim::F128),
        Ty::Str { .. } | Ty::Enum(_) => true,
        Ty::WStr { .. } => false,
        Ty::Struct(s) => s.members.iter().all(|m| !m.optional && key_capable(&m.ty)),
        Ty::Union(_) => false,
        Ty::Seq { elem, .. } | Ty::Arr { elem, .. } => {
            matches!(&**elem, Ty::Prim(_) | Ty::Str { .. } | Ty::Enum(_)) && key_capable(elem)
        }
    }
}

pub fn disc_val(t: &Ty, label: i32) -> Val {
    match t {
        Ty::Prim(Prim::Bool) => Val::Bool(label != 0),
        Ty::Prim(Prim::Char8) => Val::Char(label as u8),
        Ty::Prim(Prim::I8) => Val::I8(label as i8),
        Ty::Prim(Prim::U8) | Ty::Prim(Prim::Byte) => Val::U8(label as u8),
        Ty::Prim(Prim::I16) => Val::I16(label as i16),
        Ty::Prim(Prim::U16) => Val::U16(label as u16),
        Ty::Prim(Prim::I32) => Val::I32(label),
        Ty::Prim(Prim::U32) => Val::U32(label as u32),
        Ty::Prim(Prim::I64) => Val::I64(label as i64),
        Ty::Prim(Prim::U64) => Val::U64(label as u64),
        Ty::Enum(_) => Val::Enum(label),
        _ => Val::I32(label),
    }
}

/// The "zero" value of a type (XTypes default: 0, "", empty sequence, first enum literal,
/// absent optional, first union case).
pub fn default_val(t: &Ty) -> Val {
    match t {
        Ty::Prim(p) => match p {
            Prim::Bool => Val::Bool(false),
            Prim::Byte | Prim::U8 => Val::U8(0),
            Prim::I8 => Val::I8(0),
            Prim::I16 => Val::I16(0),
            Prim::U16 => Val::U16(0),
            Prim::I32 => Val::I32(0),
            Prim::U32 => Val::U32(0),
            Prim::I64 => Val::I64(0),
            Prim::U64 => Val::U64(0),
            Prim::F32 => Val::F32(0),
            Prim::F64 => Val::F64(0),
            Prim::F128 => Val::F128(0),
            Prim::Char8 => Val::Char(0),
        },
        Ty::Str { .. } | Ty::WStr { .. } => Val::Str(String::new()),
        Ty::Enum(e) => Val::Enum(e.literals.first().map(|l| l.1).unwrap_or(0)),
        Ty::Struct(s) => Val::Struct(
            s.members
                .iter()
                .map(|m| if m.optional { None } else { Some(default_val(&m.ty)) })
                .collect(),
        ),
        Ty::Union(u) => {
            let c = &u.cases[0];
            Val::Union {
                disc: Box::new(disc_val(&u.disc, c.labels[0])),
                sel: Some(0),
                val: c.ty.as_ref().map(|t| Box::new(default_val(t))),
            }
        }
        Ty::Seq { elem, .. } => {
            if matches!(&**elem, Ty::Prim(p) if p.is_byte_like()) {
                Val::Bytes(vec![])
            } else {
                Val::List(vec![])
            }
        }
        Ty::Arr { elem, len } => {
            if matches!(&**elem, Ty::Prim(p) if p.is_byte_like()) {
                Val::Bytes(vec![0; *len as usize])
            } else {
                Val::List((0..*len).map(|_| default_val(elem)).collect())
            }
        }
    }
}

/// A small non-default value (used by the shrinker when it replaces a member's type).
pub fn simple_val(t: &Ty) -> Val {
    match t {
        Ty::Prim(p) => match p {
            Prim::Bool => Val::Bool(true),
            Prim::Byte | Prim::U8 => Val::U8(1),
            Prim::I8 => Val::I8(1),
            Prim::I16 => Val::I16(1),
            Prim::U16 => Val::U16(1),
            Prim::I32 => Val::I32(1),
            Prim::U32 => Val::U32(1),
            Prim::I64 => Val::I64(1),
            Prim::U64 => Val::U64(1),
            Prim::F32 => Val::F32(1.0f32.to_bits()),
            Prim::F64 => Val::F64(1.0f64.to_bits()),
            Prim::F128 => Val::F128(1),
            Prim::Char8 => Val::Char(b'a'),
        },
        Ty::Str { .. } | Ty::WStr { .. } => Val::Str("a".into()),
        Ty::Seq { elem, .. } => {
            if matches!(&**elem, Ty::Prim(p) if p.is_byte_like()) {
                Val::Bytes(vec![1])
            } else {
                Val::List(vec![simple_val(elem)])
            }
        }
        Ty::Arr { elem, len } => {
            if matches!(&**elem, Ty::Prim(p) if p.is_byte_like()) {
                Val::Bytes(vec![1; *len as usize])
            } else {
                Val::List((0..*len).map(|_| simple_val(elem)).collect())
            }
        }
        Ty::Struct(s) => Val::Struct(s.members.iter().map(|m| Some(simple_val(&m.ty))).collect()),
        _ => default_val(t),
    }
}

// ------------------------------------------------------------------------------------------------
// Shrinker: one-step simplifications of a (type, value) pair. The caller keeps a candidate when the
// failure it is chasing persists, so minimal witnesses (and therefore signatures) are stable.
// ------------------------------------------------------------------------------------------------

fn simpler_types(t: &Ty) -> Vec<Ty> {
    let mut out = Vec::new();
    let u8t = Ty::Prim(Prim::U8);
    match t {
        Ty::Prim(Prim::U8) => {}
        Ty::Prim(p) => {
            for q in [Prim::U8, Prim::U16, Prim::U32, Prim::U64] {
                if q != *p && q.size() <= p.size() {
                    out.push(Ty::Prim(q));
                }
            }
        }
        Ty::Str { bound } => {
            out.push(u8t);
            if *bound != 0 {
                out.push(Ty::Str { bound: 0 });
            }
        }
        Ty::WStr { .. } => {
            out.push(u8t);
            out.push(Ty::Str { bound: 0 });
        }
        Ty::Enum(e) => {
            out.push(u8t);
            if e.bits != 32 || e.literals.len() > 1 || e.declared {
                out.push(Ty::Enum(Rc::new(EnumTy {
                    name: e.name.clone(),
                    bits: 32,
                    literals: vec![e.literals[0].clone()],
                    declared: false,
                })));
            }
        }
        Ty::Struct(s) => {
            out.push(u8t);
            for m in &s.members {
                out.push(m.ty.clone());
            }
        }
        Ty::Union(u) => {
            out.push(u8t);
            for c in &u.cases {
                if let Some(ct) = &c.ty {
                    out.push(ct.clone());
                }
            }
        }
        Ty::Seq { elem, bound } => {
            out.push(u8t);
            out.push((**elem).clone());
            if *bound != 0 {
                out.push(Ty::Seq {
                    elem: elem.clone(),
                    bound: 0,
                });
            }
        }
        Ty::Arr { elem, len } => {
            out.push(u8t);
            out.push((**elem).clone());
            if *len > 1 {
                out.push(Ty::Arr {
                    elem: elem.clone(),
                    len: 1,
                });
            }
        }
    }
    out
}

fn simpler_values(t: &Ty, v: &Val) -> Vec<Val> {
    let mut out = Vec::new();
    let d = default_val(t);
    let s = simple_val(t);
    if *v != s && *v != d {
        out.push(s);
    }
    match (t, v) {
        (Ty::Seq { .. }, Val::List(xs)) if xs.len() > 1 => {
            out.push(Val::List(xs[..1].to_vec()));
            out.push(Val::List(xs[1..].to_vec()));
        }
        (Ty::Seq { .. }, Val::Bytes(b)) if b.len() > 1 => {
            out.push(Val::Bytes(b[..b.len() / 2].to_vec()));
            out.push(Val::Bytes(vec![1; b.len()]));
        }
        (Ty::Str { .. }, Val::Str(x)) | (Ty::WStr { .. }, Val::Str(x)) if x.chars().count() > 1 => {
            out.push(Val::Str(x.chars().take(1).collect()));
            out.push(Val::Str(x.chars().map(|_| 'a').collect()));
        }
        _ => {}
    }
    out
}

/// All one-step shrinks of (t, v). `top` forbids replacing the top-level aggregated type by a
/// non-aggregated one.
pub fn shrinks(t: &Ty, v: &Val, top: bool) -> Vec<(Ty, Val)> {
    let mut out: Vec<(Ty, Val)> = Vec::new();
    match (t, v) {
        (Ty::Struct(s), Val::Struct(ms)) => {
            // remove a member
            if s.members.len() > 1 {
                for i in 0..s.members.len() {
                    let mut s2 = (**s).clone();
                    s2.members.remove(i);
                    let mut ms2 = ms.clone();
                    ms2.remove(i);
                    out.push((Ty::Struct(Rc::new(s2)), Val::Struct(ms2)));
                }
            }
            // simpler extensibility
            let simpler_ext: &[Ext] = match s.ext {
                Ext::Mutable => &[Ext::Final, Ext::Appendable],
                Ext::Appendable => &[Ext::Final],
                Ext::Final => &[],
            };
            for e in simpler_ext {
                let mut s2 = (**s).clone();
                s2.ext = *e;
                out.push((Ty::Struct(Rc::new(s2)), v.clone()));
            }
            // sequential ids
            if s.members.iter().enumerate().any(|(i, m)| m.id != i as u32) {
                let mut s2 = (**s).clone();
                for (i, m) in s2.members.iter_mut().enumerate() {
                    m.id = i as u32;
                }
                out.push((Ty::Struct(Rc::new(s2)), v.clone()));
            }
            for (i, m) in s.members.iter().enumerate() {
                // drop flags
                if m.optional {
                    let mut s2 = (**s).clone();
                    s2.members[i].optional = false;
                    let mut ms2 = ms.clone();
                    if ms2[i].is_none() {
                        ms2[i] = Some(default_val(&m.ty));
                    }
                    out.push((Ty::Struct(Rc::new(s2)), Val::Struct(ms2)));
                    if ms[i].is_some() {
                        let mut ms3 = ms.clone();
                        ms3[i] = None;
                        out.push((t.clone(), Val::Struct(ms3)));
                    }
                }
                if m.key {
                    let mut s2 = (**s).clone();
                    s2.members[i].key = false;
                    s2.members[i].must_understand = false;
                    out.push((Ty::Struct(Rc::new(s2)), v.clone()));
                } else if m.must_understand {
                    let mut s2 = (**s).clone();
                    s2.members[i].must_understand = false;
                    out.push((Ty::Struct(Rc::new(s2)), v.clone()));
                }
                // simpler member type
                for st in simpler_types(&m.ty) {
                    let mut s2 = (**s).clone();
                    let was_key = s2.members[i].key;
                    s2.members[i].ty = st.clone();
                    if was_key && !key_capable(&st) {
                        continue;
                    }
                    let mut ms2 = ms.clone();
                    if ms2[i].is_some() {
                        ms2[i] = Some(simple_val(&st));
                    }
                    out.push((Ty::Struct(Rc::new(s2.clone())), Val::Struct(ms2.clone())));
                    if st == Ty::Prim(Prim::U8) && ms2[i].is_some() {
                        ms2[i] = Some(Val::U8(0xFF));
                        out.push((Ty::Struct(Rc::new(s2)), Val::Struct(ms2)));
                    }
                }
                // recurse
                if let Some(mv) = &ms[i] {
                    for (ct, cv) in shrinks(&m.ty, mv, false) {
                        let mut s2 = (**s).clone();
                        s2.members[i].ty = ct;
                        let mut ms2 = ms.clone();
                        ms2[i] = Some(cv);
                        out.push((Ty::Struct(Rc::new(s2)), Val::Struct(ms2)));
                    }
                }
            }
        }
        (Ty::Union(u), Val::Union { disc, sel, val }) => {
            // remove unselected cases
            if u.cases.len() > 1 {
                for i in 0..u.cases.len() {
                    if Some(i) == *sel {
                        continue;
                    }
                    let mut u2 = (**u).clone();
                    u2.cases.remove(i);
                    let sel2 = sel.map(|s| if s > i { s - 1 } else { s });
                    out.push((
                        Ty::Union(Rc::new(u2)),
                        Val::Union {
                            disc: disc.clone(),
                            sel: sel2,
                            val: val.clone(),
                        },
                    ));
                }
            }
            let simpler_ext: &[Ext] = match u.ext {
                Ext::Mutable => &[Ext::Final, Ext::Appendable],
                Ext::Appendable => &[Ext::Final],
                Ext::Final => &[],
            };
            for e in simpler_ext {
                let mut u2 = (**u).clone();
                u2.ext = *e;
                out.push((Ty::Union(Rc::new(u2)), v.clone()));
            }
            // unselected cases: member type u8, single label, no default
            for (i, c) in u.cases.iter().enumerate() {
                if Some(i) == *sel {
                    continue;
                }
                if c.ty.is_some() && c.ty != Some(Ty::Prim(Prim::U8)) {
                    let mut u2 = (**u).clone();
                    u2.cases[i].ty = Some(Ty::Prim(Prim::U8));
                    out.push((Ty::Union(Rc::new(u2)), v.clone()));
                }
                if c.labels.len() > 1 {
                    let mut u2 = (**u).clone();
                    u2.cases[i].labels.truncate(1);
                    out.push((Ty::Union(Rc::new(u2)), v.clone()));
                }
            }
            // sequential case ids
            if u.cases.iter().enumerate().any(|(i, c)| c.id != (i + 1) as u32) {
                let mut u2 = (**u).clone();
                for (i, c) in u2.cases.iter_mut().enumerate() {
                    c.id = (i + 1) as u32;
                }
                out.push((Ty::Union(Rc::new(u2)), v.clone()));
            }
            if let (Some(i), Some(x)) = (sel, val) {
                let c = &u.cases[*i];
                if let Some(ct) = &c.ty {
                    if c.labels.len() > 1 || c.is_default {
                        // keep one label, drop default
                        let mut u2 = (**u).clone();
                        let l = disc.as_i64().unwrap_or(0) as i32;
                        u2.cases[*i].labels = vec![l];
                        u2.cases[*i].is_default = false;
                        out.push((Ty::Union(Rc::new(u2)), v.clone()));
                    }
                    {
                        let mut u2 = (**u).clone();
                        u2.cases[*i].ty = None;
                        out.push((
                            Ty::Union(Rc::new(u2)),
                            Val::Union {
                                disc: disc.clone(),
                                sel: *sel,
                                val: None,
                            },
                        ));
                    }
                    for st in simpler_types(ct) {
                        let mut u2 = (**u).clone();
                        u2.cases[*i].ty = Some(st.clone());
                        out.push((
                            Ty::Union(Rc::new(u2)),
                            Val::Union {
                                disc: disc.clone(),
                                sel: *sel,
                                val: Some(Box::new(simple_val(&st))),
                            },
                        ));
                    }
                    for (ct2, cv2) in shrinks(ct, x, false) {
                        let mut u2 = (**u).clone();
                        u2.cases[*i].ty = Some(ct2);
                        out.push((
                            Ty::Union(Rc::new(u2)),
                            Val::Union {
                                disc: disc.clone(),
                                sel: *sel,
                                val: Some(Box::new(cv2)),
                            },
                        ));
                    }
                }
            }
            // simpler discriminator type
            if !matches!(u.disc, Ty::Prim(Prim::I32)) {
                let l = disc.as_i64().unwrap_or(0) as i32;
                let mut u2 = (**u).clone();
                u2.disc = Ty::Prim(Prim::I32);
                out.push((
                    Ty::Union(Rc::new(u2)),
                    Val::Union {
                        disc: Box::new(Val::I32(l)),
                        sel: *sel,
                        val: val.clone(),
                    },
                ));
            }
        }
        (Ty::Seq { elem, bound }, Val::List(xs)) => {
            for st in simpler_types(elem) {
                if matches!(st, Ty::Seq { .. } | Ty::Arr { .. }) {
                    continue;
                }
                let ys: Val = if matches!(&st, Ty::Prim(p) if p.is_byte_like()) {
                    Val::Bytes(vec![1; xs.len()])
                } else {
                    Val::List(xs.iter().map(|_| simple_val(&st)).collect())
                };
                out.push((
                    Ty::Seq {
                        elem: Box::new(st),
                        bound: *bound,
                    },
                    ys,
                ));
            }
            for (i, x) in xs.iter().enumerate().take(3) {
                for (et, ev) in shrinks(elem, x, false) {
                    // the element type changes for all elements: re-project the others to simple values
                    let mut ys: Vec<Val> = xs.iter().map(|_| simple_val(&et)).collect();
                    ys[i] = ev;
                    out.push((
                        Ty::Seq {
                            elem: Box::new(et),
                            bound: *bound,
                        },
                        Val::List(ys),
                    ));
                }
            }
        }
        (Ty::Arr { elem, len }, Val::List(xs)) => {
            for st in simpler_types(elem) {
                if matches!(st, Ty::Seq { .. } | Ty::Arr { .. }) {
                    continue;
                }
                let ys: Val = if matches!(&st, Ty::Prim(p) if p.is_byte_like()) {
                    Val::Bytes(vec![1; xs.len()])
                } else {
                    Val::List(xs.iter().map(|_| simple_val(&st)).collect())
                };
                out.push((
                    Ty::Arr {
                        elem: Box::new(st),
                        len: *len,
                    },
                    ys,
                ));
            }
            for (i, x) in xs.iter().enumerate().take(2) {
                for (et, ev) in shrinks(elem, x, false) {
                    let mut ys: Vec<Val> = xs.iter().map(|_| simple_val(&et)).collect();
                    ys[i] = ev;
                    out.push((
                        Ty::Arr {
                            elem: Box::new(et),
                            len: *len,
                        },
                        Val::List(ys),
                    ));
                }
            }
        }
        _ => {}
    }
    for sv in simpler_values(t, v) {
        out.push((t.clone(), sv));
    }
    if top {
        // hoist an aggregated member / element / selected case to the top level (tried first:
        // biggest step)
        let mut hoisted: Vec<(Ty, Val)> = Vec::new();
        fn offer(t: &Ty, v: &Val, out: &mut Vec<(Ty, Val)>) {
            match (t, v) {
                (Ty::Struct(_) | Ty::Union(_), _) => out.push((t.clone(), v.clone())),
                (Ty::Seq { elem, .. } | Ty::Arr { elem, .. }, Val::List(xs)) => {
                    if let Ty::Struct(_) | Ty::Union(_) = &**elem {
                        if let Some(first) = xs.first() {
                            out.push(((**elem).clone(), first.clone()));
                        }
                        if xs.len() > 1 {
                            out.push(((**elem).clone(), xs[xs.len() - 1].clone()));
                        }
                    }
                }
                _ => {}
            }
        }
        match (t, v) {
            (Ty::Struct(s), Val::Struct(ms)) => {
                for (m, mv) in s.members.iter().zip(ms.iter()) {
                    if let Some(x) = mv {
                        offer(&m.ty, x, &mut hoisted);
                    }
                }
            }
            (Ty::Union(u), Val::Union { sel: Some(i), val: Some(x), .. }) => {
                if let Some(ct) = &u.cases[*i].ty {
                    offer(ct, x, &mut hoisted);
                }
            }
            _ => {}
        }
        hoisted.extend(out);
        return hoisted;
    }
    out
}

/// Greedy minimisation. `fails` returns true when the candidate still shows the failure.
pub fn minimize(
    t: &Ty,
    v: &Val,
    budget: usize,
    fails: &mut dyn FnMut(&Ty, &Val) -> bool,
) -> (Ty, Val, usize) {
    let mut cur_t = t.clone();
    let mut cur_v = v.clone();
    let mut used = 0usize;
    'outer: loop {
        let cands = shrinks(&cur_t, &cur_v, true);
        for (ct, cv) in cands {
            if used >= budget {
                break 'outer;
            }
            // only strictly smaller / simpler candidates are produced, so this terminates
            if ct == cur_t && cv == cur_v {
                continue;
            }
            used += 1;
            if fails(&ct, &cv) {
                cur_t = ct;
                cur_v = cv;
                continue 'outer;
            }
        }
        break;
    }
    (cur_t, cur_v, used)
}
