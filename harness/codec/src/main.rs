//! E3 `codec`: generators + round-trip / differential oracles for the wire codecs of dust-dds.
//!
//! Subcommands: `c08` (RTPS message round trip), `c13` (discovery data round trip),
//! `c14` (time conversions and arithmetic), `c38` (UDP transport fragment size range).
//! Contract: /verif/harness/ENGINES.md.
mod c08;
#[cfg(c13_hooks)]
mod c13;
#[cfg(not(c13_hooks))]
mod c13 {
    //! /repo lacks the C13 constructor hooks (see build.rs): nothing can be observed.
    pub fn run(_run: &crate::Run) -> vcore::Report {
        let mut r = vcore::Report::new("C13");
        r.inconclusive(
            "hook missing: verif_new/verif_* accessors for DiscoveredWriterData, DiscoveredReaderData, \
             DiscoveredTopicData, SpdpDiscoveredParticipantData, ParticipantProxy (cargo feature verif_hooks) \
             are not in /repo/dds/src/dcps/data_representation_builtin_endpoints",
        );
        r
    }
}
mod c14;
mod c38;
mod util;

use vcore::{Args, Report};

/// Common run parameters of one shard.
pub struct Run {
    pub seed: u64,
    pub shard: u64,
    pub nshards: u64,
    /// total cases over all shards
    pub cases: u64,
    pub tier: String,
    /// replay file of the runner, if any
    pub replay: Option<vcore::Json>,
    /// `--out` path (also the prefix of scratch files of supervised workers)
    pub out: String,
    /// `--worker <list>`: run the listed cases in-process (child of a supervising shard)
    pub worker: Option<String>,
}

impl Run {
    /// half-open range of the global case indices [0, cases) this shard executes
    pub fn my_range(&self, total: u64) -> (u64, u64) {
        let n = self.nshards.max(1);
        let lo = (total as u128 * self.shard as u128 / n as u128) as u64;
        let hi = (total as u128 * (self.shard as u128 + 1) / n as u128) as u64;
        (lo, hi)
    }
    pub fn thorough(&self) -> bool {
        self.tier == "thorough"
    }
}

fn main() {
    let args = Args::parse();
    let sub = args.pos.first().cloned().unwrap_or_default();
    let out = args.str("out", "-");
    let replay = if args.has("replay") {
        let p = args.str("replay", "");
        match std::fs::read_to_string(&p)
            .map_err(|e| e.to_string())
            .and_then(|s| vcore::Json::parse(&s))
        {
            Ok(j) => Some(j),
            Err(e) => {
                let mut r = Report::new(&sub.to_uppercase());
                r.inconclusive(format!("cannot read replay file {p}: {e}"));
                r.write(&out);
                return;
            }
        }
    } else {
        None
    };
    let run = Run {
        seed: args.u64("seed", 1),
        shard: args.u64("shard", 0),
        nshards: args.u64("nshards", 1).max(1),
        cases: args.u64("cases", 1000),
        tier: args.str("tier", "quick"),
        replay,
        out: out.clone(),
        worker: if args.has("worker") { Some(args.str("worker", "")) } else { None },
    };
    util::install_panic_hook();
    let report = match sub.as_str() {
        "c08" => c08::run(&run),
        "c13" => c13::run(&run),
        "c14" => c14::run(&run),
        "c38" => c38::run(&run),
        other => {
            eprintln!("usage: codec <c08|c13|c14|c38> --seed N --shard I --nshards N --cases N --tier T --out F [--replay F]");
            let mut r = Report::new("C??");
            r.inconclusive(format!("unknown subcommand {other:?}"));
            r
        }
    };
    report.write(&out);
}
