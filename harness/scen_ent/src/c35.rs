//! C35: entity handles stay unique and entity creation never panics or hangs.
use crate::common::*;
use crate::util::*;
use dust_dds::dds_async::data_reader::DataReaderAsync;
use dust_dds::dds_async::data_writer::DataWriterAsync;
use dust_dds::dds_async::domain_participant::DomainParticipantAsync;
use dust_dds::dds_async::publisher::PublisherAsync;
use dust_dds::dds_async::subscriber::SubscriberAsync;
use dust_dds::dds_async::topic::TopicAsync;
use dust_dds::infrastructure::listener::NO_LISTENER;
use dust_dds::infrastructure::qos::{PublisherQos, QosKind, SubscriberQos};
use dust_dds::infrastructure::qos_policy::EntityFactoryQosPolicy;
use dust_dds::infrastructure::status::NO_STATUS;
use simnet::*;
use std::collections::BTreeMap;
use vcore::{Json, Report, Rng};

#[derive(Clone, Copy, Debug, PartialEq, Eq, PartialOrd, Ord)]
pub enum Kind {
    Publisher,
    Subscriber,
    Topic,
    Writer,
    Reader,
}
impl Kind {
    fn name(self) -> &'static str {
        match self {
            Kind::Publisher => "publisher",
            Kind::Subscriber => "subscriber",
            Kind::Topic => "topic",
            Kind::Writer => "writer",
            Kind::Reader => "reader",
        }
    }
}

#[derive(Clone, Debug)]
enum Op {
    /// create one entity and keep it; `parent`: publisher/subscriber id for writer/reader,
    /// `topic`: topic id for writer/reader; `flag`: publisher/subscriber: autoenable children,
    /// topic: keyed type
    Create { kind: Kind, id: usize, parent: usize, topic: usize, flag: bool },
    CreateCft { topic: usize },
    Delete { kind: Kind, id: usize },
    /// create + delete, n times
    Churn { kind: Kind, n: u32, parent: usize, topic: usize, flag: bool },
}

impl Op {
    fn show(&self) -> String {
        match self {
            Op::Create { kind, id, parent, topic, flag } => match kind {
                Kind::Publisher | Kind::Subscriber => format!("create_{}#{id}(autoenable={flag})", kind.name()),
                Kind::Topic => format!("create_topic#{id}(keyed={flag})"),
                Kind::Writer => format!("create_writer#{id}(publisher#{parent},topic#{topic})"),
                Kind::Reader => format!("create_reader#{id}(subscriber#{parent},topic#{topic})"),
            },
            Op::CreateCft { topic } => format!("create_contentfilteredtopic(topic#{topic})"),
            Op::Delete { kind, id } => format!("delete_{}#{id}", kind.name()),
            Op::Churn { kind, n, parent, topic, flag } => match kind {
                Kind::Publisher | Kind::Subscriber => format!("{n}x(create_{k}(autoenable={flag});delete_{k})", k = kind.name()),
                Kind::Topic => format!("{n}x(create_topic(keyed={flag});delete_topic)"),
                Kind::Writer => format!("{n}x(create_writer(publisher#{parent},topic#{topic});delete_writer)"),
                Kind::Reader => format!("{n}x(create_reader(subscriber#{parent},topic#{topic});delete_reader)"),
            },
        }
    }
    /// shape token used for the distinct-history hash (ids dropped)
    fn shape(&self) -> String {
        match self {
            Op::Create { kind, flag, .. } => format!("c{}{}", kind.name(), yn(*flag)),
            Op::CreateCft { .. } => "cft".into(),
            Op::Delete { kind, .. } => format!("d{}", kind.name()),
            Op::Churn { kind, n, flag, .. } => format!("x{}{}{}", kind.name(), n, yn(*flag)),
        }
    }
}

#[derive(Default, Clone)]
struct Outcome {
    findings: Vec<Finding>,
    /// creations attempted per kind
    created: BTreeMap<&'static str, u64>,
    deleted: BTreeMap<&'static str, u64>,
    errors: BTreeMap<String, u64>,
    max_live: usize,
    handle_checks: u64,
    aborted_at: Option<usize>,
    steps_done: usize,
    /// API call in flight when the worker task panicked
    panic_op: Option<String>,
}

#[derive(Clone)]
enum Ent {
    P(PublisherAsync),
    S(SubscriberAsync),
    T(TopicAsync),
    W(DataWriterAsync<Msg>, usize, usize),
    R(DataReaderAsync<Msg>, usize, usize),
}
impl Ent {
    fn handle(&self) -> [u8; 16] {
        match self {
            Ent::P(x) => x.get_instance_handle().into(),
            Ent::S(x) => x.get_instance_handle().into(),
            Ent::T(x) => x.get_instance_handle().into(),
            Ent::W(x, _, _) => x.get_instance_handle().into(),
            Ent::R(x, _, _) => x.get_instance_handle().into(),
        }
    }
}

struct Rt {
    dp: DomainParticipantAsync,
    /// id -> (entity, number of children / users)
    ents: BTreeMap<(Kind, usize), (Ent, usize)>,
    live: BTreeMap<[u8; 16], (Kind, String)>,
    topic_seq: u64,
}

fn pub_qos(auto: bool) -> QosKind<PublisherQos> {
    QosKind::Specific(PublisherQos {
        entity_factory: EntityFactoryQosPolicy { autoenable_created_entities: auto },
        ..Default::default()
    })
}
fn sub_qos(auto: bool) -> QosKind<SubscriberQos> {
    QosKind::Specific(SubscriberQos {
        entity_factory: EntityFactoryQosPolicy { autoenable_created_entities: auto },
        ..Default::default()
    })
}

/// `None`: a prerequisite (parent / topic) does not exist in this (possibly shrunk) history.
async fn create(sim: &Sim, rt: &mut Rt, kind: Kind, parent: usize, topic: usize, flag: bool) -> Option<Out<Ent>> {
    let dp = rt.dp.clone();
    Some(match kind {
        Kind::Publisher => match call(sim, dp.create_publisher(pub_qos(flag), NO_LISTENER, NO_STATUS)).await {
            Out::Ok(p) => Out::Ok(Ent::P(p)),
            o => o.cast(),
        },
        Kind::Subscriber => match call(sim, dp.create_subscriber(sub_qos(flag), NO_LISTENER, NO_STATUS)).await {
            Out::Ok(p) => Out::Ok(Ent::S(p)),
            o => o.cast(),
        },
        Kind::Topic => {
            rt.topic_seq += 1;
            let name = format!("T{}", rt.topic_seq);
            let r = if flag {
                call(sim, dp.create_topic::<Msg>(&name, "Msg", QosKind::Default, NO_LISTENER, NO_STATUS)).await
            } else {
                call(sim, dp.create_topic::<Plain>(&name, "Plain", QosKind::Default, NO_LISTENER, NO_STATUS)).await
            };
            match r {
                Out::Ok(t) => Out::Ok(Ent::T(t)),
                o => o.cast(),
            }
        }
        Kind::Writer => {
            let (Some((Ent::P(p), _)), Some((Ent::T(t), _))) =
                (rt.ents.get(&(Kind::Publisher, parent)).cloned(), rt.ents.get(&(Kind::Topic, topic)).cloned())
            else {
                return None;
            };
            match call(sim, p.create_datawriter::<Msg>(&t, QosKind::Default, NO_LISTENER, NO_STATUS)).await {
                Out::Ok(w) => Out::Ok(Ent::W(w, parent, topic)),
                o => o.cast(),
            }
        }
        Kind::Reader => {
            let (Some((Ent::S(p), _)), Some((Ent::T(t), _))) =
                (rt.ents.get(&(Kind::Subscriber, parent)).cloned(), rt.ents.get(&(Kind::Topic, topic)).cloned())
            else {
                return None;
            };
            match call(sim, p.create_datareader::<Msg>(&t, QosKind::Default, NO_LISTENER, NO_STATUS)).await {
                Out::Ok(r) => Out::Ok(Ent::R(r, parent, topic)),
                o => o.cast(),
            }
        }
    })
}

async fn delete(sim: &Sim, rt: &Rt, e: &Ent) -> Out<()> {
    match e {
        Ent::P(p) => call(sim, rt.dp.delete_publisher(p)).await,
        Ent::S(s) => call(sim, rt.dp.delete_subscriber(s)).await,
        Ent::T(t) => call(sim, rt.dp.delete_topic(t)).await,
        Ent::W(w, _, _) => call(sim, w.get_publisher().delete_datawriter(w)).await,
        Ent::R(r, _, _) => call(sim, r.get_subscriber().delete_datareader(r)).await,
    }
}

fn delete_name(kind: Kind) -> String {
    format!("delete_{}", kind.name())
}

async fn scenario(w: World, ops: Vec<Op>) -> Outcome {
    let sim = w.sim.clone();
    let mut out = Outcome::default();
    let dp = match call(&sim, w.factory.create_participant(0, QosKind::Default, NO_LISTENER, NO_STATUS)).await {
        Out::Ok(dp) => dp,
        _ => {
            out.aborted_at = Some(0);
            return out;
        }
    };
    let mut rt = Rt { dp: dp.clone(), ents: BTreeMap::new(), live: BTreeMap::new(), topic_seq: 0 };
    rt.live.insert(dp.get_instance_handle().into(), (Kind::Publisher, "(the participant)".into()));

    // returns false if the history must stop
    macro_rules! created {
        ($r:expr, $kind:expr, $label:expr, $step:expr) => {{
            let opname = format!("create_{}", $kind.name());
            match $r {
                Out::Ok(e) => {
                    let hb = e.handle();
                    out.handle_checks += 1;
                    if let Some((ok, olabel)) = rt.live.get(&hb) {
                        out.findings.push(Finding {
                            sig: format!("duplicate_handle|kind={}", $kind.name()),
                            what: format!(
                                "new {} {} got instance handle {} which is still in use by live {} {}",
                                $kind.name(), $label, vcore::hex(&hb), ok.name(), olabel
                            ),
                            step: $step,
                        });
                    }
                    Some(e)
                }
                Out::Hang => {
                    out.findings.push(Finding {
                        sig: format!("hang|op={opname}"),
                        what: format!("{opname} did not return within 5 s of virtual time"),
                        step: $step,
                    });
                    out.aborted_at = Some($step);
                    return out;
                }
                Out::Dead => {
                    out.panic_op = Some(opname);
                    out.aborted_at = Some($step);
                    return out;
                }
                o => {
                    *out.errors.entry(format!("{}:{}", opname, o.name())).or_default() += 1;
                    None
                }
            }
        }};
    }
    // deletion result handling; the property does not speak about deletions: a hang stops the
    // history without verdict, a worker panic is attributed to the deletion
    macro_rules! deleted {
        ($r:expr, $kind:expr, $step:expr) => {{
            match $r {
                Out::Ok(()) => true,
                Out::Hang => {
                    out.aborted_at = Some($step);
                    return out;
                }
                Out::Dead => {
                    out.panic_op = Some(delete_name($kind));
                    out.aborted_at = Some($step);
                    return out;
                }
                o => {
                    *out.errors.entry(format!("{}:{}", delete_name($kind), o.name())).or_default() += 1;
                    false
                }
            }
        }};
    }

    for (step, op) in ops.iter().enumerate() {
        out.steps_done = step;
        match op.clone() {
            Op::Create { kind, id, parent, topic, flag } => {
                let Some(r) = create(&sim, &mut rt, kind, parent, topic, flag).await else { continue };
                *out.created.entry(kind.name()).or_default() += 1;
                if let Some(e) = created!(r, kind, format!("#{id}"), step) {
                    rt.live.entry(e.handle()).or_insert((kind, format!("#{id}")));
                    out.max_live = out.max_live.max(rt.live.len());
                    match &e {
                        Ent::W(_, p, t) => {
                            rt.ents.get_mut(&(Kind::Publisher, *p)).unwrap().1 += 1;
                            rt.ents.get_mut(&(Kind::Topic, *t)).unwrap().1 += 1;
                        }
                        Ent::R(_, s, t) => {
                            rt.ents.get_mut(&(Kind::Subscriber, *s)).unwrap().1 += 1;
                            rt.ents.get_mut(&(Kind::Topic, *t)).unwrap().1 += 1;
                        }
                        _ => {}
                    }
                    rt.ents.insert((kind, id), (e, 0));
                }
            }
            Op::CreateCft { topic } => {
                let Some((Ent::T(t), _)) = rt.ents.get(&(Kind::Topic, topic)).cloned() else { continue };
                *out.created.entry("contentfilteredtopic").or_default() += 1;
                rt.topic_seq += 1;
                let name = format!("F{}", rt.topic_seq);
                match call(&sim, dp.create_contentfilteredtopic(&name, &t, "key = %0".to_string(), vec!["1".to_string()])).await {
                    Out::Ok(_) => {}
                    Out::Hang => {
                        out.findings.push(Finding {
                            sig: "hang|op=create_contentfilteredtopic".into(),
                            what: "create_contentfilteredtopic did not return within 5 s of virtual time".into(),
                            step,
                        });
                        out.aborted_at = Some(step);
                        return out;
                    }
                    Out::Dead => {
                        out.panic_op = Some("create_contentfilteredtopic".into());
                        out.aborted_at = Some(step);
                        return out;
                    }
                    o => {
                        *out.errors.entry(format!("create_contentfilteredtopic:{}", o.name())).or_default() += 1;
                    }
                }
            }
            Op::Delete { kind, id } => {
                // only deletions the model knows to be legal (no children / users)
                let Some((e, 0)) = rt.ents.get(&(kind, id)).cloned() else { continue };
                let r = delete(&sim, &rt, &e).await;
                *out.deleted.entry(kind.name()).or_default() += 1;
                let _ok = deleted!(r, kind, step);
                // whatever the answer, the entity is no longer used for the uniqueness oracle
                rt.live.remove(&e.handle());
                rt.ents.remove(&(kind, id));
                match &e {
                    Ent::W(_, p, t) => {
                        rt.ents.get_mut(&(Kind::Publisher, *p)).unwrap().1 -= 1;
                        rt.ents.get_mut(&(Kind::Topic, *t)).unwrap().1 -= 1;
                    }
                    Ent::R(_, s, t) => {
                        rt.ents.get_mut(&(Kind::Subscriber, *s)).unwrap().1 -= 1;
                        rt.ents.get_mut(&(Kind::Topic, *t)).unwrap().1 -= 1;
                    }
                    _ => {}
                }
            }
            Op::Churn { kind, n, parent, topic, flag } => {
                for i in 0..n {
                    let Some(r) = create(&sim, &mut rt, kind, parent, topic, flag).await else { break };
                    *out.created.entry(kind.name()).or_default() += 1;
                    if let Some(e) = created!(r, kind, format!("churn#{i}"), step) {
                        let r = delete(&sim, &rt, &e).await;
                        *out.deleted.entry(kind.name()).or_default() += 1;
                        if !deleted!(r, kind, step) {
                            // it still exists as far as we know
                            rt.live.entry(e.handle()).or_insert((kind, format!("churn#{i}(delete failed)")));
                        }
                    }
                }
            }
        }
    }
    out.steps_done = ops.len();
    out
}

// ------------------------------------------------------------------------------------------
// generation

struct Gen {
    ops: Vec<Op>,
    next_id: usize,
    pubs: Vec<usize>,
    subs: Vec<usize>,
    topics: Vec<usize>,
    writers: Vec<(usize, usize, usize)>,
    readers: Vec<(usize, usize, usize)>,
}
impl Gen {
    fn new() -> Gen {
        Gen { ops: vec![], next_id: 1, pubs: vec![], subs: vec![], topics: vec![], writers: vec![], readers: vec![] }
    }
    fn id(&mut self) -> usize {
        self.next_id += 1;
        self.next_id - 1
    }
    fn create(&mut self, rng: &mut Rng, kind: Kind) {
        let id = self.id();
        match kind {
            Kind::Publisher => {
                self.pubs.push(id);
                self.ops.push(Op::Create { kind, id, parent: 0, topic: 0, flag: rng.chance(0.5) });
            }
            Kind::Subscriber => {
                self.subs.push(id);
                self.ops.push(Op::Create { kind, id, parent: 0, topic: 0, flag: rng.chance(0.5) });
            }
            Kind::Topic => {
                self.topics.push(id);
                self.ops.push(Op::Create { kind, id, parent: 0, topic: 0, flag: rng.chance(0.6) });
            }
            Kind::Writer => {
                if self.pubs.is_empty() || self.topics.is_empty() {
                    return;
                }
                let p = *rng.pick(&self.pubs);
                let t = *rng.pick(&self.topics);
                self.writers.push((id, p, t));
                self.ops.push(Op::Create { kind, id, parent: p, topic: t, flag: false });
            }
            Kind::Reader => {
                if self.subs.is_empty() || self.topics.is_empty() {
                    return;
                }
                let s = *rng.pick(&self.subs);
                let t = *rng.pick(&self.topics);
                self.readers.push((id, s, t));
                self.ops.push(Op::Create { kind, id, parent: s, topic: t, flag: false });
            }
        }
    }
    fn delete_some(&mut self, rng: &mut Rng) {
        match rng.below(5) {
            0 => {
                let free: Vec<usize> = self.pubs.iter().cloned().filter(|p| !self.writers.iter().any(|w| w.1 == *p)).collect();
                if let Some(&id) = free.get(rng.usize(free.len().max(1))) {
                    self.pubs.retain(|x| *x != id);
                    self.ops.push(Op::Delete { kind: Kind::Publisher, id });
                }
            }
            1 => {
                let free: Vec<usize> = self.subs.iter().cloned().filter(|s| !self.readers.iter().any(|r| r.1 == *s)).collect();
                if let Some(&id) = free.get(rng.usize(free.len().max(1))) {
                    self.subs.retain(|x| *x != id);
                    self.ops.push(Op::Delete { kind: Kind::Subscriber, id });
                }
            }
            2 => {
                let free: Vec<usize> = self
                    .topics
                    .iter()
                    .cloned()
                    .filter(|t| !self.writers.iter().any(|w| w.2 == *t) && !self.readers.iter().any(|r| r.2 == *t))
                    .collect();
                if let Some(&id) = free.get(rng.usize(free.len().max(1))) {
                    self.topics.retain(|x| *x != id);
                    self.ops.push(Op::Delete { kind: Kind::Topic, id });
                }
            }
            3 => {
                if !self.writers.is_empty() {
                    let i = rng.usize(self.writers.len());
                    let (id, _, _) = self.writers.remove(i);
                    self.ops.push(Op::Delete { kind: Kind::Writer, id });
                }
            }
            _ => {
                if !self.readers.is_empty() {
                    let i = rng.usize(self.readers.len());
                    let (id, _, _) = self.readers.remove(i);
                    self.ops.push(Op::Delete { kind: Kind::Reader, id });
                }
            }
        }
    }
    fn random_ops(&mut self, rng: &mut Rng, n: usize) {
        for _ in 0..n {
            let r = rng.below(100);
            if r < 55 {
                let kind = *rng.pick(&[Kind::Publisher, Kind::Subscriber, Kind::Topic, Kind::Writer, Kind::Writer, Kind::Reader, Kind::Reader]);
                self.create(rng, kind);
            } else if r < 60 {
                if !self.topics.is_empty() {
                    let t = *rng.pick(&self.topics);
                    self.ops.push(Op::CreateCft { topic: t });
                }
            } else if r < 95 {
                self.delete_some(rng);
            } else {
                let kind = *rng.pick(&[Kind::Publisher, Kind::Subscriber, Kind::Topic, Kind::Writer, Kind::Reader]);
                { let n = 2 + rng.below(30) as u32; self.churn(rng, kind, n); }
            }
        }
    }
    /// keeps "entity #1" of the kind alive and churns n others
    fn churn(&mut self, rng: &mut Rng, kind: Kind, n: u32) {
        match kind {
            Kind::Publisher | Kind::Subscriber | Kind::Topic => {
                self.ops.push(Op::Churn { kind, n, parent: 0, topic: 0, flag: rng.chance(0.5) });
            }
            Kind::Writer => {
                if self.pubs.is_empty() {
                    self.create(rng, Kind::Publisher);
                }
                if self.topics.is_empty() {
                    self.create(rng, Kind::Topic);
                }
                let p = *rng.pick(&self.pubs);
                let t = *rng.pick(&self.topics);
                self.ops.push(Op::Churn { kind, n, parent: p, topic: t, flag: false });
            }
            Kind::Reader => {
                if self.subs.is_empty() {
                    self.create(rng, Kind::Subscriber);
                }
                if self.topics.is_empty() {
                    self.create(rng, Kind::Topic);
                }
                let s = *rng.pick(&self.subs);
                let t = *rng.pick(&self.topics);
                self.ops.push(Op::Churn { kind, n, parent: s, topic: t, flag: false });
            }
        }
    }
}

fn gen_history(rng: &mut Rng, case: u64, thorough: bool) -> (Vec<Op>, &'static str) {
    let mut g = Gen::new();
    // thorough: the first 48 cases are the 16-bit counter churns
    if thorough && case < 48 {
        let kind = [Kind::Writer, Kind::Reader, Kind::Topic][(case % 3) as usize];
        { let n = rng.usize(8); g.random_ops(rng, n); }
        // keep one entity of the kind alive across the churn
        g.create(rng, Kind::Publisher);
        g.create(rng, Kind::Subscriber);
        g.create(rng, Kind::Topic);
        g.create(rng, kind);
        let n = 65_536 + 1 + rng.below(600) as u32;
        g.churn(rng, kind, n);
        g.create(rng, kind);
        g.random_ops(rng, 10);
        return (g.ops, "churn16");
    }
    let class = case % 6;
    match class {
        0 => {
            let n = 40 + rng.usize(80);
            g.random_ops(rng, n);
            (g.ops, "random")
        }
        1 | 2 => {
            let kind = if class == 1 { Kind::Publisher } else { Kind::Subscriber };
            { let n = rng.usize(10); g.random_ops(rng, n); }
            g.create(rng, kind); // stays alive
            let n = 250 + rng.below(70) as u32;
            g.churn(rng, kind, n);
            g.create(rng, kind);
            { let n = rng.usize(20); g.random_ops(rng, n); }
            (g.ops, "churn8")
        }
        3 | 4 => {
            let kind = if class == 3 { Kind::Publisher } else { Kind::Subscriber };
            { let n = rng.usize(10); g.random_ops(rng, n); }
            let n = 250 + rng.usize(60);
            for _ in 0..n {
                g.create(rng, kind);
                if rng.chance(0.1) {
                    g.delete_some(rng);
                }
            }
            { let n = rng.usize(20); g.random_ops(rng, n); }
            (g.ops, "pileup8")
        }
        _ => {
            { let n = 10 + rng.usize(20); g.random_ops(rng, n); }
            let kind = *rng.pick(&[Kind::Writer, Kind::Reader, Kind::Topic]);
            g.create(rng, kind);
            let n = 100 + rng.below(400) as u32;
            g.churn(rng, kind, n);
            { let n = 10 + rng.usize(30); g.random_ops(rng, n); }
            (g.ops, "mixed")
        }
    }
}

// ------------------------------------------------------------------------------------------

fn run_ops(cs: u64, ops: &[Op], policy: Policy) -> (Option<Outcome>, RunStats) {
    let mut cfg = WorldConfig::default();
    cfg.sim.seed = cs;
    cfg.sim.policy = policy;
    let total: u64 = ops
        .iter()
        .map(|o| match o {
            Op::Churn { n, .. } => *n as u64 * 2,
            _ => 1,
        })
        .sum();
    cfg.sim.max_polls = 2_000_000 + total * 400;
    let ops2 = ops.to_vec();
    let (res, stats, _net) = run_world(&cfg, move |w| scenario(w, ops2));
    (res, stats)
}

/// all violation signatures of one execution
fn sigs_of(res: &Option<Outcome>, stats: &RunStats) -> Vec<(String, String, usize)> {
    let mut v: Vec<(String, String, usize)> = Vec::new();
    let panics = dds_panics(stats);
    let op = res.as_ref().and_then(|o| o.panic_op.clone()).unwrap_or_else(|| "idle".into());
    for p in &panics {
        v.push((panic_sig(p, &op), format!("DDS {:?} task panicked at {} during {}: {}", p.task, p.location, op, p.msg), res.as_ref().and_then(|o| o.aborted_at).unwrap_or(usize::MAX)));
    }
    if let Some(o) = res {
        for f in &o.findings {
            // a hang after a recorded worker panic is the same defect
            if f.sig.starts_with("hang|") && !panics.is_empty() {
                continue;
            }
            v.push((f.sig.clone(), f.what.clone(), f.step));
        }
    }
    v
}

fn shrink(cs: u64, policy: Policy, ops: &[Op], sig: &str) -> Vec<Op> {
    let calls: usize = ops
        .iter()
        .map(|o| match o {
            Op::Churn { n, .. } => *n as usize * 2,
            _ => 1,
        })
        .sum();
    // expensive histories (16-bit churns) get fewer shrink executions
    let mut budget = (4_000_000 / calls.max(1)).clamp(40, 150);
    let test = |cand: &[Op]| -> bool {
        let (r, s) = run_ops(cs, cand, policy);
        sigs_of(&r, &s).iter().any(|(x, _, _)| x == sig)
    };
    // cheap first attempt: only the creations / churns of a single kind
    let mut start = ops.to_vec();
    for k in [Kind::Publisher, Kind::Subscriber, Kind::Topic] {
        let cand: Vec<Op> = ops
            .iter()
            .filter(|o| matches!(o, Op::Create { kind, .. } | Op::Churn { kind, .. } if *kind == k))
            .cloned()
            .collect();
        if !cand.is_empty() && cand.len() < start.len() && test(&cand) {
            start = cand;
        }
    }
    let mut cur = ddmin(start, test, &mut budget);
    // shrink churn counts by bisection
    for i in 0..cur.len() {
        if let Op::Churn { n, .. } = cur[i].clone() {
            let (mut lo, mut hi) = (0u32, n); // hi fails
            // the counter widths are the natural guesses
            for guess in [256u32, 65_536] {
                if guess < hi && guess > lo && budget >= 2 {
                    let run = |k: u32| {
                        let mut cand = cur.clone();
                        if let Op::Churn { n, .. } = &mut cand[i] {
                            *n = k;
                        }
                        let (r, s) = run_ops(cs, &cand, policy);
                        sigs_of(&r, &s).iter().any(|(x, _, _)| x == sig)
                    };
                    budget -= 1;
                    if run(guess) {
                        hi = guess;
                        budget -= 1;
                        if !run(guess - 1) {
                            lo = guess - 1;
                        }
                    } else {
                        lo = guess;
                    }
                }
            }
            while lo + 1 < hi && budget > 0 {
                let mid = lo + (hi - lo) / 2;
                let mut cand = cur.clone();
                if let Op::Churn { n, .. } = &mut cand[i] {
                    *n = mid;
                }
                budget -= 1;
                let (r, s) = run_ops(cs, &cand, policy);
                if sigs_of(&r, &s).iter().any(|(x, _, _)| x == sig) {
                    hi = mid;
                } else {
                    lo = mid;
                }
            }
            if let Op::Churn { n, .. } = &mut cur[i] {
                *n = hi;
            }
        }
    }
    cur
}

fn summarize(ops: &[Op]) -> Json {
    // compact rendering: runs of creations of the same kind are collapsed
    let class = |o: &Op| -> Option<String> {
        match o {
            Op::Create { kind: k @ (Kind::Publisher | Kind::Subscriber | Kind::Topic), .. } => Some(format!("create_{}", k.name())),
            _ => None,
        }
    };
    let mut out: Vec<String> = Vec::new();
    let mut i = 0;
    while i < ops.len() {
        let c = class(&ops[i]);
        let mut j = i;
        while c.is_some() && j < ops.len() && class(&ops[j]) == c {
            j += 1;
        }
        if j - i > 3 {
            let (mut lo, mut hi) = (usize::MAX, 0);
            for o in &ops[i..j] {
                if let Op::Create { id, .. } = o {
                    lo = lo.min(*id);
                    hi = hi.max(*id);
                }
            }
            out.push(format!("{}x {} (#{}..#{})", j - i, c.unwrap(), lo, hi));
            i = j;
        } else {
            out.push(ops[i].show());
            i += 1;
        }
    }
    strs(&out)
}

fn clip(s: String, n: usize) -> String {
    if s.len() <= n { s } else { format!("{}...", &s[..n]) }
}

pub fn run(shard: &Shard) -> Report {
    let mut rep = Report::new("C35");
    let tier = replay_tier(shard);
    let thorough = tier == "thorough";
    let trace = shard.args.has("trace");
    for case in shard.my_cases() {
        let cs = shard.case_seed(case);
        let mut rng = Rng::new(cs);
        let (ops, class) = gen_history(&mut rng, case, thorough);
        let policy = pick_policy(&mut rng);
        if trace {
            eprintln!("case {case} class {class}: {}", summarize(&ops).to_string());
        }
        let replay = shard
            .base_replay("c35", case)
            .set("engine", "scen_ent")
            .set("tier", tier.clone())
            .set("class", class)
            .set("history", summarize(&ops));
        simnet::hang::set_case(&format!("class={class}"), &format!("case {case}, history class {class}: {}", summarize(&ops).to_string()), replay.clone());
        let (res, stats) = run_ops(cs, &ops, policy);
        simnet::hang::clear_case();
        rep.eval();
        let found = sigs_of(&res, &stats);
        for p in &stats.panics {
            if p.task == TaskKind::Local {
                rep.inconclusive(format!("case {case}: harness task panicked at {}: {}", p.location, p.msg));
            }
        }
        let mut done: Vec<String> = Vec::new();
        for (sig, what, at_step) in &found {
            if done.contains(sig) {
                continue;
            }
            done.push(sig.clone());
            let seen = rep.violation_counts.get(sig).cloned().unwrap_or(0);
            let mut r = replay.clone().set("violation", sig.clone());
            let mut what = what.clone();
            if seen < 1 {
                let cut = (*at_step).min(ops.len() - 1);
                let min = shrink(cs, policy, &ops[..=cut], sig);
                what = format!("{what}; minimal history ({} ops): {}", min.len(), clip(summarize(&min).to_string(), 400));
                r = r.set("minimal_history", summarize(&min));
            }
            if sig.starts_with("panic|") {
                if let Some(p) = dds_panics(&stats).first() {
                    r = r.set("panic_location", p.location.clone());
                }
            }
            rep.violation(sig.clone(), what, r);
        }
        let Some(o) = res else {
            if found.is_empty() {
                rep.inconclusive(format!("case {case}: history did not finish ({:?})", stats.stop));
            }
            continue;
        };
        for (k, v) in &o.created {
            rep.stat(&format!("created_{k}"), *v as i128);
            rep.maxstat(&format!("max_created_per_history_{k}"), *v as i128);
        }
        for (k, v) in &o.deleted {
            rep.stat(&format!("deleted_{k}"), *v as i128);
        }
        for (k, v) in &o.errors {
            rep.set("errors", k.clone());
            rep.stat(&format!("error_{k}"), *v as i128);
        }
        rep.stat("handle_uniqueness_checks", o.handle_checks as i128);
        rep.maxstat("max_live_entities", o.max_live as i128);
        rep.stat(&format!("histories_{class}"), 1);
        rep.stat("polls", stats.polls as i128);
        if o.aborted_at.is_some() && found.is_empty() {
            rep.inconclusive(format!("case {case}: history aborted at step {:?} without a finding (non-creation call hung)", o.aborted_at));
        }
        // non-trivial: >= 2 creations whose handles were compared against a non-empty live set
        if o.handle_checks >= 2 {
            let h = hash_strs(ops.iter().map(|o| o.shape()).collect::<Vec<_>>().iter().map(|s| s.as_str()));
            rep.nontrivial(vcore::mix(h, o.steps_done as u64));
        }
        if case < 64 {
            rep.sample(
                Json::obj()
                    .set("case", case)
                    .set("class", class)
                    .set("history", summarize(&ops))
                    .set("steps_done", o.steps_done)
                    .set("handle_checks", o.handle_checks)
                    .set("max_live", o.max_live)
                    .set("violations", strs(&found.iter().map(|x| x.0.clone()).collect::<Vec<_>>())),
            );
        }
    }
    rep
}
