//! C31: the DDS worker never oversleeps its periodic duties. Monitor = the `Timer` handle the
//! factory gives to the worker loop: every requested sleep must be <= 50 ms and consecutive sleep
//! requests (= worker wake-ups) must be <= 50 ms + slack apart in virtual time, while the scenario
//! makes the inputs of every time-until computation extreme (already overdue deadlines, leases,
//! lifespans, blocked writes, announcements). Second oracle: a write blocked with a finite
//! max_blocking_time returns no later than max_blocking_time + one poke period.
use crate::common::*;
use dust_dds::infrastructure::qos::{DataReaderQos, DataWriterQos};
use dust_dds::infrastructure::qos_policy::*;
use dust_dds::infrastructure::time::DurationKind;
use simnet::*;
use vcore::rtpswalk::Class;
use vcore::{Json, Report, Rng};

const POKE: i64 = 50 * MS;

#[derive(Clone, Debug)]
struct Params {
    family: u32,
    deadline_ms: i64,
    lifespan_ms: i64,
    block_ms: i64,
    stamp_offset_ms: i64,
    silence_s: i64,
    announce_ms: u64,
    policy: Policy,
    jitter: i64,
    clock_tick: i64,
    n_writes: u32,
}

fn family_name(f: u32) -> &'static str {
    match f {
        0 => "reader_deadline",
        1 => "writer_deadline",
        2 => "lease",
        3 => "lifespan",
        4 => "pending_write",
        5 => "announcement",
        _ => "mixed",
    }
}

impl Params {
    fn to_json(&self) -> Json {
        Json::obj()
            .set("source", family_name(self.family))
            .set("deadline_ms", self.deadline_ms)
            .set("lifespan_ms", self.lifespan_ms)
            .set("max_blocking_ms", self.block_ms)
            .set("source_timestamp_offset_ms", self.stamp_offset_ms)
            .set("silence_s", self.silence_s)
            .set("announcement_interval_ms", self.announce_ms)
            .set("policy", format!("{:?}", self.policy))
            .set("sleep_jitter_ns", self.jitter)
            .set("clock_tick_ns", self.clock_tick)
            .set("writes", self.n_writes)
    }
}

fn gen_params(rng: &mut Rng) -> Params {
    let family = rng.below(7) as u32;
    Params {
        family,
        deadline_ms: *rng.pick(&[1i64, 10, 60, 100, 330, 1000]),
        lifespan_ms: *rng.pick(&[1i64, 10, 49, 50, 51, 200, 2000]),
        block_ms: *rng.pick(&[0i64, 1, 10, 49, 50, 51, 100, 1000]),
        stamp_offset_ms: *rng.pick(&[-100_000i64, -5000, -1000, -51, -1, 0, 1, 1000, 100_000]),
        silence_s: *rng.pick(&[1i64, 3, 7, 20]),
        announce_ms: *rng.pick(&[1u64, 49, 50, 51, 200, 5000]),
        policy: pick_policy(rng),
        jitter: *rng.pick(&[0i64, 1, 1000, 1_000_000]),
        clock_tick: *rng.pick(&[0i64, 0, 1, 1000]),
        n_writes: 1 + rng.below(6) as u32,
    }
}

struct Outcome {
    matched: bool,
    /// (blocked write: call ms, return ms, result)
    blocked: Vec<(i64, i64, String)>,
    done: bool,
}

async fn scenario(w: World, p: Params) -> Outcome {
    let sim = w.sim.clone();
    let mut out = Outcome {
        matched: false,
        blocked: Vec::new(),
        done: false,
    };
    let fam = p.family;
    let use_deadline = matches!(fam, 0 | 1 | 6);
    let use_lifespan = matches!(fam, 3 | 6);
    let use_block = matches!(fam, 4 | 6);
    let mut wq = DataWriterQos {
        reliability: reliable(p.block_ms),
        history: if use_block { keep_last(1) } else { keep_all() },
        ..Default::default()
    };
    let mut rq = DataReaderQos {
        reliability: reliable(100),
        history: keep_all(),
        ..Default::default()
    };
    if use_deadline {
        wq.deadline = DeadlineQosPolicy {
            period: finite_ms(p.deadline_ms),
        };
        rq.deadline = DeadlineQosPolicy {
            period: finite_ms(p.deadline_ms),
        };
    }
    if use_lifespan {
        wq.lifespan = LifespanQosPolicy {
            duration: finite_ms(p.lifespan_ms),
        };
    }
    let _ = DurationKind::Infinite;
    let dpw = new_participant(&w, 0).await;
    let tw = new_topic::<Msg>(&dpw, "Over", "Msg").await;
    let pb = new_publisher(&dpw).await;
    let dw = new_writer::<Msg>(&pb, &tw, wq).await;
    let dpr = new_participant(&w, 0).await;
    let tr = new_topic::<Msg>(&dpr, "Over", "Msg").await;
    let sb = new_subscriber(&dpr).await;
    let dr = new_reader::<Msg>(&sb, &tr, rq).await;
    out.matched = wait_matched(&sim, &dw, 1, 20 * SEC).await
        && wait_reader_matched(&sim, &dr, 1, 20 * SEC).await;
    if !out.matched {
        return out;
    }
    if use_block {
        // the reader never acknowledges: user traffic from the reader's participant is dropped
        w.net.set_policy(Some(Box::new(|pkt: &Pkt, _rng: &mut Rng| {
            if pkt.class == Class::User && pkt.src == 1 {
                vec![]
            } else {
                vec![Delivery::after(BASE_LATENCY)]
            }
        })));
    }
    for i in 0..p.n_writes {
        let stamp = ns_to_time(sim.now() + p.stamp_offset_ms * MS);
        let call = sim.elapsed() / MS;
        let r = sim
            .timeout(
                (p.block_ms + 10_000) * MS,
                dw.write_w_timestamp(msg(i % 2, 0, i, 16), None, stamp),
            )
            .await;
        let ret = sim.elapsed() / MS;
        let res = match r {
            Ok(Ok(())) => "Ok".to_string(),
            Ok(Err(e)) => err_name(&e),
            Err(_) => "no_return_within_block+10s".to_string(),
        };
        if use_block {
            out.blocked.push((call, ret, res));
        }
        sim.sleep((1 + sim.rand(30) as i64) * MS).await;
    }
    if fam == 2 || fam == 6 {
        // the reader's participant falls silent: its lease (100 s) runs out
        w.net.set_partitioned(1, true);
        sim.sleep(115 * SEC).await;
    }
    // long silence: every deadline / lifespan / announcement becomes overdue several times
    sim.sleep(p.silence_s * SEC).await;
    out.done = true;
    out
}

pub fn run(shard: &Shard) -> Report {
    let mut rep = Report::new("C31");
    for case in shard.my_cases() {
        let cs = shard.case_seed(case);
        let mut rng = Rng::new(cs);
        let p = gen_params(&mut rng);
        let mut cfg = WorldConfig::default();
        cfg.sim.seed = cs;
        cfg.sim.policy = p.policy;
        cfg.sim.jitter_max = p.jitter;
        cfg.sim.clock_tick = p.clock_tick;
        cfg.sim.max_polls = 3_000_000;
        cfg.sim.timer_log_cap = 32;
        cfg.announcement_interval_ms = if p.family == 5 || p.family == 6 { p.announce_ms } else { 5000 };
        let p2 = p.clone();
        let (res, stats, _net) = run_world(&cfg, move |w| scenario(w, p2));
        rep.eval();
        let replay = shard.base_replay("oversleep", case).set("params", p.to_json());
        let panicked = report_panics(&mut rep, &stats, &replay);
        let source = family_name(p.family);
        rep.stat("worker_sleep_requests", stats.timer_requests as i128);
        rep.maxstat("max_worker_sleep_request_ms", (stats.max_worker_delay.min(i64::MAX / 2) / MS) as i128);
        rep.maxstat("max_worker_gap_ms", (stats.max_worker_gap / MS) as i128);
        // slack: the sleep overshoot jitter, the +1 ns strictness and clock ticks within an iteration
        let slack = p.jitter + 1 + MS;
        if stats.max_worker_delay > POKE {
            let big = stats
                .timer_log
                .iter()
                .find(|(_, d)| *d > POKE)
                .cloned()
                .unwrap_or((0, stats.max_worker_delay));
            rep.violation(
                format!("oversleep|source={source}|kind=requested_sleep_gt_poke"),
                format!(
                    "worker requested a sleep of {} (poke period is 50 ms) at +{} ms",
                    if big.1 > 1_000_000 * SEC { "more than 10^6 s".to_string() } else { format!("{} ms", big.1 / MS) },
                    (big.0 - EPOCH_NS) / MS
                ),
                replay.clone().set("requested_ns", big.1.min(i64::MAX / 2)).set("at_ms", (big.0 - EPOCH_NS) / MS),
            );
        } else if stats.max_worker_gap > POKE + slack && !panicked {
            rep.violation(
                format!("oversleep|source={source}|kind=wakeup_gap"),
                format!("worker wake-ups were {} ms apart (poke period 50 ms, slack {} us)", stats.max_worker_gap / MS, slack / 1000),
                replay.clone().set("gap_ns", stats.max_worker_gap),
            );
        }
        let Some(o) = res else {
            if !panicked {
                if stats.stop == Stop::PollBudget {
                    // the worker never sleeps: it spins on a zero-length sleep
                    let mean_gap = (stats.end_ns - EPOCH_NS) / (stats.timer_requests.max(1) as i64);
                    rep.inconclusive(format!(
                        "case {case} ({source}): poll budget exhausted after {} worker sleep requests in {} ms virtual (mean gap {} ns)",
                        stats.timer_requests, (stats.end_ns - EPOCH_NS) / MS, mean_gap
                    ));
                } else {
                    rep.inconclusive(format!("case {case}: scenario did not finish ({:?})", stats.stop));
                }
            }
            continue;
        };
        if !o.matched {
            if !panicked {
                rep.inconclusive(format!("case {case}: endpoints did not match"));
            }
            continue;
        }
        for (call, ret, res) in &o.blocked {
            rep.stat("writes_against_unacknowledged_keep_last", 1);
            rep.set("blocked_write_results", res.clone());
            let limit = p.block_ms + 50 + (slack / MS) + 1;
            if res == "Timeout" || res == "no_return_within_block+10s" {
                rep.stat("blocked_writes_timed_out", 1);
                if ret - call > limit {
                    rep.violation(
                        format!("late_timeout|source=pending_write|result={res}"),
                        format!(
                            "write blocked with max_blocking_time {} ms returned {res} after {} ms (limit max_blocking_time + 50 ms poke period)",
                            p.block_ms, ret - call
                        ),
                        replay.clone().set("call_ms", *call).set("ret_ms", *ret),
                    );
                }
            }
        }
        if o.done {
            rep.nontrivial(vcore::mix(vcore::fnv_str(&p.to_json().to_string()), stats.poll_hash));
        }
        rep.set("sources", source);
        if case < 40 {
            rep.sample(
                Json::obj()
                    .set("case", case)
                    .set("params", p.to_json())
                    .set("worker_sleep_requests", stats.timer_requests)
                    .set("max_requested_ms", stats.max_worker_delay.min(i64::MAX / 2) / MS)
                    .set("max_gap_ms", stats.max_worker_gap / MS)
                    .set(
                        "first_requests_ms",
                        stats.timer_log.iter().take(8).map(|(t, d)| format!("+{}us:{}us", (t - EPOCH_NS) / 1000, d / 1000)).collect::<Vec<_>>(),
                    ),
            );
        }
    }
    rep
}
