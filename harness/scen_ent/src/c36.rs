//! C36: entity deletion follows the DDS preconditions.
use crate::common::*;
use crate::util::*;
use dust_dds::dds_async::data_reader::DataReaderAsync;
use dust_dds::dds_async::data_writer::DataWriterAsync;
use dust_dds::dds_async::domain_participant::DomainParticipantAsync;
use dust_dds::dds_async::publisher::PublisherAsync;
use dust_dds::dds_async::subscriber::SubscriberAsync;
use dust_dds::dds_async::topic::TopicAsync;
use dust_dds::infrastructure::listener::NO_LISTENER;
use dust_dds::infrastructure::qos::QosKind;
use dust_dds::infrastructure::sample_info::{ANY_INSTANCE_STATE, ANY_SAMPLE_STATE, ANY_VIEW_STATE};
use dust_dds::infrastructure::status::NO_STATUS;
use simnet::*;
use std::collections::{BTreeMap, BTreeSet};
use vcore::{Json, Report, Rng};

#[derive(Clone, Copy, Debug, PartialEq, Eq, PartialOrd, Ord)]
enum Kind {
    Participant,
    Publisher,
    Subscriber,
    Topic,
    Writer,
    Reader,
}
impl Kind {
    fn name(self) -> &'static str {
        match self {
            Kind::Participant => "participant",
            Kind::Publisher => "publisher",
            Kind::Subscriber => "subscriber",
            Kind::Topic => "topic",
            Kind::Writer => "writer",
            Kind::Reader => "reader",
        }
    }
}

/// Entities are addressed by (kind, id); participants by their index 0/1 as id.
#[derive(Clone, Debug)]
enum Op {
    Create { kind: Kind, id: usize, part: usize, parent: usize, topic: usize },
    CreateCft { part: usize, topic: usize },
    Delete { kind: Kind, id: usize },
    /// delete_contained_entities on participant / publisher / subscriber
    DeleteContained { kind: Kind, id: usize },
    /// representative operations on the entity (live or deleted)
    Probe { kind: Kind, id: usize },
}
impl Op {
    fn show(&self) -> String {
        match self {
            Op::Create { kind, id, part, parent, topic } => match kind {
                Kind::Writer => format!("create_writer#{id}(publisher#{parent},topic#{topic})"),
                Kind::Reader => format!("create_reader#{id}(subscriber#{parent},topic#{topic})"),
                k => format!("create_{}#{id}(participant#{part})", k.name()),
            },
            Op::CreateCft { part, topic } => format!("create_contentfilteredtopic(participant#{part},topic#{topic})"),
            Op::Delete { kind, id } => format!("delete_{}#{id}", kind.name()),
            Op::DeleteContained { kind, id } => format!("{}#{id}.delete_contained_entities", kind.name()),
            Op::Probe { kind, id } => format!("operate_on_{}#{id}", kind.name()),
        }
    }
}

#[derive(Clone)]
enum Ent {
    D(DomainParticipantAsync),
    P(PublisherAsync),
    S(SubscriberAsync),
    T(TopicAsync),
    W(DataWriterAsync<Msg>),
    R(DataReaderAsync<Msg>),
}

#[derive(Clone, Debug)]
struct M {
    alive: bool,
    part: usize,
    parent: usize,
    topic: usize,
}

#[derive(Default, Clone)]
struct Outcome {
    findings: Vec<Finding>,
    ops_done: BTreeMap<String, u64>,
    results: BTreeSet<String>,
    /// model states exercised: "<op>/<model state>/<result>"
    shapes: Vec<String>,
    mechanisms: u64,
    aborted_at: Option<usize>,
    panic_op: Option<String>,
}

struct Rt {
    ents: BTreeMap<(Kind, usize), (Ent, M)>,
    /// per participant: number of content-filtered topics created, and "emptied by
    /// delete_contained_entities and nothing created since"
    cft: [usize; 2],
    emptied: [bool; 2],
    /// topic id -> content-filtered topics created on it
    cft_topic: BTreeMap<usize, usize>,
    topic_seq: u64,
    seq: u32,
}

impl Rt {
    fn children(&self, kind: Kind, id: usize) -> Vec<(Kind, usize)> {
        self.ents
            .iter()
            .filter(|(_, (_, m))| m.alive)
            .filter(|((k, _), (_, m))| match kind {
                Kind::Participant => *k != Kind::Participant && m.part == id,
                Kind::Publisher => *k == Kind::Writer && m.parent == id,
                Kind::Subscriber => *k == Kind::Reader && m.parent == id,
                Kind::Topic => (*k == Kind::Writer || *k == Kind::Reader) && m.topic == id,
                _ => false,
            })
            .map(|(k, _)| *k)
            .collect()
    }
    fn alive(&self, kind: Kind, id: usize) -> bool {
        self.ents.get(&(kind, id)).map(|e| e.1.alive).unwrap_or(false)
    }
    fn dp(&self, part: usize) -> Option<DomainParticipantAsync> {
        match self.ents.get(&(Kind::Participant, part)) {
            Some((Ent::D(d), _)) => Some(d.clone()),
            _ => None,
        }
    }
}

/// cheap, side-effect free liveness check used for re-inspection: `get_qos`
async fn get_qos_name(sim: &Sim, e: &Ent) -> String {
    match e {
        Ent::D(x) => call(sim, x.get_qos()).await.name(),
        Ent::P(x) => call(sim, x.get_qos()).await.name(),
        Ent::S(x) => call(sim, x.get_qos()).await.name(),
        Ent::T(x) => call(sim, x.get_qos()).await.name(),
        Ent::W(x) => call(sim, x.get_qos()).await.name(),
        Ent::R(x) => call(sim, x.get_qos()).await.name(),
    }
}

/// Representative operations of an entity kind: (name, result name).
async fn probe(sim: &Sim, rt: &mut Rt, e: &Ent, deleted: bool) -> Vec<(String, String)> {
    let mut v: Vec<(String, String)> = Vec::new();
    macro_rules! p {
        ($name:expr, $fut:expr) => {{
            let r = call(sim, $fut).await;
            v.push(($name.to_string(), r.name()));
            r
        }};
    }
    rt.seq += 1;
    let seq = rt.seq;
    match e {
        Ent::D(x) => {
            p!("participant.get_qos", x.get_qos());
            p!("participant.set_qos", x.set_qos(QosKind::Default));
            p!("participant.enable", x.enable());
            p!("participant.get_current_time", x.get_current_time());
            p!("participant.get_default_publisher_qos", x.get_default_publisher_qos());
            p!("participant.set_default_publisher_qos", x.set_default_publisher_qos(QosKind::Default));
            p!("participant.get_default_subscriber_qos", x.get_default_subscriber_qos());
            p!("participant.get_default_topic_qos", x.get_default_topic_qos());
            p!("participant.set_default_topic_qos", x.set_default_topic_qos(QosKind::Default));
            p!("participant.get_discovered_participants", x.get_discovered_participants());
            p!("participant.get_discovered_topics", x.get_discovered_topics());
            p!("participant.set_listener", x.set_listener(NO_LISTENER, NO_STATUS));
            if deleted {
                p!("participant.create_publisher", x.create_publisher(QosKind::Default, NO_LISTENER, NO_STATUS));
                p!("participant.create_subscriber", x.create_subscriber(QosKind::Default, NO_LISTENER, NO_STATUS));
                rt.topic_seq += 1;
                let name = format!("X{}", rt.topic_seq);
                p!("participant.create_topic", x.create_topic::<Msg>(&name, "Msg", QosKind::Default, NO_LISTENER, NO_STATUS));
                p!("participant.delete_contained_entities", x.delete_contained_entities());
                let r = call(sim, async { x.lookup_topicdescription("nothing").await.map(|o| o.is_some()) }).await;
                v.push(("participant.lookup_topicdescription".into(), r.name()));
            }
        }
        Ent::P(x) => {
            p!("publisher.get_qos", x.get_qos());
            p!("publisher.set_qos", x.set_qos(QosKind::Default));
            p!("publisher.get_default_datawriter_qos", x.get_default_datawriter_qos());
            p!("publisher.set_default_datawriter_qos", x.set_default_datawriter_qos(QosKind::Default));
            p!("publisher.set_listener", x.set_listener(NO_LISTENER, NO_STATUS));
            if deleted {
                // needs a live topic of the same participant
                let part = x.get_participant().get_instance_handle();
                let topic = rt.ents.iter().find_map(|(_, (e, m))| match e {
                    Ent::T(t) if m.alive && dust_dds::dds_async::topic_description::TopicDescriptionAsync::get_participant(t).get_instance_handle() == part => Some(t.clone()),
                    _ => None,
                });
                if let Some(t) = topic {
                    let r = p!("publisher.create_datawriter", x.create_datawriter::<Msg>(&t, QosKind::Default, NO_LISTENER, NO_STATUS));
                    if let Out::Ok(w) = r {
                        let _ = call(sim, x.delete_datawriter(&w)).await;
                    }
                }
            }
        }
        Ent::S(x) => {
            p!("subscriber.get_qos", x.get_qos());
            p!("subscriber.set_qos", x.set_qos(QosKind::Default));
            p!("subscriber.get_default_datareader_qos", x.get_default_datareader_qos());
            p!("subscriber.set_default_datareader_qos", x.set_default_datareader_qos(QosKind::Default));
            p!("subscriber.set_listener", x.set_listener(NO_LISTENER, NO_STATUS));
            if deleted {
                let part = x.get_participant().get_instance_handle();
                let topic = rt.ents.iter().find_map(|(_, (e, m))| match e {
                    Ent::T(t) if m.alive && dust_dds::dds_async::topic_description::TopicDescriptionAsync::get_participant(t).get_instance_handle() == part => Some(t.clone()),
                    _ => None,
                });
                if let Some(t) = topic {
                    let r = p!("subscriber.create_datareader", x.create_datareader::<Msg>(&t, QosKind::Default, NO_LISTENER, NO_STATUS));
                    if let Out::Ok(w) = r {
                        let _ = call(sim, x.delete_datareader(&w)).await;
                    }
                }
            }
        }
        Ent::T(x) => {
            p!("topic.get_qos", x.get_qos());
            p!("topic.set_qos", x.set_qos(QosKind::Default));
            p!("topic.get_inconsistent_topic_status", x.get_inconsistent_topic_status());
            p!("topic.enable", x.enable());
        }
        Ent::W(x) => {
            p!("writer.get_qos", x.get_qos());
            p!("writer.set_qos", x.set_qos(QosKind::Default));
            p!("writer.enable", x.enable());
            p!("writer.write", x.write(msg(seq % 3, 0, seq, 8), None));
            p!("writer.register_instance", x.register_instance(msg(seq % 3, 0, seq, 0)));
            p!("writer.lookup_instance", x.lookup_instance(msg(seq % 3, 0, seq, 0)));
            p!("writer.dispose", x.dispose(msg(seq % 3, 0, seq, 0), None));
            p!("writer.unregister_instance", x.unregister_instance(msg(seq % 3, 0, seq, 0), None));
            p!("writer.get_matched_subscriptions", x.get_matched_subscriptions());
            p!("writer.get_publication_matched_status", x.get_publication_matched_status());
            p!("writer.get_offered_deadline_missed_status", x.get_offered_deadline_missed_status());
            p!("writer.set_listener", x.set_listener(NO_LISTENER, NO_STATUS));
            if deleted {
                p!("writer.wait_for_acknowledgments", x.wait_for_acknowledgments());
            }
        }
        Ent::R(x) => {
            p!("reader.get_qos", x.get_qos());
            p!("reader.set_qos", x.set_qos(QosKind::Default));
            p!("reader.enable", x.enable());
            p!("reader.read", x.read(10, ANY_SAMPLE_STATE, ANY_VIEW_STATE, ANY_INSTANCE_STATE));
            p!("reader.take", x.take(10, ANY_SAMPLE_STATE, ANY_VIEW_STATE, ANY_INSTANCE_STATE));
            p!("reader.read_next_instance", x.read_next_instance(10, None, ANY_SAMPLE_STATE, ANY_VIEW_STATE, ANY_INSTANCE_STATE));
            p!("reader.get_matched_publications", x.get_matched_publications());
            p!("reader.get_subscription_matched_status", x.get_subscription_matched_status());
            p!("reader.set_listener", x.set_listener(NO_LISTENER, NO_STATUS));
            if deleted {
                p!("reader.wait_for_historical_data", x.wait_for_historical_data());
            }
        }
    }
    v
}

async fn scenario(w: World, nparts: usize, ops: Vec<Op>) -> Outcome {
    let sim = w.sim.clone();
    let mut out = Outcome::default();
    let mut rt = Rt { ents: BTreeMap::new(), cft: [0; 2], emptied: [false; 2], cft_topic: BTreeMap::new(), topic_seq: 0, seq: 0 };
    for p in 0..nparts {
        match call(&sim, w.factory.create_participant(0, QosKind::Default, NO_LISTENER, NO_STATUS)).await {
            Out::Ok(dp) => {
                rt.ents.insert((Kind::Participant, p), (Ent::D(dp), M { alive: true, part: p, parent: 0, topic: 0 }));
            }
            _ => {
                out.aborted_at = Some(0);
                return out;
            }
        }
    }

    macro_rules! stop {
        ($r:expr, $opname:expr, $step:expr) => {{
            match &$r {
                Out::Hang => {
                    out.findings.push(Finding {
                        sig: format!("hang|op={}", $opname),
                        what: format!("{} did not return within 5 s of virtual time", $opname),
                        step: $step,
                    });
                    out.aborted_at = Some($step);
                    return out;
                }
                Out::Dead => {
                    out.panic_op = Some($opname.to_string());
                    out.aborted_at = Some($step);
                    return out;
                }
                _ => {}
            }
        }};
    }
    macro_rules! wrong {
        ($opname:expr, $exp:expr, $got:expr, $detail:expr, $step:expr) => {{
            out.findings.push(Finding {
                sig: format!("wrong_error|op={}|expected={}|got={}", $opname, $exp, $got),
                what: format!("{}: expected {}, got {} ({})", $opname, $exp, $got, $detail),
                step: $step,
            });
        }};
    }

    for (step, op) in ops.iter().enumerate() {
        *out.ops_done.entry(match op {
            Op::Create { kind, .. } => format!("create_{}", kind.name()),
            Op::CreateCft { .. } => "create_contentfilteredtopic".into(),
            Op::Delete { kind, .. } => format!("delete_{}", kind.name()),
            Op::DeleteContained { kind, .. } => format!("{}.delete_contained_entities", kind.name()),
            Op::Probe { kind, .. } => format!("operate_{}", kind.name()),
        }).or_default() += 1;
        match op.clone() {
            Op::Create { kind, id, part, parent, topic } => {
                // creations only on live parents (operations on deleted parents are Probe's job)
                let r: Out<Ent> = match kind {
                    Kind::Publisher => {
                        if !rt.alive(Kind::Participant, part) { continue }
                        let dp = rt.dp(part).unwrap();
                        match call(&sim, dp.create_publisher(QosKind::Default, NO_LISTENER, NO_STATUS)).await {
                            Out::Ok(x) => Out::Ok(Ent::P(x)),
                            o => o.cast(),
                        }
                    }
                    Kind::Subscriber => {
                        if !rt.alive(Kind::Participant, part) { continue }
                        let dp = rt.dp(part).unwrap();
                        match call(&sim, dp.create_subscriber(QosKind::Default, NO_LISTENER, NO_STATUS)).await {
                            Out::Ok(x) => Out::Ok(Ent::S(x)),
                            o => o.cast(),
                        }
                    }
                    Kind::Topic => {
                        if !rt.alive(Kind::Participant, part) { continue }
                        let dp = rt.dp(part).unwrap();
                        rt.topic_seq += 1;
                        let name = format!("T{}", rt.topic_seq);
                        match call(&sim, dp.create_topic::<Msg>(&name, "Msg", QosKind::Default, NO_LISTENER, NO_STATUS)).await {
                            Out::Ok(x) => Out::Ok(Ent::T(x)),
                            o => o.cast(),
                        }
                    }
                    Kind::Writer => {
                        if !rt.alive(Kind::Publisher, parent) || !rt.alive(Kind::Topic, topic) { continue }
                        let (Some((Ent::P(p), pm)), Some((Ent::T(t), tm))) = (rt.ents.get(&(Kind::Publisher, parent)).cloned(), rt.ents.get(&(Kind::Topic, topic)).cloned()) else { continue };
                        if pm.part != tm.part { continue }
                        match call(&sim, p.create_datawriter::<Msg>(&t, QosKind::Default, NO_LISTENER, NO_STATUS)).await {
                            Out::Ok(x) => Out::Ok(Ent::W(x)),
                            o => o.cast(),
                        }
                    }
                    Kind::Reader => {
                        if !rt.alive(Kind::Subscriber, parent) || !rt.alive(Kind::Topic, topic) { continue }
                        let (Some((Ent::S(p), pm)), Some((Ent::T(t), tm))) = (rt.ents.get(&(Kind::Subscriber, parent)).cloned(), rt.ents.get(&(Kind::Topic, topic)).cloned()) else { continue };
                        if pm.part != tm.part { continue }
                        match call(&sim, p.create_datareader::<Msg>(&t, QosKind::Default, NO_LISTENER, NO_STATUS)).await {
                            Out::Ok(x) => Out::Ok(Ent::R(x)),
                            o => o.cast(),
                        }
                    }
                    Kind::Participant => continue,
                };
                let opname = format!("create_{}", kind.name());
                stop!(r, opname, step);
                out.results.insert(format!("{opname}:{}", r.name()));
                if let Out::Ok(e) = r {
                    let part = match kind {
                        Kind::Writer => rt.ents[&(Kind::Publisher, parent)].1.part,
                        Kind::Reader => rt.ents[&(Kind::Subscriber, parent)].1.part,
                        _ => part,
                    };
                    rt.emptied[part] = false;
                    rt.ents.insert((kind, id), (e, M { alive: true, part, parent, topic }));
                }
            }
            Op::CreateCft { part, topic } => {
                if !rt.alive(Kind::Participant, part) || !rt.alive(Kind::Topic, topic) { continue }
                let Some((Ent::T(t), tm)) = rt.ents.get(&(Kind::Topic, topic)).cloned() else { continue };
                if tm.part != part { continue }
                let dp = rt.dp(part).unwrap();
                rt.topic_seq += 1;
                let name = format!("F{}", rt.topic_seq);
                let r = call(&sim, dp.create_contentfilteredtopic(&name, &t, "key = %0".to_string(), vec!["1".to_string()])).await;
                stop!(r, "create_contentfilteredtopic", step);
                out.results.insert(format!("create_contentfilteredtopic:{}", r.name()));
                if r.is_ok() {
                    rt.cft[part] += 1;
                    *rt.cft_topic.entry(topic).or_default() += 1;
                    rt.emptied[part] = false;
                }
            }
            Op::Delete { kind, id } => {
                let Some((e, m)) = rt.ents.get(&(kind, id)).cloned() else { continue };
                let opname = format!("delete_{}", kind.name());
                let children = rt.children(kind, id);
                // deletion goes through the entity's own parent (the property does not cover
                // deleting through a foreign parent)
                let r: Out<()> = match &e {
                    Ent::D(d) => call(&sim, w.factory.delete_participant(d)).await,
                    Ent::P(p) => call(&sim, p.get_participant().delete_publisher(p)).await,
                    Ent::S(s) => call(&sim, s.get_participant().delete_subscriber(s)).await,
                    Ent::T(t) => call(&sim, dust_dds::dds_async::topic_description::TopicDescriptionAsync::get_participant(t).delete_topic(t)).await,
                    Ent::W(x) => call(&sim, x.get_publisher().delete_datawriter(x)).await,
                    Ent::R(x) => call(&sim, x.get_subscriber().delete_datareader(x)).await,
                };
                stop!(r, opname, step);
                let got = r.name();
                out.results.insert(format!("{opname}:{got}"));
                let after_dc = kind == Kind::Participant && m.alive && children.is_empty() && rt.emptied[m.part];
                let cft_only = kind == Kind::Participant && children.is_empty() && rt.cft[m.part] > 0 && !after_dc;
                // a topic referenced by a content-filtered topic / a participant whose only
                // children are content-filtered topics: the text does not settle it
                let unsettled = cft_only || (kind == Kind::Topic && children.is_empty() && rt.cft_topic.get(&id).cloned().unwrap_or(0) > 0 && m.alive);
                let state = if !m.alive { "deleted" } else if !children.is_empty() { "has_children" } else if unsettled { "unsettled" } else if after_dc { "after_delete_contained" } else { "empty" };
                out.shapes.push(format!("{opname}/{state}/{got}"));
                if !m.alive {
                    out.mechanisms += 1;
                    // operation on a deleted entity: must fail (AlreadyDeleted is what the text
                    // names; any other error for a repeated delete is not flagged)
                    if r.is_ok() {
                        wrong!(opname, "AlreadyDeleted", got, format!("{} #{id} had already been deleted", kind.name()), step);
                    }
                } else if !children.is_empty() {
                    out.mechanisms += 1;
                    if got != "PreconditionNotMet" {
                        wrong!(opname, "PreconditionNotMet", got, format!("{} #{id} still contained/was used by {} live entities", kind.name(), children.len()), step);
                    }
                    if r.is_ok() {
                        // re-sync the model with what the implementation did
                        rt.ents.get_mut(&(kind, id)).unwrap().1.alive = false;
                    } else {
                        // nothing may have changed: parent and children still usable
                        let mut broken: Vec<String> = Vec::new();
                        let q = get_qos_name(&sim, &e).await;
                        if q != "Ok" {
                            broken.push(format!("{}#{id}.get_qos={q}", kind.name()));
                        }
                        for (ck, cid) in &children {
                            let ce = rt.ents[&(*ck, *cid)].0.clone();
                            let q = get_qos_name(&sim, &ce).await;
                            if q != "Ok" {
                                broken.push(format!("{}#{cid}.get_qos={q}", ck.name()));
                            }
                            if let Ent::W(x) = &ce {
                                rt.seq += 1;
                                let r2 = call(&sim, x.write(msg(0, 0, rt.seq, 4), None)).await;
                                stop!(r2, "write", step);
                                if r2.name() == "AlreadyDeleted" {
                                    broken.push(format!("writer#{cid}.write=AlreadyDeleted"));
                                }
                            }
                            if let Ent::R(x) = &ce {
                                let r2 = call(&sim, x.read(1, ANY_SAMPLE_STATE, ANY_VIEW_STATE, ANY_INSTANCE_STATE)).await;
                                stop!(r2, "read", step);
                                if r2.name() == "AlreadyDeleted" {
                                    broken.push(format!("reader#{cid}.read=AlreadyDeleted"));
                                }
                            }
                        }
                        if sim.worker_dead() {
                            out.panic_op = Some(format!("re-inspection after {opname}"));
                            out.aborted_at = Some(step);
                            return out;
                        }
                        if !broken.is_empty() {
                            out.findings.push(Finding {
                                sig: format!("state_changed_on_error|op={opname}"),
                                what: format!("{opname} of {} #{id} failed with {got} but afterwards: {}", kind.name(), broken.join(", ")),
                                step,
                            });
                        }
                    }
                } else if unsettled {
                    // accept either answer, follow the implementation
                    if r.is_ok() {
                        rt.ents.get_mut(&(kind, id)).unwrap().1.alive = false;
                    }
                } else {
                    // empty and alive: deletion must succeed
                    out.mechanisms += 1;
                    if r.is_ok() {
                        rt.ents.get_mut(&(kind, id)).unwrap().1.alive = false;
                    } else if kind == Kind::Participant && rt.emptied[m.part] {
                        out.findings.push(Finding {
                            sig: format!("not_deletable_after_delete_contained|kind=participant|cft={}", yn(rt.cft[m.part] > 0)),
                            what: format!(
                                "participant #{id}: delete_contained_entities returned Ok and nothing was created afterwards, but delete_participant fails with {got} ({} content-filtered topics had been created)",
                                rt.cft[m.part]
                            ),
                            step,
                        });
                    } else {
                        wrong!(opname, "Ok", got, format!("{} #{id} is alive and contains nothing", kind.name()), step);
                    }
                }
            }
            Op::DeleteContained { kind, id } => {
                let Some((e, m)) = rt.ents.get(&(kind, id)).cloned() else { continue };
                if !m.alive { continue }
                let opname = format!("{}.delete_contained_entities", kind.name());
                let children = rt.children(kind, id);
                let r: Out<()> = match &e {
                    Ent::D(d) => call_catch(&sim, d.delete_contained_entities()).await,
                    Ent::P(p) => call_catch(&sim, p.delete_contained_entities()).await,
                    Ent::S(s) => call_catch(&sim, s.delete_contained_entities()).await,
                    _ => continue,
                };
                stop!(r, opname, step);
                let got = r.name();
                out.results.insert(format!("{opname}:{got}"));
                out.shapes.push(format!("{opname}/{}children/{got}", children.len().min(3)));
                out.mechanisms += 1;
                match &r {
                    Out::Panic(m) => {
                        out.findings.push(Finding {
                            sig: format!("panic|op={opname}|{}", vcore::normalize_msg(m.split(" @ ").next().unwrap_or(""))),
                            what: format!("{opname} panicked in the caller's task: {m}"),
                            step,
                        });
                    }
                    Out::Ok(()) => {
                        // every contained entity is gone now
                        let mut left: Vec<String> = Vec::new();
                        let mut first_kind = None;
                        for (ck, cid) in &children {
                            let ce = rt.ents[&(*ck, *cid)].0.clone();
                            let q = get_qos_name(&sim, &ce).await;
                            if q == "Ok" {
                                left.push(format!("{}#{cid}", ck.name()));
                                first_kind.get_or_insert(*ck);
                            } else {
                                rt.ents.get_mut(&(*ck, *cid)).unwrap().1.alive = false;
                            }
                        }
                        if sim.worker_dead() {
                            out.panic_op = Some(format!("re-inspection after {opname}"));
                            out.aborted_at = Some(step);
                            return out;
                        }
                        if let Some(fk) = first_kind {
                            out.findings.push(Finding {
                                sig: format!("not_empty_after_delete_contained|kind={}|child={}", kind.name(), fk.name()),
                                what: format!("{opname} on {} #{id} returned Ok but these contained entities still answer get_qos with Ok: {}", kind.name(), left.join(", ")),
                                step,
                            });
                        }
                        if kind == Kind::Participant {
                            rt.emptied[id] = true;
                        }
                    }
                    _ => {
                        wrong!(opname, "Ok", got, format!("{} #{id} is alive", kind.name()), step);
                    }
                }
            }
            Op::Probe { kind, id } => {
                let Some((e, m)) = rt.ents.get(&(kind, id)).cloned() else { continue };
                // an entity is deleted if it or one of its ancestors was deleted
                let deleted = !m.alive;
                let res = probe(&sim, &mut rt, &e, deleted).await;
                if sim.worker_dead() {
                    out.panic_op = Some(res.iter().find(|x| x.1 == "WorkerPanicked").map(|x| x.0.clone()).unwrap_or_else(|| format!("operate_{}", kind.name())));
                    out.aborted_at = Some(step);
                    return out;
                }
                for (name, got) in &res {
                    out.results.insert(format!("{name}[{}]:{got}", if deleted { "deleted" } else { "live" }));
                    if got == "Hang" {
                        out.findings.push(Finding {
                            sig: format!("hang|op={name}"),
                            what: format!("{name} on a {} {} #{id} did not return within 5 s of virtual time", if deleted { "deleted" } else { "live" }, kind.name()),
                            step,
                        });
                        out.aborted_at = Some(step);
                        return out;
                    }
                    if deleted {
                        out.mechanisms += 1;
                        if got != "AlreadyDeleted" {
                            wrong!(name, "AlreadyDeleted", got, format!("{} #{id} has been deleted", kind.name()), step);
                        }
                    }
                }
                out.shapes.push(format!("probe_{}/{}", kind.name(), if deleted { "deleted" } else { "live" }));
            }
        }
    }
    out
}

// ------------------------------------------------------------------------------------------
// generation (tracks a shadow model only to bias towards interesting ops; the oracle's model
// lives in the scenario and works for arbitrary - also shrunk - histories)

struct Gen {
    ops: Vec<Op>,
    next_id: usize,
    nparts: usize,
    /// (kind, id, part, parent, topic, alive)
    ents: Vec<(Kind, usize, usize, usize, usize, bool)>,
    part_alive: [bool; 2],
}

impl Gen {
    fn live(&self, kind: Kind) -> Vec<(Kind, usize, usize, usize, usize, bool)> {
        self.ents.iter().filter(|e| e.0 == kind && e.5).cloned().collect()
    }
    fn dead(&self) -> Vec<(Kind, usize, usize, usize, usize, bool)> {
        self.ents.iter().filter(|e| !e.5).cloned().collect()
    }
    fn has_children(&self, kind: Kind, id: usize) -> bool {
        self.ents.iter().any(|e| {
            e.5 && match kind {
                Kind::Participant => e.2 == id,
                Kind::Publisher => e.0 == Kind::Writer && e.3 == id,
                Kind::Subscriber => e.0 == Kind::Reader && e.3 == id,
                Kind::Topic => (e.0 == Kind::Writer || e.0 == Kind::Reader) && e.4 == id,
                _ => false,
            }
        })
    }
    fn kill(&mut self, kind: Kind, id: usize) {
        for e in self.ents.iter_mut() {
            if e.0 == kind && e.1 == id {
                e.5 = false;
            }
        }
    }
    fn create(&mut self, rng: &mut Rng, kind: Kind) {
        let parts: Vec<usize> = (0..self.nparts).filter(|p| self.part_alive[*p]).collect();
        if parts.is_empty() {
            return;
        }
        let part = *rng.pick(&parts);
        let id = self.next_id;
        match kind {
            Kind::Publisher | Kind::Subscriber | Kind::Topic => {
                self.next_id += 1;
                self.ents.push((kind, id, part, 0, 0, true));
                self.ops.push(Op::Create { kind, id, part, parent: 0, topic: 0 });
            }
            Kind::Writer | Kind::Reader => {
                let pk = if kind == Kind::Writer { Kind::Publisher } else { Kind::Subscriber };
                let ps: Vec<_> = self.live(pk).into_iter().filter(|e| e.2 == part).collect();
                let ts: Vec<_> = self.live(Kind::Topic).into_iter().filter(|e| e.2 == part).collect();
                if ps.is_empty() || ts.is_empty() {
                    return;
                }
                let p = rng.pick(&ps).1;
                let t = rng.pick(&ts).1;
                self.next_id += 1;
                self.ents.push((kind, id, part, p, t, true));
                self.ops.push(Op::Create { kind, id, part, parent: p, topic: t });
            }
            Kind::Participant => {}
        }
    }
    fn step(&mut self, rng: &mut Rng) {
        let r = rng.below(100);
        if r < 40 {
            let kind = *rng.pick(&[Kind::Publisher, Kind::Subscriber, Kind::Topic, Kind::Topic, Kind::Writer, Kind::Writer, Kind::Reader, Kind::Reader]);
            self.create(rng, kind);
        } else if r < 43 {
            let ts = self.live(Kind::Topic);
            if !ts.is_empty() {
                let t = rng.pick(&ts).clone();
                self.ops.push(Op::CreateCft { part: t.2, topic: t.1 });
            }
        } else if r < 70 {
            // delete something: alive (with or without children) or already deleted
            let kind = *rng.pick(&[Kind::Publisher, Kind::Subscriber, Kind::Topic, Kind::Writer, Kind::Reader, Kind::Participant]);
            if kind == Kind::Participant {
                let p = rng.usize(self.nparts);
                // do not throw the whole world away too early
                if self.has_children(Kind::Participant, p) || rng.chance(0.3) {
                    self.ops.push(Op::Delete { kind, id: p });
                    if !self.has_children(Kind::Participant, p) {
                        self.part_alive[p] = false;
                    }
                }
                return;
            }
            let cands: Vec<_> = if rng.chance(0.2) { self.dead().into_iter().filter(|e| e.0 == kind).collect() } else { self.live(kind) };
            if cands.is_empty() {
                return;
            }
            let e = rng.pick(&cands).clone();
            self.ops.push(Op::Delete { kind, id: e.1 });
            if e.5 && !self.has_children(kind, e.1) {
                self.kill(kind, e.1);
            }
        } else if r < 76 {
            let kind = *rng.pick(&[Kind::Participant, Kind::Participant, Kind::Publisher, Kind::Subscriber]);
            if kind == Kind::Participant {
                let p = rng.usize(self.nparts);
                if !self.part_alive[p] {
                    return;
                }
                self.ops.push(Op::DeleteContained { kind, id: p });
                for e in self.ents.iter_mut() {
                    if e.2 == p {
                        e.5 = false;
                    }
                }
                if rng.chance(0.6) {
                    self.ops.push(Op::Delete { kind, id: p });
                    self.part_alive[p] = false;
                }
            } else {
                let c = self.live(kind);
                if !c.is_empty() {
                    let e = rng.pick(&c).clone();
                    self.ops.push(Op::DeleteContained { kind, id: e.1 });
                }
            }
        } else {
            // operate on a deleted (preferably) or live entity
            let dead = self.dead();
            let mut dead_parts: Vec<usize> = (0..self.nparts).filter(|p| !self.part_alive[*p]).collect();
            if !dead_parts.is_empty() && rng.chance(0.3) {
                let p = dead_parts.remove(rng.usize(dead_parts.len()));
                self.ops.push(Op::Probe { kind: Kind::Participant, id: p });
            } else if !dead.is_empty() && rng.chance(0.75) {
                let e = rng.pick(&dead).clone();
                self.ops.push(Op::Probe { kind: e.0, id: e.1 });
            } else if !self.ents.is_empty() {
                let e = rng.pick(&self.ents).clone();
                self.ops.push(Op::Probe { kind: e.0, id: e.1 });
            }
        }
    }
}

fn gen_history(rng: &mut Rng, thorough: bool) -> (usize, Vec<Op>) {
    let nparts = if rng.chance(0.4) { 2 } else { 1 };
    let mut g = Gen { ops: vec![], next_id: 1, nparts, ents: vec![], part_alive: [true, nparts > 1] };
    let n = 15 + rng.usize(if thorough { 90 } else { 50 });
    // seed a little tree first so that preconditions are reachable
    for k in [Kind::Topic, Kind::Publisher, Kind::Subscriber, Kind::Writer, Kind::Reader] {
        if rng.chance(0.8) {
            g.create(rng, k);
        }
    }
    for _ in 0..n {
        g.step(rng);
    }
    (nparts, g.ops)
}

// ------------------------------------------------------------------------------------------

fn run_ops(cs: u64, nparts: usize, ops: &[Op], policy: Policy) -> (Option<Outcome>, RunStats) {
    let mut cfg = WorldConfig::default();
    cfg.sim.seed = cs;
    cfg.sim.policy = policy;
    cfg.sim.max_polls = 3_000_000;
    let ops2 = ops.to_vec();
    let (res, stats, _net) = run_world(&cfg, move |w| scenario(w, nparts, ops2));
    (res, stats)
}

fn sigs_of(res: &Option<Outcome>, stats: &RunStats) -> Vec<(String, String, usize)> {
    let mut v: Vec<(String, String, usize)> = Vec::new();
    let panics = dds_panics(stats);
    let op = res.as_ref().and_then(|o| o.panic_op.clone()).unwrap_or_else(|| "idle".into());
    for p in &panics {
        v.push((panic_sig(p, &op), format!("DDS {:?} task panicked at {} during {}: {}", p.task, p.location, op, p.msg), res.as_ref().and_then(|o| o.aborted_at).unwrap_or(usize::MAX)));
    }
    if let Some(o) = res {
        for f in &o.findings {
            if f.sig.starts_with("hang|") && !panics.is_empty() {
                continue;
            }
            v.push((f.sig.clone(), f.what.clone(), f.step));
        }
    }
    v
}

fn shrink(cs: u64, nparts: usize, policy: Policy, ops: &[Op], sig: &str) -> Vec<Op> {
    let mut budget = 250usize;
    let test = |cand: &[Op]| -> bool {
        let (r, s) = run_ops(cs, nparts, cand, policy);
        sigs_of(&r, &s).iter().any(|(x, _, _)| x == sig)
    };
    ddmin(ops.to_vec(), test, &mut budget)
}

fn history_json(ops: &[Op]) -> Json {
    strs(&ops.iter().map(|o| o.show()).collect::<Vec<_>>())
}

pub fn run(shard: &Shard) -> Report {
    let mut rep = Report::new("C36");
    let tier = replay_tier(shard);
    let thorough = tier == "thorough";
    let trace = shard.args.has("trace");
    for case in shard.my_cases() {
        let cs = shard.case_seed(case);
        let mut rng = Rng::new(cs);
        let (nparts, ops) = gen_history(&mut rng, thorough);
        let policy = pick_policy(&mut rng);
        if trace {
            eprintln!("case {case} ({nparts} participants): {}", history_json(&ops).to_string());
        }
        let (res, stats) = run_ops(cs, nparts, &ops, policy);
        rep.eval();
        let replay = shard
            .base_replay("c36", case)
            .set("engine", "scen_ent")
            .set("tier", tier.clone())
            .set("participants", nparts)
            .set("history", history_json(&ops));
        let found = sigs_of(&res, &stats);
        for p in &stats.panics {
            if p.task == TaskKind::Local {
                rep.inconclusive(format!("case {case}: harness task panicked at {}: {}", p.location, p.msg));
            }
        }
        let mut done: Vec<String> = Vec::new();
        for (sig, what, at_step) in &found {
            if done.contains(sig) {
                continue;
            }
            done.push(sig.clone());
            let seen = rep.violation_counts.get(sig).cloned().unwrap_or(0);
            let mut r = replay.clone().set("violation", sig.clone());
            let mut what = what.clone();
            if seen < 1 {
                let cut = (*at_step).min(ops.len() - 1);
                let min = shrink(cs, nparts, policy, &ops[..=cut], sig);
                // the witness text of the minimal run
                let (r2, s2) = run_ops(cs, nparts, &min, policy);
                if let Some((_, w2, _)) = sigs_of(&r2, &s2).into_iter().find(|(x, _, _)| x == sig) {
                    what = w2;
                }
                what = format!("{what}; minimal history: {}", history_json(&min).to_string());
                r = r.set("minimal_history", history_json(&min));
            }
            if sig.starts_with("panic|") {
                if let Some(p) = dds_panics(&stats).first() {
                    r = r.set("panic_location", p.location.clone());
                }
            }
            rep.violation(sig.clone(), what, r);
        }
        let Some(o) = res else {
            if found.is_empty() {
                rep.inconclusive(format!("case {case}: history did not finish ({:?})", stats.stop));
            }
            continue;
        };
        for (k, v) in &o.ops_done {
            rep.stat(&format!("op_{k}"), *v as i128);
        }
        for r in &o.results {
            rep.set("errors", r.clone());
        }
        rep.stat("oracle_checks", o.mechanisms as i128);
        rep.stat("polls", stats.polls as i128);
        if o.aborted_at.is_some() && found.is_empty() {
            rep.inconclusive(format!("case {case}: history aborted at step {:?} without a finding", o.aborted_at));
        }
        for s in &o.shapes {
            rep.set("model_states", s.clone());
        }
        // non-trivial: at least one precondition / deleted-entity / delete_contained check ran;
        // distinct = sequence of (op, model state, result)
        if o.mechanisms > 0 {
            rep.nontrivial(hash_strs(o.shapes.iter().map(|s| s.as_str())));
        }
        if case < 64 {
            rep.sample(
                Json::obj()
                    .set("case", case)
                    .set("participants", nparts)
                    .set("history", history_json(&ops))
                    .set("checked", strs(&o.shapes))
                    .set("violations", strs(&found.iter().map(|x| x.0.clone()).collect::<Vec<_>>())),
            );
        }
    }
    rep
}
