//! E1: deterministic simulation of real dust-dds participants (virtual time, faulty network).
pub mod exec;
pub mod hang;
pub mod net;
pub mod world;

pub use exec::*;
pub use net::*;
pub use world::*;
