//! C19, writer side: a write that would exceed the WRITER's resource limits returns OutOfResources
//! and nothing is stored for it (checked through a matched reader and a late-joining
//! TRANSIENT_LOCAL probe reader).
use crate::common::*;
use crate::hist::*;
use crate::run::*;
use dust_dds::infrastructure::error::DdsError;
use dust_dds::infrastructure::listener::NO_LISTENER;
use dust_dds::infrastructure::qos::{DataReaderQos, DataWriterQos, QosKind};
use dust_dds::infrastructure::qos_policy::*;
use dust_dds::infrastructure::sample_info::{ANY_INSTANCE_STATE, ANY_SAMPLE_STATE, ANY_VIEW_STATE};
use simnet::*;
use std::collections::{BTreeMap, BTreeSet, VecDeque};
use vcore::Rng;

/// `cfg.prop` is "C19W" (probe reader only) or "C19WL" (additionally a matched live reader); the
/// history / limits in `cfg` are the WRITER's.
pub fn generate(rng: &mut Rng, thorough: bool) -> Hist {
    let mut cfg = Cfg::base(if rng.bool() { "C19W" } else { "C19WL" }, rng);
    cfg.n_writers = 1;
    let n_inst = 1 + rng.usize(4);
    loop {
        cfg.depth = if rng.chance(0.4) { Some(1 + rng.below(3) as u32) } else { None };
        cfg.max_spi = if rng.chance(0.5) { Some(1 + rng.below(4) as i32) } else { None };
        cfg.max_samples = if rng.chance(0.5) { Some(1 + rng.below(8) as i32) } else { None };
        cfg.max_instances = if rng.chance(0.4) { Some(1 + rng.below(3) as i32) } else { None };
        if cfg.max_samples.is_some() && cfg.max_spi.is_none() {
            cfg.max_spi = cfg.max_samples;
        }
        if let (Some(ms), Some(spi)) = (cfg.max_samples, cfg.max_spi) {
            if ms < spi {
                continue;
            }
        }
        if let (Some(d), Some(spi)) = (cfg.depth, cfg.max_spi) {
            if d as i32 > spi {
                continue;
            }
        }
        if cfg.max_spi.is_some() || cfg.max_samples.is_some() || cfg.max_instances.is_some() {
            break;
        }
    }
    let n = if thorough { 5 + rng.usize(40) } else { 4 + rng.usize(20) };
    let mut pool: Vec<u32> = (0..12).collect();
    rng.shuffle(&mut pool);
    let keys = &pool[..n_inst];
    let mut ops = Vec::new();
    for i in 0..n {
        ops.push(Op::Write { w: 0, key: *rng.pick(keys), seq: i as u32 + 1, ts: i as i64 + 1 });
        // unregister_instance keeps the instance's samples in the writer history: they still count
        // towards max_samples / max_samples_per_instance when the writer is written to again
        if rng.chance(0.25) {
            ops.push(Op::Unreg { w: 0, key: *rng.pick(keys), ts: i as i64 + 1 });
        }
    }
    Hist { cfg, ops }
}

fn lim(x: Option<i32>) -> Length {
    match x {
        None => Length::Unlimited,
        Some(v) => Length::Limited(v),
    }
}

pub async fn scenario(w: World, h: Hist, trace: bool) -> Outcome {
    let mut out = Outcome::default();
    let cfg = h.cfg.clone();
    let sim = w.sim.clone();
    let live = cfg.prop == "C19WL";
    let wq = DataWriterQos {
        reliability: reliable(1000),
        durability: DurabilityQosPolicy { kind: DurabilityQosPolicyKind::TransientLocal },
        history: match cfg.depth {
            None => keep_all(),
            Some(d) => keep_last(d),
        },
        resource_limits: ResourceLimitsQosPolicy {
            max_samples: lim(cfg.max_samples),
            max_instances: lim(cfg.max_instances),
            max_samples_per_instance: lim(cfg.max_spi),
        },
        ..Default::default()
    };
    let rq = DataReaderQos {
        reliability: reliable(1000),
        durability: DurabilityQosPolicy { kind: DurabilityQosPolicyKind::TransientLocal },
        history: keep_all(),
        ..Default::default()
    };
    let dpw = new_participant(&w, 0).await;
    let tw = new_topic::<Msg>(&dpw, "RCW", "Msg").await;
    let pb = new_publisher(&dpw).await;
    let dw = match pb.create_datawriter::<Msg>(&tw, QosKind::Specific(wq), NO_LISTENER, &[]).await {
        Ok(d) => d,
        Err(e) => {
            out.inconclusive = Some(format!("create_datawriter: {}", err_name(&e)));
            return out;
        }
    };
    let mut live_reader = None;
    let mut keep = Vec::new();
    if live {
        let dp = new_participant(&w, 0).await;
        let t = new_topic::<Msg>(&dp, "RCW", "Msg").await;
        let sb = new_subscriber(&dp).await;
        let dr = new_reader::<Msg>(&sb, &t, rq.clone()).await;
        if !wait_matched(&sim, &dw, 1, 20 * SEC).await || !wait_reader_matched(&sim, &dr, 1, 20 * SEC).await {
            out.inconclusive = Some("live reader did not match within 20 s".into());
            return out;
        }
        live_reader = Some(dr);
        keep.push((dp, t, sb));
    }
    // ---- the writes
    let mut per: BTreeMap<u32, VecDeque<u32>> = BTreeMap::new();
    // seq -> why the model refuses it
    let mut refused: BTreeMap<u32, &'static str> = BTreeMap::new();
    let mut failed: BTreeSet<u32> = BTreeSet::new();
    let mut shape = vcore::fnv_str(&cfg.class());
    let mut verified = 0i64;
    for (oi, op) in h.ops.iter().enumerate() {
        out.ops_executed = oi + 1;
        if let Op::Unreg { key, ts, .. } = op {
            // result not judged (BadParameter when the instance is not registered); the model's
            // stored samples are unchanged by it
            let Ok(res) = sim.timeout(10 * SEC, dw.unregister_instance_w_timestamp(msg(*key, 0, 0, 0), None, ts_to_time(*ts))).await else {
                out.inconclusive = Some(format!("unregister_instance #{oi} did not return within 10 s virtual"));
                return out;
            };
            if trace {
                out.trace.push(format!("#{oi} {} -> {}", op.encode(), match &res { Ok(_) => "Ok".to_string(), Err(e) => err_name(e) }));
            }
            out.stat(if res.is_ok() { "unregister_ok" } else { "unregister_refused" }, 1);
            shape = vcore::mix(shape, vcore::fnv_str(&op.shape()));
            settle_net(&w).await;
            continue;
        }
        let Op::Write { key, seq, ts, .. } = op else { continue };
        let total: usize = per.values().map(|v| v.len()).sum();
        let inst_len = per.get(key).map(|v| v.len()).unwrap_or(0);
        let mut expect: Option<&'static str> = None;
        if !per.contains_key(key) && cfg.max_instances.map(|m| per.len() as i32 >= m).unwrap_or(false) {
            expect = Some("max_instances");
        } else if cfg.depth.map(|d| inst_len as u32 >= d).unwrap_or(false) {
            // replaces the oldest sample of the instance: no limit can be exceeded
        } else if cfg.max_spi.map(|m| inst_len as i32 >= m).unwrap_or(false) {
            expect = Some("max_samples_per_instance");
        } else if cfg.max_samples.map(|m| total as i32 >= m).unwrap_or(false) {
            expect = Some("max_samples");
        }
        let Ok(res) = sim.timeout(10 * SEC, dw.write_w_timestamp(msg(*key, 0, *seq, 8), None, ts_to_time(*ts))).await else {
            out.inconclusive = Some(format!("write #{oi} did not return within 10 s virtual"));
            return out;
        };
        if trace {
            out.trace.push(format!(
                "#{oi} {} -> {} (model: {})",
                op.encode(),
                match &res {
                    Ok(()) => "Ok".to_string(),
                    Err(e) => err_name(e),
                },
                expect.map(|k| format!("exceeds {k}")).unwrap_or("fits".into())
            ));
        }
        shape = vcore::mix(shape, vcore::fnv_str(&format!("{}{:?}", op.shape(), expect)));
        match (&res, expect) {
            (Ok(()), Some(kind)) => {
                out.findings.push(Found {
                    sig: format!("writer|{kind}|not_refused"),
                    what: format!(
                        "write #{oi} (k{key}) returned Ok although the writer (TRANSIENT_LOCAL, {}) already holds {total} samples / {inst_len} of this instance / {} instances and its {kind} is {:?}",
                        match cfg.depth {
                            None => "KEEP_ALL".to_string(),
                            Some(d) => format!("KEEP_LAST({d})"),
                        },
                        per.len(),
                        match kind {
                            "max_instances" => cfg.max_instances,
                            "max_samples" => cfg.max_samples,
                            _ => cfg.max_spi,
                        }
                    ),
                    op_index: oi,
                });
                return finish(out, shape, verified);
            }
            (Err(e), Some(kind)) => {
                refused.insert(*seq, kind);
                failed.insert(*seq);
                if matches!(e, DdsError::OutOfResources) {
                    verified += 1;
                } else {
                    out.stat(&format!("refused_with_{}", err_name(e)), 1);
                }
            }
            (Err(e), None) => {
                failed.insert(*seq);
                out.stat(&format!("write_failed_though_it_fits_{}", err_name(e)), 1);
            }
            (Ok(()), None) => {
                let q = per.entry(*key).or_default();
                if cfg.depth.map(|d| q.len() as u32 >= d).unwrap_or(false) {
                    q.pop_front();
                }
                q.push_back(*seq);
            }
        }
        settle_net(&w).await;
    }
    // ---- what did readers get
    let check = |who: &str, ids: &[(u32, u32)], out: &mut Outcome| -> bool {
        for (key, seq) in ids {
            if failed.contains(seq) {
                let kind = refused.get(seq).copied().unwrap_or("none");
                out.findings.push(Found {
                    sig: format!("writer|{kind}|writer_stored"),
                    what: format!("the {who} reader received sample #{seq} (k{key}) whose write() had failed"),
                    op_index: h.ops.len(),
                });
                return true;
            }
        }
        false
    };
    if let Some(dr) = &live_reader {
        sim.sleep(300 * MS).await;
        let got = dr.take(i32::MAX, ANY_SAMPLE_STATE, ANY_VIEW_STATE, ANY_INSTANCE_STATE).await.unwrap_or_default();
        let ids: Vec<(u32, u32)> = got.iter().filter_map(|s| s.data.as_ref().map(|m| (m.key, m.seq))).collect();
        out.stat("live_reader_samples", ids.len() as i64);
        if check("matched", &ids, &mut out) {
            return finish(out, shape, verified);
        }
    }
    {
        let dp = new_participant(&w, 0).await;
        let t = new_topic::<Msg>(&dp, "RCW", "Msg").await;
        let sb = new_subscriber(&dp).await;
        let dr = new_reader::<Msg>(&sb, &t, rq.clone()).await;
        if !wait_reader_matched(&sim, &dr, 1, 20 * SEC).await {
            out.inconclusive = Some("probe reader did not match within 20 s".into());
            return out;
        }
        sim.sleep(2 * SEC).await;
        let got = dr.take(i32::MAX, ANY_SAMPLE_STATE, ANY_VIEW_STATE, ANY_INSTANCE_STATE).await.unwrap_or_default();
        let ids: Vec<(u32, u32)> = got.iter().filter_map(|s| s.data.as_ref().map(|m| (m.key, m.seq))).collect();
        out.stat("probe_reader_samples", ids.len() as i64);
        if trace {
            out.trace.push(format!("probe reader received {:?}", ids));
        }
        if check("late-joining TRANSIENT_LOCAL", &ids, &mut out) {
            return finish(out, shape, verified);
        }
        // what the writer holds never exceeds its limits
        let mut by_key: BTreeMap<u32, usize> = BTreeMap::new();
        for (k, _) in &ids {
            *by_key.entry(*k).or_default() += 1;
        }
        let over = if cfg.max_samples.map(|m| ids.len() as i32 > m).unwrap_or(false) {
            Some("max_samples")
        } else if cfg.max_instances.map(|m| by_key.len() as i32 > m).unwrap_or(false) {
            Some("max_instances")
        } else if by_key.values().any(|n| cfg.max_spi.map(|m| *n as i32 > m).unwrap_or(false)) {
            Some("max_samples_per_instance")
        } else {
            None
        };
        if let Some(kind) = over {
            out.findings.push(Found {
                sig: format!("writer|{kind}|stored_over_limit"),
                what: format!("the late-joining reader received {} samples of {} instances from a writer with limits {:?}/{:?}/{:?}", ids.len(), by_key.len(), cfg.max_samples, cfg.max_instances, cfg.max_spi),
                op_index: h.ops.len(),
            });
        }
        let expected: usize = per.values().map(|v| v.len()).sum();
        if ids.len() < expected {
            out.stat("probe_reader_got_less_than_writer_history(not judged)", 1);
        }
        keep.push((dp, t, sb));
    }
    finish(out, shape, verified)
}

fn finish(mut out: Outcome, shape: u64, verified: i64) -> Outcome {
    out.stat("writer_refusals_verified", verified);
    out.shape = shape;
    out.nontrivial = verified >= 1;
    out
}
