//! Helpers shared by the entity-level monitors (C28, C35, C36, C37).
#![allow(dead_code)]
use dust_dds::infrastructure::error::{DdsError, DdsResult};
use simnet::*;
use std::future::Future;
use std::panic::{AssertUnwindSafe, catch_unwind};
use std::pin::Pin;
use std::task::{Context, Poll};
use vcore::Json;

/// Outcome of one API call raced against a bounded virtual-time reply.
#[derive(Debug)]
pub enum Out<T> {
    Ok(T),
    Err(DdsError),
    /// no reply within the bound (virtual time)
    Hang,
    /// the API future itself panicked in the caller's task (message)
    Panic(String),
    /// the DDS worker task panicked while this call was in flight (whatever the call returned)
    Dead,
}

impl<T> Out<T> {
    pub fn name(&self) -> String {
        match self {
            Out::Ok(_) => "Ok".into(),
            Out::Err(e) => crate::common::err_name(e),
            Out::Hang => "Hang".into(),
            Out::Panic(_) => "Panic".into(),
            Out::Dead => "WorkerPanicked".into(),
        }
    }
    /// re-type a non-Ok outcome
    pub fn cast<U>(self) -> Out<U> {
        match self {
            Out::Ok(_) => panic!("cast of Ok"),
            Out::Err(e) => Out::Err(e),
            Out::Hang => Out::Hang,
            Out::Panic(m) => Out::Panic(m),
            Out::Dead => Out::Dead,
        }
    }
    pub fn is_ok(&self) -> bool {
        matches!(self, Out::Ok(_))
    }
    pub fn is_hang(&self) -> bool {
        matches!(self, Out::Hang)
    }
    pub fn ok(self) -> Option<T> {
        match self {
            Out::Ok(v) => Some(v),
            _ => None,
        }
    }
}

pub trait MapOut<T> {
    fn map<U>(self, f: impl FnOnce(T) -> U) -> Out<U>;
}
impl<T> MapOut<T> for Out<T> {
    fn map<U>(self, f: impl FnOnce(T) -> U) -> Out<U> {
        match self {
            Out::Ok(v) => Out::Ok(f(v)),
            o => o.cast(),
        }
    }
}

pub const CALL_BOUND: i64 = 5 * SEC;

/// Await an API call; `Hang` if it does not reply within 5 s of virtual time.
pub async fn call<T>(sim: &Sim, fut: impl Future<Output = DdsResult<T>>) -> Out<T> {
    if sim.worker_dead() {
        return Out::Dead;
    }
    let r = sim.timeout(CALL_BOUND, fut).await;
    if sim.worker_dead() {
        return Out::Dead;
    }
    match r {
        Ok(Ok(v)) => Out::Ok(v),
        Ok(Err(e)) => Out::Err(e),
        Err(_) => Out::Hang,
    }
}

/// Future wrapper that converts a panic raised while polling the inner future (e.g. a `todo!()`
/// in the public API function itself, which runs in the caller's task) into a value.
pub struct CatchUnwind<F> {
    inner: Option<Pin<Box<F>>>,
}
impl<F: Future> Future for CatchUnwind<F> {
    type Output = Result<F::Output, String>;
    fn poll(mut self: Pin<&mut Self>, cx: &mut Context<'_>) -> Poll<Self::Output> {
        let Some(mut f) = self.inner.take() else {
            return Poll::Ready(Err("polled after completion".into()));
        };
        match catch_unwind(AssertUnwindSafe(|| f.as_mut().poll(cx))) {
            Ok(Poll::Pending) => {
                self.inner = Some(f);
                Poll::Pending
            }
            Ok(Poll::Ready(v)) => Poll::Ready(Ok(v)),
            Err(_) => {
                // state may be inconsistent: leak it
                std::mem::forget(f);
                let (msg, loc, _sym) = take_last_panic().unwrap_or_default();
                Poll::Ready(Err(format!("{msg} @ {loc}")))
            }
        }
    }
}
pub fn catch<F: Future>(f: F) -> CatchUnwind<F> {
    CatchUnwind { inner: Some(Box::pin(f)) }
}

/// Like `call`, additionally catching a panic of the API future in the caller's task.
pub async fn call_catch<T>(sim: &Sim, fut: impl Future<Output = DdsResult<T>>) -> Out<T> {
    if sim.worker_dead() {
        return Out::Dead;
    }
    let r = sim.timeout(CALL_BOUND, catch(fut)).await;
    if sim.worker_dead() {
        return Out::Dead;
    }
    match r {
        Ok(Ok(Ok(v))) => Out::Ok(v),
        Ok(Ok(Err(e))) => Out::Err(e),
        Ok(Err(msg)) => Out::Panic(msg),
        Err(_) => Out::Hang,
    }
}

/// One oracle finding inside a history.
#[derive(Clone, Debug)]
pub struct Finding {
    pub sig: String,
    pub what: String,
    /// index of the op in the history at which it was detected
    pub step: usize,
}

/// Signature of a worker/listener panic: `panic|op=<API call in flight>|<normalised message>`.
/// (`common::report_panics` uses the first dust_dds backtrace symbol instead of the operation;
/// with the optimised harness profile that symbol is an inlined closure name or empty, so the
/// operation in flight - known exactly because histories are sequential - is used.)
pub fn panic_sig(p: &PanicInfo, op: &str) -> String {
    format!("panic|op={}|{}", op, vcore::normalize_msg(&p.msg))
}

pub fn dds_panics(stats: &RunStats) -> Vec<&PanicInfo> {
    stats
        .panics
        .iter()
        .filter(|p| matches!(p.task, TaskKind::Worker | TaskKind::Listener))
        .collect()
}

/// Delta-debugging style minimisation of a list: repeatedly drop chunks while `fails` still holds.
/// `budget` bounds the number of test executions.
pub fn ddmin<T: Clone>(ops: Vec<T>, mut fails: impl FnMut(&[T]) -> bool, budget: &mut usize) -> Vec<T> {
    let mut cur = ops;
    let mut n = 2usize;
    while cur.len() >= 2 && *budget > 0 {
        let chunk = cur.len().div_ceil(n);
        let mut reduced = false;
        let mut start = 0usize;
        while start < cur.len() && *budget > 0 {
            let end = (start + chunk).min(cur.len());
            let mut cand = Vec::with_capacity(cur.len() - (end - start));
            cand.extend_from_slice(&cur[..start]);
            cand.extend_from_slice(&cur[end..]);
            *budget -= 1;
            if !cand.is_empty() && fails(&cand) {
                cur = cand;
                n = n.saturating_sub(1).max(2);
                reduced = true;
                break;
            }
            start = end;
        }
        if !reduced {
            if chunk == 1 {
                break;
            }
            n = (n * 2).min(cur.len());
        }
    }
    cur
}

pub fn strs(v: &[String]) -> Json {
    Json::Arr(v.iter().map(|s| Json::Str(s.clone())).collect())
}

pub fn hash_strs<'a>(it: impl Iterator<Item = &'a str>) -> u64 {
    let mut h = 0x51ed_27u64;
    for s in it {
        h = vcore::mix(h, vcore::fnv_str(s));
    }
    h
}

pub fn yn(b: bool) -> &'static str {
    if b { "y" } else { "n" }
}

/// Tier recorded in a replay file, else the command-line one.
pub fn replay_tier(shard: &crate::common::Shard) -> String {
    shard
        .replay
        .as_ref()
        .and_then(|r| r.get("witnesses"))
        .and_then(|w| w.as_arr())
        .and_then(|a| a.first().cloned())
        .and_then(|w| w.get("replay").and_then(|r| r.get("tier")).and_then(|t| t.as_str().map(|s| s.to_string())))
        .unwrap_or_else(|| shard.tier.clone())
}
