//! xcdr engine: C07 (decoder totality, in the library), C09 round trip, C10 differential against the
//! reference encoder, C11 / C12 instance identity and key hash, C39 type evolution, `calibrate`.
mod c09;
mod c10;
mod c11;
mod c39;
mod classify;
mod calib;
mod common;
mod dustrun;
mod refenc;
mod supervise;

use vcore::{Json, Report};

fn write_report(rep: Report, out: &str) -> i32 {
    rep.write(out);
    0
}

fn calibrate(out: &str) -> i32 {
    let r = calib::run();
    let j = Json::obj()
        .set("vectors_reproduced", r.passed)
        .set("adjudicated_divergences_confirmed", r.diverged_as_adjudicated)
        .set("key_hash_vectors_reproduced", r.key_passed)
        .set("failures", r.failures.clone());
    if out == "-" || out.is_empty() {
        println!("{}", j.to_string());
    } else {
        let _ = std::fs::write(out, j.to_string());
    }
    if r.failures.is_empty() { 0 } else { 1 }
}

fn main() {
    let args = vcore::Args::parse();
    let cmd = args.pos.first().cloned().unwrap_or_default();
    if cmd == "c07" {
        std::process::exit(xcdrlib::c07::main(&args));
    }
    if cmd == "calibrate" {
        std::process::exit(calibrate(&args.str("out", "-")));
    }
    let cli = match common::Cli::from_args(&args) {
        Ok(c) => c,
        Err(e) => {
            let mut rep = Report::new(&cmd.to_uppercase());
            rep.inconclusive(format!("bad arguments: {e}"));
            std::process::exit(write_report(rep, &args.str("out", "-")));
        }
    };
    let rep = match cmd.as_str() {
        "c09" => c09::run(&cli),
        "c10" => c10::run(&cli),
        "c11" => c11::run_c11(&cli),
        "c12" => c11::run_c12(&cli),
        "c39" => c39::run(&cli),
        _ => {
            eprintln!("usage: xcdr <c07|c09|c10|c11|c12|c39|calibrate> --seed S --shard I --nshards N --cases C --tier T --out FILE [--replay FILE]");
            std::process::exit(2);
        }
    };
    std::process::exit(write_report(rep, &cli.out));
}
