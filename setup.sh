#!/bin/bash
# Build the verification harness once, offline, from files on disk only.
set -e
cd "$(dirname "$0")/harness"
export CARGO_NET_OFFLINE=true
cp /repo/Cargo.lock Cargo.lock 2>/dev/null || true
cargo build --release --offline 2>&1 | tail -3
