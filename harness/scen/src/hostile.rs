//! C06: no datagram can crash, hang or exhaust a running participant; afterwards it still answers
//! API calls and communicates with well-behaved peers.
//!
//! Parent/child structure: the shard process supervises a child that runs the cases. The child
//! announces every injected datagram (case, index, class) in a progress file before injecting it;
//! the parent watches the child's consumed CPU time: > 8 s of CPU without progress = hang verdict
//! attributed to the announced datagram class (CPU time, not wall time, so machine load cannot
//! produce it); a child killed by a signal / aborting on the allocation cap = abort verdict.
use crate::common::*;
use crate::hostilegen::{self, Capture, CLASSES};
use dust_dds::infrastructure::qos::{DataReaderQos, DataWriterQos};
use dust_dds::infrastructure::sample_info::{ANY_INSTANCE_STATE, ANY_SAMPLE_STATE, ANY_VIEW_STATE};
use simnet::*;
use std::cell::RefCell;
use std::rc::Rc;
use vcore::{Json, Report, Rng};

const ALLOC_K: u64 = 1024;
const ALLOC_C: u64 = 1 << 20;

struct Outcome {
    matched: bool,
    injected: Vec<(usize, usize, usize)>, // (class, len, dst)
    alloc_violations: Vec<(usize, usize, u64)>, // (class, len, bytes)
    worker_died_at: Option<usize>,
    api_ok: bool,
    rematch_ok: bool,
    delivery_ok: bool,
    live_delivered: u32,
    max_alloc_ratio_milli: u64,
    last: (usize, usize, String),
    identities_burnt: u32,
}

async fn scenario(w: World, case_seed: u64, n_inject: usize, disabled: Vec<usize>, progress: String, case: u64, only_idx: Option<Vec<usize>>) -> Outcome {
    let sim = w.sim.clone();
    let mut out = Outcome {
        matched: false,
        injected: vec![],
        alloc_violations: vec![],
        worker_died_at: None,
        api_ok: false,
        rematch_ok: false,
        delivery_ok: false,
        live_delivered: 0,
        max_alloc_ratio_milli: 0,
        last: (0, 0, String::new()),
        identities_burnt: 0,
    };
    w.net.enable_sent_log(600, true);
    let wq = DataWriterQos {
        reliability: reliable(100),
        history: keep_last(8),
        ..Default::default()
    };
    let rq = DataReaderQos {
        reliability: reliable(100),
        history: keep_last(8),
        ..Default::default()
    };
    let mut parts = Vec::new();
    for _ in 0..2 {
        let dp = new_participant(&w, 0).await;
        let t = new_topic::<Msg>(&dp, "H", "Msg").await;
        let pb = new_publisher(&dp).await;
        let sb = new_subscriber(&dp).await;
        let dw = new_writer::<Msg>(&pb, &t, wq.clone()).await;
        let dr = new_reader::<Msg>(&sb, &t, rq.clone()).await;
        parts.push((dp, t, pb, sb, dw, dr));
    }
    // each writer matches both readers (own participant's and the peer's)
    out.matched = wait_matched(&sim, &parts[0].4, 2, 20 * SEC).await && wait_matched(&sim, &parts[1].4, 2, 20 * SEC).await;
    if !out.matched {
        return out;
    }
    // live traffic
    let stop = Rc::new(RefCell::new(false));
    let delivered = Rc::new(RefCell::new(0u32));
    let mut joins = Vec::new();
    for i in 0..2 {
        let dw = parts[i].4.clone();
        let dr = parts[i].5.clone();
        let stop = stop.clone();
        let delivered = delivered.clone();
        let sim2 = sim.clone();
        joins.push(sim.spawn_local(async move {
            let mut seq = 0u32;
            loop {
                if *stop.borrow() {
                    break;
                }
                let _ = sim2.timeout(500 * MS, dw.write(msg(seq % 3, i as u32, seq, 24), None)).await;
                seq += 1;
                if let Ok(Ok(s)) = sim2
                    .timeout(500 * MS, dr.take(i32::MAX, ANY_SAMPLE_STATE, ANY_VIEW_STATE, ANY_INSTANCE_STATE))
                    .await
                {
                    *delivered.borrow_mut() += s.len() as u32;
                }
                sim2.sleep(20 * MS).await;
            }
        }));
    }
    sim.sleep(1200 * MS).await; // one announcement interval of traffic to capture
    let mut cap = Capture::new();
    for r in w.net.take_sent_log() {
        if let Some(b) = &r.bytes {
            cap.add(r.src, b);
        }
    }
    // attack
    let enabled: Vec<usize> = (0..CLASSES.len()).filter(|c| !disabled.contains(c)).collect();
    let mut rng = Rng::new(case_seed ^ 0xa77ac);
    // every datagram actually injected (to find out afterwards which participant identities were claimed)
    let mut injected_bytes: Vec<Vec<u8>> = Vec::new();
    for k in 0..n_inject {
        let class = *rng.pick(&enabled);
        let dst = if rng.chance(0.8) { 0 } else { 1 };
        let mut grams = hostilegen::build_seq(&mut rng, &cap, class, dst);
        let bytes = grams.pop().unwrap_or_default();
        let len = bytes.len();
        if let Some(o) = &only_idx {
            // (debugging aid: inject only the listed datagram indices; the others are generated
            // but not sent so that the remaining ones stay identical)
            if !o.contains(&k) {
                continue;
            }
        }
        let _ = std::fs::write(&progress, format!("{case} {k} {class} {}", vcore::hex(&bytes[..len.min(4096)])));
        out.last = (k, class, vcore::hex(&bytes[..len.min(4096)]));
        if std::env::var("C06_DUMP").is_ok() {
            eprintln!("inject #{k} class {} dst {dst} leading {} : {}", CLASSES[class], grams.len(), vcore::hex(&bytes[..len.min(4096)]));
        }
        sim.take_alloc_window();
        // multi-datagram classes: the leading datagrams go in back to back, the last one is the announced one
        for (i, g) in grams.into_iter().enumerate() {
            injected_bytes.push(g.clone());
            w.net.inject(dst, g, i as i64 * 1000);
        }
        injected_bytes.push(bytes.clone());
        w.net.inject(dst, bytes, 100 * US);
        sim.sleep(2 * MS).await;
        let a = sim.take_alloc_window();
        out.injected.push((class, len, dst));
        if sim.worker_dead() {
            // (the panic hook's backtrace capture allocates a lot: no allocation verdict here)
            out.worker_died_at = Some(k);
            break;
        }
        let bound = ALLOC_K * len as u64 + ALLOC_C;
        let ratio = a * 1000 / bound;
        if ratio > out.max_alloc_ratio_milli {
            out.max_alloc_ratio_milli = ratio;
        }
        if a > bound {
            out.alloc_violations.push((class, len, a));
        }
        if sim.worker_dead() {
            out.worker_died_at = Some(k);
            break;
        }
    }
    let _ = std::fs::write(&progress, format!("{case} {} afterwards", n_inject));
    *stop.borrow_mut() = true;
    if sim.worker_dead() {
        return out;
    }
    for j in joins {
        let _ = sim.timeout(2 * SEC, j).await;
    }
    out.live_delivered = *delivered.borrow();
    // afterwards (1): API calls answered within 1 s virtual
    out.api_ok = true;
    for p in &parts {
        if !matches!(sim.timeout(SEC, p.0.get_qos()).await, Ok(Ok(_))) {
            out.api_ok = false;
        }
        if !matches!(sim.timeout(SEC, p.4.get_qos()).await, Ok(Ok(_))) {
            out.api_ok = false;
        }
    }
    if !out.api_ok {
        return out;
    }
    // afterwards (2): a well-behaved peer that was never impersonated — a third participant created
    // after the attack — must be discovered by the victim, match fresh endpoints in both directions
    // and exchange samples. (The peer that existed during the attack is only probed for
    // information: forged HEARTBEAT/GAP/DATA sent in ITS name can legitimately poison the
    // sequence-number state of its discovery channels; RTPS has no authentication and the property
    // does not ask for any.)
    use dust_dds::infrastructure::listener::NO_LISTENER;
    use dust_dds::infrastructure::qos::QosKind;
    use dust_dds::infrastructure::status::NO_STATUS;
    let fw = DataWriterQos {
        reliability: reliable(100),
        history: keep_all(),
        ..Default::default()
    };
    let fr = DataReaderQos {
        reliability: reliable(100),
        history: keep_all(),
        ..Default::default()
    };
    // "Never impersonated" has to be made true: the factory numbers its participants (GUID prefix =
    // host id, app id, instance counter), so a forged datagram can name the identity the NEXT
    // participant is going to get (a captured announcement whose prefix field was changed by +1 does
    // exactly that) and thereby poison what the victim believes about it before it exists - the same
    // legitimate effect as for the existing peer. Identities named by an injected datagram are
    // therefore burnt (participant created and deleted again) until the next one is clean.
    let p0_prefix: [u8; 16] = parts[0].0.get_instance_handle().into();
    let mut next_id = parts.len() as u32;
    for _ in 0..64 {
        let mut next_prefix = p0_prefix[..12].to_vec();
        next_prefix[8..12].copy_from_slice(&next_id.to_ne_bytes());
        if !injected_bytes.iter().any(|d| d.windows(12).any(|x| x == &next_prefix[..])) {
            break;
        }
        if std::env::var("C06_DUMP").is_ok() {
            eprintln!("identity {} was claimed by an injected datagram: burnt", vcore::hex(&next_prefix));
        }
        let Ok(Ok(dummy)) = sim.timeout(SEC, w.factory.create_participant(0, QosKind::Default, NO_LISTENER, NO_STATUS)).await else {
            out.api_ok = false;
            return out;
        };
        let _ = sim.timeout(SEC, w.factory.delete_participant(&dummy)).await;
        next_id += 1;
        out.identities_burnt += 1;
    }
    drop(injected_bytes);
    let Ok(Ok(dpc)) = sim.timeout(SEC, w.factory.create_participant(0, QosKind::Default, NO_LISTENER, NO_STATUS)).await else {
        out.api_ok = false;
        return out;
    };
    let mk_topic = |dp: dust_dds::dds_async::domain_participant::DomainParticipantAsync| {
        let sim = sim.clone();
        async move { sim.timeout(SEC, dp.create_topic::<Msg>("H2", "Msg", QosKind::Default, NO_LISTENER, NO_STATUS)).await }
    };
    let (Ok(Ok(ta)), Ok(Ok(tc))) = (mk_topic(parts[0].0.clone()).await, mk_topic(dpc.clone()).await) else {
        out.api_ok = false;
        return out;
    };
    let pbc = new_publisher(&dpc).await;
    let sbc = new_subscriber(&dpc).await;
    let dw_a = new_writer::<Msg>(&parts[0].2, &ta, fw.clone()).await;
    let dr_a = new_reader::<Msg>(&parts[0].3, &ta, fr.clone()).await;
    let dw_c = new_writer::<Msg>(&pbc, &tc, fw).await;
    let dr_c = new_reader::<Msg>(&sbc, &tc, fr).await;
    // Oracle = delivery in both directions between the victim and the fresh peer (matching inside
    // one participant goes through the participant's own discovery loop-back, which datagrams
    // forged in the victim's own name can poison like any other channel, so match counts are not
    // used). Samples are written repeatedly because VOLATILE readers only get what is written
    // after the match; two announcement intervals (1 s each) + margin for discovery, 30 s for delivery.
    out.rematch_ok = true;
    let mut got_c = 0;
    let mut got_a = 0;
    let deadline = sim.now() + 42 * SEC;
    let mut s = 0u32;
    while sim.now() < deadline && (got_c < 3 || got_a < 3) {
        let _ = sim.timeout(2 * SEC, dw_a.write(msg(0, 8, s, 16), None)).await;
        let _ = sim.timeout(2 * SEC, dw_c.write(msg(1, 9, s, 16), None)).await;
        s += 1;
        if let Ok(Ok(v)) = sim.timeout(SEC, dr_c.take(i32::MAX, ANY_SAMPLE_STATE, ANY_VIEW_STATE, ANY_INSTANCE_STATE)).await {
            got_c += v.iter().filter(|x| x.data.as_ref().map(|m| m.writer == 8).unwrap_or(false)).count();
        }
        if let Ok(Ok(v)) = sim.timeout(SEC, dr_a.take(i32::MAX, ANY_SAMPLE_STATE, ANY_VIEW_STATE, ANY_INSTANCE_STATE)).await {
            got_a += v.iter().filter(|x| x.data.as_ref().map(|m| m.writer == 9).unwrap_or(false)).count();
        }
        sim.sleep(200 * MS).await;
    }
    let got = got_c.min(got_a);
    if std::env::var("C06_DUMP").is_ok() {
        let ma = dw_a.get_matched_subscriptions().await.map(|v| v.len());
        let mc = dw_c.get_matched_subscriptions().await.map(|v| v.len());
        let ra = dr_a.get_matched_publications().await.map(|v| v.len());
        let rc = dr_c.get_matched_publications().await.map(|v| v.len());
        let da = parts[0].0.get_discovered_participants().await.map(|v| v.len());
        let dc = dpc.get_discovered_participants().await.map(|v| v.len());
        eprintln!("afterwards: got_c={got_c} got_a={got_a} writes={s} matched: dw_a={ma:?} dw_c={mc:?} dr_a={ra:?} dr_c={rc:?} discovered participants: victim={da:?} fresh={dc:?} net={:?}", w.net.counters());
    }
    out.delivery_ok = got >= 3;
    out
}

/// Child: run cases `from..` of this shard, report cumulatively.
pub fn run_child(shard: &Shard) -> Report {
    let mut rep = Report::new("C06");
    let from = shard.args.u64("from", 0) as usize;
    let progress = shard.args.str("progress", "/dev/null");
    let child_out = shard.args.str("out", "-");
    let n_inject = shard.args.u64("inject", 40) as usize;
    let disabled: Vec<usize> = shard
        .args
        .str("disable", "")
        .split(',')
        .filter_map(|s| s.parse().ok())
        .collect();
    let cases = shard.my_cases();
    for (idx, case) in cases.iter().enumerate().skip(from) {
        let cs = shard.case_seed(*case);
        let mut rng = Rng::new(cs);
        let mut cfg = WorldConfig::default();
        cfg.sim.seed = cs;
        cfg.sim.policy = pick_policy(&mut rng);
        cfg.sim.max_polls = 3_000_000;
        cfg.announcement_interval_ms = 1000;
        cfg.fragment_size = *rng.pick(&[256usize, 1344]);
        let disabled2 = disabled.clone();
        let prog2 = progress.clone();
        let (case2, idx2) = (*case, idx);
        let _ = idx2;
        let only_idx: Option<Vec<usize>> = shard.args.kv.get("only-idx").map(|s| s.split(',').filter_map(|x| x.parse().ok()).collect());
        let (res, stats, _net) = run_world(&cfg, move |w| scenario(w, cs, n_inject, disabled2, prog2, case2, only_idx));
        rep.eval();
        let replay = shard
            .base_replay("hostile", *case)
            .set("disabled_classes", disabled.iter().map(|c| CLASSES[*c]).collect::<Vec<_>>())
            .set("inject_per_case", n_inject);
        // worker / listener panics
        for p in &stats.panics {
            if p.task != TaskKind::Local {
                // attribute to the last injected datagram
                let (k, class, hexbytes) = match &res {
                    Some(o) => (o.last.0.to_string(), Some(o.last.1), o.last.2.clone()),
                    None => {
                        let last = std::fs::read_to_string(&progress).unwrap_or_default();
                        let mut it = last.split(' ');
                        let _ = it.next();
                        let k = it.next().unwrap_or("?").to_string();
                        let class = it.next().and_then(|c| c.parse::<usize>().ok());
                        (k, class, it.next().unwrap_or("").to_string())
                    }
                };
                rep.violation(
                    format!("panic|{}|{}", p.sym, vcore::normalize_msg(&p.msg)),
                    format!(
                        "DDS worker panicked at {} while processing injected datagram #{k} (class {}): {}",
                        p.location,
                        class.map(|c| CLASSES[c]).unwrap_or("?"),
                        p.msg
                    ),
                    replay
                        .clone()
                        .set("datagram_index", k)
                        .set("class", class.map(|c| CLASSES[c]).unwrap_or("?"))
                        .set("datagram_hex", hexbytes)
                        .set("panic_location", p.location.clone()),
                );
            } else {
                rep.inconclusive(format!("harness task panicked at {}: {}", p.location, p.msg));
            }
        }
        let panicked = stats.panics.iter().any(|p| p.task != TaskKind::Local);
        if let Some(o) = res {
            if !o.matched {
                if !panicked {
                    rep.inconclusive(format!("case {case}: endpoints did not match before the attack"));
                }
            } else {
                rep.stat("datagrams_injected", o.injected.len() as i128);
                rep.stat("live_samples_delivered_during_attack", o.live_delivered as i128);
                rep.maxstat("max_alloc_as_permille_of_bound", o.max_alloc_ratio_milli as i128);
                rep.stat("fresh_peer_identities_claimed_by_injected_datagrams_and_skipped", o.identities_burnt as i128);
                for (c, len, _) in &o.injected {
                    rep.stat(&format!("class:{}", CLASSES[*c]), 1);
                    rep.nontrivial(vcore::mix(*c as u64, (*len as u64 / 8) << 8 | (stats.poll_hash & 0xff)));
                }
                for (c, len, a) in &o.alloc_violations {
                    rep.violation(
                        format!("alloc|class={}", CLASSES[*c]),
                        format!("processing a {len}-byte datagram made the DDS worker request {a} bytes in one step (bound {ALLOC_K}*len + 1 MiB)"),
                        replay.clone().set("class", CLASSES[*c]).set("len", *len).set("allocated", *a),
                    );
                }
                if !panicked {
                    let classes: Vec<&str> = {
                        let mut v: Vec<&str> = o.injected.iter().map(|x| CLASSES[x.0]).collect();
                        v.sort();
                        v.dedup();
                        v
                    };
                    if !o.api_ok {
                        rep.violation("dead_after|kind=api_no_reply", "after the attack an API call was not answered within 1 s (virtual)", replay.clone().set("classes_injected", classes.clone()));
                    } else if !o.rematch_ok {
                        rep.violation(
                            "dead_after|kind=fresh_endpoints_do_not_match",
                            "after the attack fresh reliable endpoints of the victim and of a well-behaved participant created afterwards did not match in both directions within 12 s (virtual, announcement interval 1 s)",
                            replay.clone().set("classes_injected", classes.clone()),
                        );
                    } else if !o.delivery_ok {
                        rep.violation(
                            "dead_after|kind=fresh_endpoints_do_not_deliver",
                            "after the attack fresh reliable endpoints of the victim and of a well-behaved participant created afterwards did not exchange 3 samples per direction within 42 s (virtual; announcement interval 1 s)",
                            replay.clone().set("classes_injected", classes.clone()),
                        );
                    } else {
                        rep.stat("cases_alive_and_communicating_afterwards", 1);
                    }
                }
                if *case < 24 {
                    rep.sample(
                        Json::obj()
                            .set("case", *case)
                            .set("injected", o.injected.iter().take(12).map(|x| format!("{}:{}B->p{}", CLASSES[x.0], x.1, x.2)).collect::<Vec<_>>())
                            .set("live_delivered", o.live_delivered)
                            .set("afterwards", format!("api={} rematch={} delivery={}", o.api_ok, o.rematch_ok, o.delivery_ok)),
                    );
                }
            }
        } else if !panicked {
            rep.inconclusive(format!("case {case}: scenario did not finish ({:?})", stats.stop));
        }
        // cumulative report so that the parent keeps everything if this process dies later
        let tmp = format!("{child_out}.tmp");
        if std::fs::write(&tmp, rep.to_json().to_string()).is_ok() {
            let _ = std::fs::rename(&tmp, &child_out);
        }
    }
    rep
}

fn cpu_ticks(pid: u32) -> Option<u64> {
    let s = std::fs::read_to_string(format!("/proc/{pid}/stat")).ok()?;
    let rest = &s[s.rfind(')')? + 2..];
    let f: Vec<&str> = rest.split(' ').collect();
    // fields after "(comm) ": state=0, ... utime = index 11, stime = index 12
    Some(f.get(11)?.parse::<u64>().ok()? + f.get(12)?.parse::<u64>().ok()?)
}

/// Parent: supervise children.
pub fn run_parent(shard: &Shard) -> Report {
    let mut rep = Report::new("C06");
    let exe = std::env::current_exe().expect("exe");
    let total = shard.my_cases().len();
    let inject = shard.args.u64("inject", 40);
    let base = shard.out.clone();
    let progress = format!("{base}.progress");
    let mut from = 0usize;
    let mut disabled: Vec<usize> = Vec::new();
    let mut child_no = 0;
    while from < total {
        child_no += 1;
        let child_out = format!("{base}.child{child_no}.json");
        let _ = std::fs::remove_file(&child_out);
        let _ = std::fs::write(&progress, "");
        let errpath = format!("{base}.child{child_no}.err");
        let errf = std::fs::File::create(&errpath).expect("err file");
        let mut cmd = std::process::Command::new(&exe);
        cmd.arg("c06")
            .arg("--child")
            .args(["--seed", &shard.seed.to_string()])
            .args(["--shard", &shard.shard.to_string()])
            .args(["--nshards", &shard.nshards.to_string()])
            .args(["--cases", &shard.cases.to_string()])
            .args(["--tier", &shard.tier])
            .args(["--from", &from.to_string()])
            .args(["--inject", &inject.to_string()])
            .args(["--progress", &progress])
            .args(["--out", &child_out])
            .args(["--disable", &disabled.iter().map(|c| c.to_string()).collect::<Vec<_>>().join(",")])
            .stdout(std::process::Stdio::null())
            .stderr(errf);
        if let Some(r) = shard.args.kv.get("replay") {
            cmd.args(["--replay", r]);
        }
        let mut child = cmd.spawn().expect("spawn child");
        let pid = child.id();
        let mut last_prog = String::new();
        let mut cpu_at_change = cpu_ticks(pid).unwrap_or(0);
        let mut wall_at_change = std::time::Instant::now();
        let mut verdict: Option<(&str, String)> = None;
        let status = loop {
            match child.try_wait() {
                Ok(Some(st)) => break Some(st),
                Ok(None) => {}
                Err(_) => break None,
            }
            std::thread::sleep(std::time::Duration::from_millis(100));
            let prog = std::fs::read_to_string(&progress).unwrap_or_default();
            let key: String = prog.split(' ').take(3).collect::<Vec<_>>().join(" ");
            let cpu = cpu_ticks(pid).unwrap_or(cpu_at_change);
            if key != last_prog {
                last_prog = key;
                cpu_at_change = cpu;
                wall_at_change = std::time::Instant::now();
            } else if cpu.saturating_sub(cpu_at_change) > 800 {
                // > 8 s of CPU (100 ticks/s) on one datagram
                verdict = Some(("hang", prog.clone()));
                let _ = child.kill();
                let _ = child.wait();
                break None;
            } else if wall_at_change.elapsed().as_secs() > 180 {
                verdict = Some(("stalled", prog.clone()));
                let _ = child.kill();
                let _ = child.wait();
                break None;
            }
        };
        // absorb what the child managed to report
        if let Ok(s) = std::fs::read_to_string(&child_out) {
            if let Ok(j) = Json::parse(&s) {
                rep.absorb_json(&j);
            }
        }
        let prog = std::fs::read_to_string(&progress).unwrap_or_default();
        let mut it = prog.split(' ');
        let pcase = it.next().unwrap_or("").to_string();
        let pk = it.next().unwrap_or("").to_string();
        let pclass = it.next().and_then(|c| c.parse::<usize>().ok());
        let phex = it.next().unwrap_or("").to_string();
        let class_name = pclass.map(|c| CLASSES[c]).unwrap_or("afterwards_or_setup");
        let cases = shard.my_cases();
        let case_pos = cases.iter().position(|c| c.to_string() == pcase);
        let replay = shard
            .base_replay("hostile", pcase.parse().unwrap_or(0))
            .set("datagram_index", pk.clone())
            .set("class", class_name)
            .set("datagram_hex", phex)
            .set("disabled_classes", disabled.iter().map(|c| CLASSES[*c]).collect::<Vec<_>>())
            .set("inject_per_case", inject);
        let normal = matches!(status, Some(st) if st.success());
        if normal && verdict.is_none() {
            break;
        }
        match verdict {
            Some(("hang", _)) => {
                rep.violation(
                    format!("hang|class={class_name}"),
                    format!("processing injected datagram #{pk} of case {pcase} (class {class_name}) consumed more than 8 s of CPU without finishing"),
                    replay,
                );
            }
            Some((_, _)) => {
                rep.inconclusive(format!("child made no progress for 180 s wall without consuming CPU at case {pcase} datagram {pk} ({class_name})"));
            }
            None => {
                let err = std::fs::read_to_string(&errpath).unwrap_or_default();
                let reason = if err.contains("VERIF-ALLOC-CAP") {
                    "single_allocation_over_cap".to_string()
                } else if err.contains("stack overflow") {
                    "stack_overflow".to_string()
                } else if err.contains("memory allocation of") {
                    "allocation_failed".to_string()
                } else {
                    use std::os::unix::process::ExitStatusExt;
                    match status {
                        Some(st) => match st.signal() {
                            Some(s) => format!("signal_{s}"),
                            None => format!("exit_{}", st.code().unwrap_or(-1)),
                        },
                        None => "unknown".to_string(),
                    }
                };
                rep.violation(
                    format!("abort|class={class_name}|reason={reason}"),
                    format!("the process died ({reason}) while processing injected datagram #{pk} of case {pcase} (class {class_name})"),
                    replay.set("stderr_tail", err.chars().rev().take(300).collect::<String>().chars().rev().collect::<String>()),
                );
            }
        }
        if let Some(c) = pclass {
            if !disabled.contains(&c) {
                // do not pay for the same root cause again and again in this shard
                disabled.push(c);
                rep.set("classes_disabled_after_hang_or_abort", CLASSES[c]);
            }
        }
        from = case_pos.map(|p| p + 1).unwrap_or(total);
    }
    let _ = std::fs::remove_file(&progress);
    rep
}
