//! Histories: a QoS configuration plus a list of operations, with a compact textual encoding (used
//! in witnesses / replay files) and the per-property generators.
use vcore::{Json, Rng};

pub const SS_READ: u8 = 1;
pub const SS_NOT_READ: u8 = 2;
pub const SS_ANY: u8 = 3;
pub const VS_NEW: u8 = 1;
pub const VS_NOT_NEW: u8 = 2;
pub const VS_ANY: u8 = 3;
pub const IS_ALIVE: u8 = 1;
pub const IS_DISPOSED: u8 = 2;
pub const IS_NO_WRITERS: u8 = 4;
pub const IS_ANY: u8 = 7;
pub const MAX_ALL: i32 = i32::MAX;

#[derive(Clone, Debug, PartialEq)]
pub struct Cfg {
    pub prop: String,
    pub n_writers: usize,
    pub strengths: Vec<i32>,
    pub autodispose: Vec<bool>,
    pub exclusive: bool,
    /// None = KEEP_ALL
    pub depth: Option<u32>,
    pub max_samples: Option<i32>,
    pub max_instances: Option<i32>,
    pub max_spi: Option<i32>,
    pub by_source: bool,
    pub min_sep_ms: i64,
    /// 0 = infinite
    pub deadline_ms: i64,
    pub policy: u8,
    pub clock_tick: i64,
    pub jitter: i64,
}

impl Cfg {
    pub fn base(prop: &str, rng: &mut Rng) -> Cfg {
        Cfg {
            prop: prop.to_string(),
            n_writers: 1,
            strengths: vec![0; 3],
            autodispose: vec![true; 3],
            exclusive: false,
            depth: None,
            max_samples: None,
            max_instances: None,
            max_spi: None,
            by_source: false,
            min_sep_ms: 0,
            deadline_ms: 0,
            policy: rng.below(3) as u8,
            clock_tick: *rng.pick(&[0i64, 0, 1, 1000]),
            jitter: *rng.pick(&[0i64, 0, 1000]),
        }
    }
    pub fn to_json(&self) -> Json {
        let l = |x: Option<i32>| match x {
            None => Json::s("unlimited"),
            Some(v) => Json::i(v),
        };
        Json::obj()
            .set("prop", self.prop.clone())
            .set("writers", self.n_writers)
            .set("strengths", self.strengths.iter().map(|x| *x as i64).collect::<Vec<_>>())
            .set("autodispose_unregistered_instances", self.autodispose.clone())
            .set("ownership", if self.exclusive { "EXCLUSIVE" } else { "SHARED" })
            .set(
                "history",
                match self.depth {
                    None => "KEEP_ALL".to_string(),
                    Some(d) => format!("KEEP_LAST({d})"),
                },
            )
            .set("max_samples", l(self.max_samples))
            .set("max_instances", l(self.max_instances))
            .set("max_samples_per_instance", l(self.max_spi))
            .set(
                "destination_order",
                if self.by_source { "BY_SOURCE_TIMESTAMP" } else { "BY_RECEPTION_TIMESTAMP" },
            )
            .set("minimum_separation_ms", self.min_sep_ms)
            .set("deadline_ms", self.deadline_ms)
            .set("policy", self.policy as i64)
            .set("clock_tick", self.clock_tick)
            .set("jitter", self.jitter)
    }
    pub fn from_json(j: &Json) -> Option<Cfg> {
        let l = |k: &str| -> Option<i32> { j.get(k).and_then(|v| v.as_i64()).map(|v| v as i32) };
        let hist = j.get("history")?.as_str()?.to_string();
        let depth = if hist == "KEEP_ALL" {
            None
        } else {
            Some(hist.trim_start_matches("KEEP_LAST(").trim_end_matches(')').parse::<u32>().ok()?)
        };
        Some(Cfg {
            prop: j.get("prop")?.as_str()?.to_string(),
            n_writers: j.get("writers")?.as_u64()? as usize,
            strengths: j.get("strengths")?.as_arr()?.iter().map(|x| x.as_i64().unwrap_or(0) as i32).collect(),
            autodispose: j
                .get("autodispose_unregistered_instances")?
                .as_arr()?
                .iter()
                .map(|x| x.as_bool().unwrap_or(true))
                .collect(),
            exclusive: j.get("ownership")?.as_str()? == "EXCLUSIVE",
            depth,
            max_samples: l("max_samples"),
            max_instances: l("max_instances"),
            max_spi: l("max_samples_per_instance"),
            by_source: j.get("destination_order")?.as_str()? == "BY_SOURCE_TIMESTAMP",
            min_sep_ms: j.get("minimum_separation_ms")?.as_i64()?,
            deadline_ms: j.get("deadline_ms")?.as_i64()?,
            policy: j.get("policy")?.as_i64()? as u8,
            clock_tick: j.get("clock_tick")?.as_i64()?,
            jitter: j.get("jitter")?.as_i64()?,
        })
    }
    /// QoS class without scheduling noise (for distinct-case hashing)
    pub fn class(&self) -> String {
        format!(
            "{}|w{}|s{:?}|a{:?}|x{}|d{:?}|ms{:?}|mi{:?}|mspi{:?}|bs{}|sep{}|dl{}",
            self.prop,
            self.n_writers,
            &self.strengths[..self.n_writers.min(self.strengths.len())],
            &self.autodispose[..self.n_writers.min(self.autodispose.len())],
            self.exclusive,
            self.depth,
            self.max_samples,
            self.max_instances,
            self.max_spi,
            self.by_source,
            self.min_sep_ms,
            self.deadline_ms
        )
    }
}

#[derive(Clone, Copy, Debug, PartialEq, Eq)]
pub enum Sel {
    All,
    Inst(u32),
}

#[derive(Clone, Copy, Debug, PartialEq, Eq)]
pub struct ReadOp {
    pub take: bool,
    pub sel: Sel,
    pub max: i32,
    pub ss: u8,
    pub vs: u8,
    pub is: u8,
}

#[derive(Clone, Debug, PartialEq, Eq)]
pub enum Op {
    Write { w: usize, key: u32, seq: u32, ts: i64 },
    Dispose { w: usize, key: u32, ts: i64 },
    Unreg { w: usize, key: u32, ts: i64 },
    Freeze(bool),
    Read(ReadOp),
    /// full read_next_instance / take_next_instance walk starting from "no previous handle"
    Walk { take: bool, max: i32, ss: u8, vs: u8, is: u8 },
    DeleteWriter { w: usize },
    Sleep { ms: i64 },
    /// call DataReader::get_sample_rejected_status (C19)
    RejStatus,
}

fn mask_str(m: u8, names: &[&str]) -> String {
    let all = (1u8 << names.len()) - 1;
    if m == all {
        return "ANY".into();
    }
    let mut v = Vec::new();
    for (i, n) in names.iter().enumerate() {
        if m & (1 << i) != 0 {
            v.push(*n);
        }
    }
    if v.is_empty() { "NONE".into() } else { v.join("+") }
}
fn mask_parse(s: &str, names: &[&str]) -> u8 {
    if s == "ANY" {
        return (1u8 << names.len()) - 1;
    }
    let mut m = 0;
    for p in s.split('+') {
        if let Some(i) = names.iter().position(|n| *n == p) {
            m |= 1 << i;
        }
    }
    m
}
const SS_NAMES: [&str; 2] = ["READ", "NOT_READ"];
const VS_NAMES: [&str; 2] = ["NEW", "NOT_NEW"];
const IS_NAMES: [&str; 3] = ["ALIVE", "DISPOSED", "NO_WRITERS"];

pub fn ss_str(m: u8) -> String {
    mask_str(m, &SS_NAMES)
}
pub fn vs_str(m: u8) -> String {
    mask_str(m, &VS_NAMES)
}
pub fn is_str(m: u8) -> String {
    mask_str(m, &IS_NAMES)
}
fn max_str(m: i32) -> String {
    if m == MAX_ALL { "MAX".into() } else { m.to_string() }
}
fn max_parse(s: &str) -> i32 {
    if s == "MAX" { MAX_ALL } else { s.parse().unwrap_or(MAX_ALL) }
}

impl Op {
    pub fn encode(&self) -> String {
        match self {
            Op::Write { w, key, seq, ts } => format!("write w{w} k{key} #{seq} t{ts}"),
            Op::Dispose { w, key, ts } => format!("dispose w{w} k{key} t{ts}"),
            Op::Unreg { w, key, ts } => format!("unregister w{w} k{key} t{ts}"),
            Op::Freeze(b) => (if *b { "net_freeze" } else { "net_release" }).to_string(),
            Op::Read(r) => format!(
                "{} {} max={} ss={} vs={} is={}",
                if r.take { "take" } else { "read" },
                match r.sel {
                    Sel::All => "all".to_string(),
                    Sel::Inst(k) => format!("instance(k{k})"),
                },
                max_str(r.max),
                ss_str(r.ss),
                vs_str(r.vs),
                is_str(r.is)
            ),
            Op::Walk { take, max, ss, vs, is } => format!(
                "{} max={} ss={} vs={} is={}",
                if *take { "walk_take_next_instance" } else { "walk_read_next_instance" },
                max_str(*max),
                ss_str(*ss),
                vs_str(*vs),
                is_str(*is)
            ),
            Op::DeleteWriter { w } => format!("delete_writer w{w}"),
            Op::Sleep { ms } => format!("sleep {ms}ms"),
            Op::RejStatus => "get_sample_rejected_status".to_string(),
        }
    }
    pub fn decode(s: &str) -> Option<Op> {
        let t: Vec<&str> = s.split_whitespace().collect();
        let num = |x: &str, p: &str| -> Option<i64> { x.strip_prefix(p)?.parse::<i64>().ok() };
        let kv = |x: &str, p: &str| -> Option<String> { x.strip_prefix(p).map(|v| v.to_string()) };
        match *t.first()? {
            "write" => Some(Op::Write {
                w: num(t[1], "w")? as usize,
                key: num(t[2], "k")? as u32,
                seq: num(t[3], "#")? as u32,
                ts: num(t[4], "t")?,
            }),
            "dispose" => Some(Op::Dispose { w: num(t[1], "w")? as usize, key: num(t[2], "k")? as u32, ts: num(t[3], "t")? }),
            "unregister" => Some(Op::Unreg { w: num(t[1], "w")? as usize, key: num(t[2], "k")? as u32, ts: num(t[3], "t")? }),
            "net_freeze" => Some(Op::Freeze(true)),
            "net_release" => Some(Op::Freeze(false)),
            "read" | "take" => {
                let sel = if t[1] == "all" {
                    Sel::All
                } else {
                    Sel::Inst(t[1].strip_prefix("instance(k")?.trim_end_matches(')').parse().ok()?)
                };
                Some(Op::Read(ReadOp {
                    take: t[0] == "take",
                    sel,
                    max: max_parse(&kv(t[2], "max=")?),
                    ss: mask_parse(&kv(t[3], "ss=")?, &SS_NAMES),
                    vs: mask_parse(&kv(t[4], "vs=")?, &VS_NAMES),
                    is: mask_parse(&kv(t[5], "is=")?, &IS_NAMES),
                }))
            }
            "walk_take_next_instance" | "walk_read_next_instance" => Some(Op::Walk {
                take: t[0] == "walk_take_next_instance",
                max: max_parse(&kv(t[1], "max=")?),
                ss: mask_parse(&kv(t[2], "ss=")?, &SS_NAMES),
                vs: mask_parse(&kv(t[3], "vs=")?, &VS_NAMES),
                is: mask_parse(&kv(t[4], "is=")?, &IS_NAMES),
            }),
            "delete_writer" => Some(Op::DeleteWriter { w: num(t[1], "w")? as usize }),
            "sleep" => Some(Op::Sleep { ms: t[1].trim_end_matches("ms").parse().ok()? }),
            "get_sample_rejected_status" => Some(Op::RejStatus),
            _ => None,
        }
    }
    /// abstract token for distinct-shape hashing (no stamps / sequence numbers)
    pub fn shape(&self) -> String {
        match self {
            Op::Write { w, key, .. } => format!("W{w}.{key}"),
            Op::Dispose { w, key, .. } => format!("D{w}.{key}"),
            Op::Unreg { w, key, .. } => format!("U{w}.{key}"),
            Op::Freeze(b) => format!("F{}", *b as u8),
            Op::Read(r) => format!(
                "{}{}m{}s{}v{}i{}",
                if r.take { "T" } else { "R" },
                match r.sel {
                    Sel::All => "*".to_string(),
                    Sel::Inst(k) => k.to_string(),
                },
                if r.max == MAX_ALL { 0 } else { r.max },
                r.ss,
                r.vs,
                r.is
            ),
            Op::Walk { take, max, ss, vs, is } => {
                format!("N{}m{}s{}v{}i{}", *take as u8, if *max == MAX_ALL { 0 } else { *max }, ss, vs, is)
            }
            Op::DeleteWriter { w } => format!("X{w}"),
            Op::Sleep { ms } => format!("Z{}", ms / 50),
            Op::RejStatus => "S".to_string(),
        }
    }
}

#[derive(Clone, Debug)]
pub struct Hist {
    pub cfg: Cfg,
    pub ops: Vec<Op>,
}

impl Hist {
    pub fn to_json(&self) -> Json {
        Json::obj()
            .set("config", self.cfg.to_json())
            .set("ops", self.ops.iter().map(|o| o.encode()).collect::<Vec<_>>())
    }
    pub fn from_json(j: &Json) -> Option<Hist> {
        let cfg = Cfg::from_json(j.get("config")?)?;
        let mut ops = Vec::new();
        for o in j.get("ops")?.as_arr()? {
            ops.push(Op::decode(o.as_str()?)?);
        }
        Some(Hist { cfg, ops })
    }
}

// ---------------------------------------------------------------------------------------------
// generators

fn rand_mask(rng: &mut Rng, bits: u8, p_any: f64) -> u8 {
    let all = (1u8 << bits) - 1;
    if rng.chance(p_any) {
        all
    } else {
        1 + rng.below(all as u64) as u8
    }
}

fn rand_max(rng: &mut Rng, p_all: f64) -> i32 {
    if rng.chance(p_all) { MAX_ALL } else { *rng.pick(&[1, 1, 2, 2, 3, 5, 8]) }
}

fn read_all(take: bool) -> Op {
    Op::Read(ReadOp { take, sel: Sel::All, max: MAX_ALL, ss: SS_ANY, vs: VS_ANY, is: IS_ANY })
}

struct G<'a> {
    rng: &'a mut Rng,
    ops: Vec<Op>,
    keys: Vec<u32>,
    n_writers: usize,
    seq: u32,
    /// global increasing stamp for properties that do not care about stamps
    clock: i64,
    /// per writer set of keys it currently has registered (wrote and did not unregister)
    reg: Vec<Vec<u32>>,
    frozen: bool,
    frozen_left: u32,
}

impl<'a> G<'a> {
    fn new(rng: &'a mut Rng, n_writers: usize, n_inst: usize) -> G<'a> {
        // instance keys from a wider range so that the handle order differs between cases
        let mut pool: Vec<u32> = (0..12).collect();
        rng.shuffle(&mut pool);
        let keys = pool[..n_inst].to_vec();
        G { rng, ops: Vec::new(), keys, n_writers, seq: 0, clock: 0, reg: vec![Vec::new(); n_writers], frozen: false, frozen_left: 0 }
    }
    fn tick(&mut self) -> i64 {
        self.clock += 1;
        self.clock
    }
    fn key(&mut self) -> u32 {
        *self.rng.pick(&self.keys)
    }
    fn writer(&mut self) -> usize {
        self.rng.usize(self.n_writers)
    }
    fn write_ts(&mut self, w: usize, key: u32, ts: i64) {
        self.seq += 1;
        self.ops.push(Op::Write { w, key, seq: self.seq, ts });
        if !self.reg[w].contains(&key) {
            self.reg[w].push(key);
        }
        self.after_writer_op();
    }
    fn write(&mut self) {
        let (w, k, t) = (self.writer(), self.key(), self.tick());
        self.write_ts(w, k, t);
    }
    fn after_writer_op(&mut self) {
        if self.frozen {
            self.frozen_left = self.frozen_left.saturating_sub(1);
            if self.frozen_left == 0 {
                self.release();
            }
        }
    }
    fn freeze(&mut self, n: u32) {
        if !self.frozen {
            self.ops.push(Op::Freeze(true));
            self.frozen = true;
            self.frozen_left = n;
        }
    }
    fn release(&mut self) {
        if self.frozen {
            self.ops.push(Op::Freeze(false));
            self.frozen = false;
        }
    }
    /// dispose by a writer that has the instance registered; false if none possible
    fn dispose(&mut self) -> bool {
        let cands: Vec<(usize, u32)> =
            (0..self.n_writers).flat_map(|w| self.reg[w].iter().map(move |k| (w, *k))).collect();
        if cands.is_empty() {
            return false;
        }
        let (w, key) = *self.rng.pick(&cands);
        let ts = self.tick();
        self.ops.push(Op::Dispose { w, key, ts });
        self.after_writer_op();
        true
    }
    fn dispose_ts(&mut self, ts: i64) -> bool {
        if self.dispose() {
            let i = self.ops.iter().rposition(|o| matches!(o, Op::Dispose { .. })).unwrap();
            if let Op::Dispose { ts: t, .. } = &mut self.ops[i] {
                *t = ts;
            }
            true
        } else {
            false
        }
    }
    fn unreg_ts(&mut self, ts: i64) -> bool {
        if self.unreg() {
            let i = self.ops.iter().rposition(|o| matches!(o, Op::Unreg { .. })).unwrap();
            if let Op::Unreg { ts: t, .. } = &mut self.ops[i] {
                *t = ts;
            }
            true
        } else {
            false
        }
    }
    fn unreg(&mut self) -> bool {
        let cands: Vec<(usize, u32)> =
            (0..self.n_writers).flat_map(|w| self.reg[w].iter().map(move |k| (w, *k))).collect();
        if cands.is_empty() {
            return false;
        }
        let (w, key) = *self.rng.pick(&cands);
        let ts = self.tick();
        self.ops.push(Op::Unreg { w, key, ts });
        self.reg[w].retain(|k| *k != key);
        self.after_writer_op();
        true
    }
    fn reader(&mut self, op: Op) {
        self.release();
        self.ops.push(op);
    }
    fn rand_read(&mut self, p_any: f64, p_all_max: f64, p_take: f64) {
        let take = self.rng.chance(p_take);
        let sel = if self.rng.chance(0.55) { Sel::All } else { Sel::Inst(self.key()) };
        let op = ReadOp {
            take,
            sel,
            max: rand_max(self.rng, p_all_max),
            ss: rand_mask(self.rng, 2, p_any),
            vs: rand_mask(self.rng, 2, p_any),
            is: rand_mask(self.rng, 3, p_any),
        };
        self.reader(Op::Read(op));
    }
    fn finish(mut self, cfg: Cfg) -> Hist {
        self.release();
        Hist { cfg, ops: self.ops }
    }
}

fn n_ops(rng: &mut Rng, thorough: bool) -> usize {
    if thorough { 10 + rng.usize(51) } else { 6 + rng.usize(40) }
}

pub fn generate(prop: &str, rng: &mut Rng, thorough: bool) -> Hist {
    match prop {
        "C18" => gen_c18(rng, thorough),
        "C19" => gen_c19(rng, thorough),
        "C20" => gen_c20(rng, thorough),
        "C21" => gen_c21(rng, thorough),
        "C22" => gen_c22(rng, thorough),
        "C23" => gen_c23(rng, thorough),
        "C24" => gen_c24(rng, thorough),
        "C25" => gen_c25(rng, thorough),
        _ => panic!("unknown property {prop}"),
    }
}

fn gen_c18(rng: &mut Rng, thorough: bool) -> Hist {
    let mut cfg = Cfg::base("C18", rng);
    cfg.n_writers = 1 + rng.usize(2);
    let n_inst = 1 + rng.usize(4);
    if rng.chance(0.85) {
        let d = *rng.pick(&[1u32, 1, 2, 2, 3, 5]);
        cfg.depth = Some(d);
        cfg.max_spi = match rng.below(10) {
            0..=4 => Some(d as i32),
            5..=6 => Some(d as i32 + 1),
            7 => Some(d as i32 + 3),
            _ => None,
        };
    } else {
        cfg.depth = None;
        cfg.max_spi = if rng.chance(0.4) { Some(2 + rng.below(5) as i32) } else { None };
    }
    // ample total limits: never the binding constraint
    if let (true, Some(spi)) = (rng.chance(0.5), cfg.max_spi) {
        cfg.max_samples = Some(spi * n_inst as i32 + 70);
    }
    if let (true, Some(spi), Some(d)) = (rng.chance(0.12), cfg.max_spi, cfg.depth) {
        // tight total: exactly room for depth samples of every instance
        cfg.max_samples = Some((d as i32 * n_inst as i32).max(spi));
    }
    if rng.chance(0.4) {
        cfg.max_instances = Some(n_inst as i32 + rng.below(2) as i32);
    }
    let with_dispose = rng.chance(0.08);
    let n = n_ops(rng, thorough);
    let mut g = G::new(rng, cfg.n_writers, n_inst);
    while g.ops.len() < n {
        let r = g.rng.below(100);
        if r < 62 {
            g.write();
            if g.rng.chance(0.45) {
                g.reader(read_all(false));
            }
        } else if r < 66 {
            let k = 2 + g.rng.below(5) as u32;
            g.freeze(k);
        } else if r < 70 && with_dispose {
            g.dispose();
        } else if r < 82 {
            // takes free room ("until taken")
            let sel = if g.rng.chance(0.5) { Sel::All } else { Sel::Inst(g.key()) };
            let max = rand_max(g.rng, 0.5);
            g.reader(Op::Read(ReadOp { take: true, sel, max, ss: SS_ANY, vs: VS_ANY, is: IS_ANY }));
        } else {
            g.reader(read_all(false));
        }
    }
    g.reader(read_all(false));
    g.finish(cfg)
}

fn gen_c19(rng: &mut Rng, thorough: bool) -> Hist {
    let mut cfg = Cfg::base("C19", rng);
    cfg.n_writers = 1 + rng.usize(2);
    let n_inst = 1 + rng.usize(4);
    loop {
        cfg.max_spi = if rng.chance(0.5) { Some(1 + rng.below(4) as i32) } else { None };
        cfg.max_samples = if rng.chance(0.5) { Some(1 + rng.below(8) as i32) } else { None };
        cfg.max_instances = if rng.chance(0.4) { Some(1 + rng.below(3) as i32) } else { None };
        if let (Some(ms), Some(spi)) = (cfg.max_samples, cfg.max_spi) {
            if ms < spi {
                continue;
            }
        }
        if let (Some(ms), None) = (cfg.max_samples, cfg.max_spi) {
            // max_samples >= max_samples_per_instance(unlimited) would be inconsistent
            let _ = ms;
            cfg.max_spi = cfg.max_samples;
        }
        if cfg.max_spi.is_some() || cfg.max_samples.is_some() || cfg.max_instances.is_some() {
            break;
        }
    }
    if rng.chance(0.3) {
        // KEEP_LAST with depth strictly below max_samples_per_instance (the equality case is C18's)
        let hi = cfg.max_spi.map(|s| s - 1).unwrap_or(4);
        if hi >= 1 {
            cfg.depth = Some(1 + rng.below(hi.min(4) as u64) as u32);
        }
    }
    let with_dispose = rng.chance(0.1);
    let n = n_ops(rng, thorough);
    let mut g = G::new(rng, cfg.n_writers, n_inst);
    while g.ops.len() < n {
        let r = g.rng.below(100);
        if r < 68 {
            g.write();
            if g.rng.chance(0.5) {
                g.reader(read_all(false));
            }
        } else if r < 71 {
            let k = 2 + g.rng.below(4) as u32;
            g.freeze(k);
        } else if r < 75 && with_dispose {
            g.dispose();
        } else if r < 90 {
            let sel = if g.rng.chance(0.5) { Sel::All } else { Sel::Inst(g.key()) };
            let max = rand_max(g.rng, 0.5);
            g.reader(Op::Read(ReadOp { take: true, sel, max, ss: SS_ANY, vs: VS_ANY, is: IS_ANY }));
        } else {
            g.reader(read_all(false));
        }
    }
    g.reader(read_all(false));
    if g.rng.chance(0.08) {
        g.ops.push(Op::RejStatus);
    }
    g.finish(cfg)
}

fn gen_c20(rng: &mut Rng, thorough: bool) -> Hist {
    let mut cfg = Cfg::base("C20", rng);
    cfg.n_writers = 1 + rng.usize(2);
    for a in cfg.autodispose.iter_mut() {
        *a = rng.bool();
    }
    let n_inst = 1 + rng.usize(4);
    if rng.chance(0.4) {
        cfg.depth = Some(2 + rng.below(3) as u32);
    }
    let lifecycle = rng.chance(0.5);
    let n = n_ops(rng, thorough);
    let mut g = G::new(rng, cfg.n_writers, n_inst);
    while g.ops.len() < n {
        let r = g.rng.below(100);
        if r < 48 {
            g.write();
        } else if r < 55 {
            if lifecycle {
                g.dispose();
            } else {
                g.write();
            }
        } else if r < 59 {
            if lifecycle {
                g.unreg();
            } else {
                g.write();
            }
        } else if r < 62 {
            let k = 2 + g.rng.below(4) as u32;
            g.freeze(k);
        } else {
            g.rand_read(0.4, 0.45, 0.4);
        }
    }
    g.reader(read_all(false));
    g.finish(cfg)
}

fn gen_c21(rng: &mut Rng, thorough: bool) -> Hist {
    let mut cfg = Cfg::base("C21", rng);
    cfg.by_source = true;
    cfg.n_writers = 1 + rng.usize(3);
    let n_inst = 1 + rng.usize(3);
    if rng.chance(0.2) {
        cfg.depth = Some(3 + rng.below(3) as u32);
    }
    // 0 increasing, 1 decreasing, 2 random in a small range (many equal), 3 random wide
    let pattern = rng.below(4);
    let n = n_ops(rng, thorough);
    let mut g = G::new(rng, cfg.n_writers, n_inst);
    let mut up = 0i64;
    let mut down = 1000i64;
    while g.ops.len() < n {
        let r = g.rng.below(100);
        if r < 70 {
            let ts = match pattern {
                0 => {
                    up += g.rng.below(3) as i64;
                    up
                }
                1 => {
                    down -= g.rng.below(3) as i64;
                    down
                }
                2 => g.rng.below(4) as i64,
                _ => g.rng.below(200) as i64,
            };
            let (w, k) = (g.writer(), g.key());
            g.write_ts(w, k, ts);
        } else if r < 76 {
            let k = 2 + g.rng.below(5) as u32;
            g.freeze(k);
        } else {
            g.rand_read(0.7, 0.6, 0.35);
        }
    }
    g.reader(read_all(false));
    g.finish(cfg)
}

fn gen_c22(rng: &mut Rng, thorough: bool) -> Hist {
    let mut cfg = Cfg::base("C22", rng);
    cfg.n_writers = 1 + rng.usize(3);
    for a in cfg.autodispose.iter_mut() {
        *a = rng.bool();
    }
    let n_inst = 1 + rng.usize(3);
    if rng.chance(0.3) {
        cfg.depth = Some(1 + rng.below(4) as u32);
    }
    let n = n_ops(rng, thorough);
    let mut g = G::new(rng, cfg.n_writers, n_inst);
    while g.ops.len() < n {
        let r = g.rng.below(100);
        if r < 38 {
            g.write();
        } else if r < 50 {
            if !g.dispose() {
                g.write();
            }
        } else if r < 62 {
            if !g.unreg() {
                g.write();
            }
        } else if r < 65 {
            let k = 2 + g.rng.below(3) as u32;
            g.freeze(k);
        } else {
            // state-independent selection: ANY masks
            let take = g.rng.chance(0.4);
            let sel = if g.rng.chance(0.6) { Sel::All } else { Sel::Inst(g.key()) };
            let max = rand_max(g.rng, 0.7);
            g.reader(Op::Read(ReadOp { take, sel, max, ss: SS_ANY, vs: VS_ANY, is: IS_ANY }));
        }
    }
    g.reader(read_all(false));
    g.finish(cfg)
}

fn gen_c23(rng: &mut Rng, thorough: bool) -> Hist {
    let mut cfg = Cfg::base("C23", rng);
    cfg.n_writers = 1 + rng.usize(2);
    for a in cfg.autodispose.iter_mut() {
        *a = rng.bool();
    }
    let n_inst = 2 + rng.usize(3);
    if rng.chance(0.3) {
        cfg.depth = Some(1 + rng.below(3) as u32);
    }
    let lifecycle = rng.chance(0.4);
    let n = n_ops(rng, thorough);
    let mut g = G::new(rng, cfg.n_writers, n_inst);
    // every instance gets at least one sample early on
    let keys = g.keys.clone();
    for k in keys {
        let (w, t) = (g.writer(), g.tick());
        g.write_ts(w, k, t);
    }
    while g.ops.len() < n {
        let r = g.rng.below(100);
        if r < 35 {
            g.write();
        } else if r < 42 {
            if lifecycle {
                g.dispose();
            } else {
                g.write();
            }
        } else if r < 60 {
            // create mixed states: read / take single instances or a few samples
            let take = g.rng.chance(0.45);
            let sel = if g.rng.chance(0.75) { Sel::Inst(g.key()) } else { Sel::All };
            let max = rand_max(g.rng, 0.5);
            g.reader(Op::Read(ReadOp { take, sel, max, ss: SS_ANY, vs: VS_ANY, is: IS_ANY }));
        } else {
            let (take, max) = (g.rng.chance(0.3), rand_max(g.rng, 0.6));
            let (ss, vs, is) = (rand_mask(g.rng, 2, 0.3), rand_mask(g.rng, 2, 0.5), rand_mask(g.rng, 3, 0.6));
            g.reader(Op::Walk { take, max, ss, vs, is });
        }
    }
    let (ss, vs) = (rand_mask(g.rng, 2, 0.3), rand_mask(g.rng, 2, 0.5));
    g.reader(Op::Walk { take: false, max: MAX_ALL, ss, vs, is: IS_ANY });
    g.finish(cfg)
}

fn gen_c25(rng: &mut Rng, thorough: bool) -> Hist {
    let mut cfg = Cfg::base("C25", rng);
    cfg.n_writers = 1 + rng.usize(2);
    let n_inst = 1 + rng.usize(3);
    let sep = *rng.pick(&[1i64, 2, 5, 10, 50]);
    cfg.min_sep_ms = sep;
    // 0: in-order stamps only, 1: occasional steps back, 2: random
    let pattern = rng.below(3);
    // a quarter of the histories contain dispose / unregister_instance and re-writes after them
    // (instance rebirth); half of those additionally the sequence
    // write(T); take; dispose|unregister(near or far from T); write(near or far from T); read
    let lifecycle = rng.chance(0.25);
    let targeted = lifecycle && rng.chance(0.5);
    if lifecycle {
        for a in cfg.autodispose.iter_mut() {
            *a = rng.bool();
        }
    }
    let n = n_ops(rng, thorough);
    let inject_at = if targeted { rng.usize(n.max(1)) } else { usize::MAX };
    let mut injected = false;
    let mut g = G::new(rng, cfg.n_writers, n_inst);
    let mut cur = 100i64;
    while g.ops.len() < n {
        if targeted && !injected && g.ops.len() >= inject_at {
            injected = true;
            let (w, k) = (g.writer(), g.key());
            let t = cur + 2 * sep + 1;
            cur = t;
            g.write_ts(w, k, t);
            g.reader(Op::Read(ReadOp { take: true, sel: Sel::Inst(k), max: MAX_ALL, ss: SS_ANY, vs: VS_ANY, is: IS_ANY }));
            let tn = t + *g.rng.pick(&[0, 1, sep - 1, sep - 1, sep, 2 * sep]);
            if g.rng.bool() {
                g.ops.push(Op::Dispose { w, key: k, ts: tn });
            } else {
                g.ops.push(Op::Unreg { w, key: k, ts: tn });
                g.reg[w].retain(|x| *x != k);
            }
            if g.rng.chance(0.3) {
                let tk = g.rng.bool();
                g.reader(read_all(tk));
            }
            let t2 = t + *g.rng.pick(&[1, sep - 1, sep - 1, sep - 1, sep, 3 * sep]);
            let w2 = if g.rng.chance(0.7) { w } else { g.writer() };
            g.write_ts(w2, k, t2.max(0));
            g.reader(read_all(false));
            continue;
        }
        let r = g.rng.below(100);
        if r < 62 || (r < 72 && !lifecycle) {
            let step = *g.rng.pick(&[0, 0, 1, sep - 1, sep - 1, sep, sep, sep + 1, 2 * sep, 3 * sep + 1]);
            let ts = match pattern {
                0 => {
                    cur += step;
                    cur
                }
                1 => {
                    if g.rng.chance(0.2) {
                        cur - *g.rng.pick(&[1, sep - 1, sep, sep + 1, 2 * sep, 4 * sep]).max(&0)
                    } else {
                        cur += step;
                        cur
                    }
                }
                _ => 100 + g.rng.below((6 * sep + 4) as u64) as i64,
            };
            let (w, k) = (g.writer(), g.key());
            g.write_ts(w, k, ts.max(0));
        } else if r < 72 {
            // dispose (6%) / unregister (4%), stamped near (within the separation of the current
            // stamp) or far
            let d = *g.rng.pick(&[0, 1, sep - 1, sep, 2 * sep + 1]);
            let ts = match pattern {
                2 => 100 + g.rng.below((6 * sep + 4) as u64) as i64,
                _ => cur + d,
            };
            if d >= sep && pattern != 2 {
                cur = ts;
            }
            if r < 68 {
                g.dispose_ts(ts);
            } else {
                g.unreg_ts(ts);
            }
        } else if r < 76 {
            let k = 2 + g.rng.below(4) as u32;
            g.freeze(k);
        } else if r < 88 {
            g.reader(read_all(false));
        } else {
            let sel = if g.rng.chance(0.5) { Sel::All } else { Sel::Inst(g.key()) };
            let max = rand_max(g.rng, 0.6);
            g.reader(Op::Read(ReadOp { take: true, sel, max, ss: SS_ANY, vs: VS_ANY, is: IS_ANY }));
        }
    }
    g.reader(read_all(false));
    g.finish(cfg)
}

fn gen_c24(rng: &mut Rng, thorough: bool) -> Hist {
    let mut cfg = Cfg::base("C24", rng);
    cfg.exclusive = true;
    cfg.n_writers = 2 + rng.usize(2);
    let pool: &[i32] = if rng.chance(0.5) { &[1, 5, 10] } else { &[3, 3, 7] };
    for s in cfg.strengths.iter_mut() {
        *s = *rng.pick(pool);
    }
    for a in cfg.autodispose.iter_mut() {
        *a = rng.bool();
    }
    let n_inst = 1 + rng.usize(2);
    // 0 plain interleavings, 1 with writer deletion, 2 deadline
    let mode = rng.below(10);
    let n = if thorough { 8 + rng.usize(40) } else { 5 + rng.usize(25) };
    if mode >= 8 {
        cfg.deadline_ms = *rng.pick(&[200i64, 300, 500]);
        // dust-dds' worker re-polls without delay while a reader deadline timer is overdue: let
        // every clock read cost virtual time so that such phases stay affordable
        cfg.clock_tick = 50_000;
        let d = cfg.deadline_ms;
        // pattern: the strongest writer writes once and falls silent while a weaker one keeps
        // writing the instance more often than the deadline period
        let strong = (0..cfg.n_writers).max_by_key(|w| cfg.strengths[*w]).unwrap();
        let weak = (0..cfg.n_writers).find(|w| cfg.strengths[*w] < cfg.strengths[strong]);
        if let (true, Some(weak)) = (rng.chance(0.5), weak) {
            let mut g = G::new(rng, cfg.n_writers, n_inst);
            let k = g.key();
            if g.rng.bool() {
                let t = g.tick();
                g.write_ts(weak, k, t);
            }
            let t = g.tick();
            g.write_ts(strong, k, t);
            let rounds = 7 + g.rng.below(4);
            for _ in 0..rounds {
                let ms = *g.rng.pick(&[d / 2, d / 2, d / 3, d - 30]);
                g.ops.push(Op::Sleep { ms });
                let t = g.tick();
                g.write_ts(weak, k, t);
            }
            if g.rng.bool() {
                let t = g.tick();
                g.write_ts(strong, k, t);
                let t = g.tick();
                g.write_ts(weak, k, t);
            }
            return g.finish(cfg);
        }
        let mut g = G::new(rng, cfg.n_writers, n_inst);
        while g.ops.len() < n {
            let r = g.rng.below(100);
            if r < 60 {
                g.write();
            } else {
                let ms = *g.rng.pick(&[d / 4, d / 2, d / 2, d, 2 * d + 150, 3 * d]);
                g.ops.push(Op::Sleep { ms });
            }
        }
        return g.finish(cfg);
    }
    let mut g = G::new(rng, cfg.n_writers, n_inst);
    let mut deleted: Vec<usize> = Vec::new();
    while g.ops.len() < n {
        let r = g.rng.below(100);
        if r < 60 {
            let (w, k, t) = (g.writer(), g.key(), g.tick());
            if !deleted.contains(&w) {
                g.write_ts(w, k, t);
            }
        } else if r < 75 {
            g.dispose();
        } else if r < 90 {
            g.unreg();
        } else if mode >= 5 && deleted.len() + 1 < g.n_writers {
            let w = g.writer();
            if !deleted.contains(&w) {
                deleted.push(w);
                g.reg[w].clear();
                g.ops.push(Op::DeleteWriter { w });
            }
        } else {
            g.write();
        }
    }
    g.finish(cfg)
}
