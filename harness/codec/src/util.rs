//! Helpers local to the codec engine: panic capture, replay file access, hashing.
use std::cell::RefCell;
use std::panic::{AssertUnwindSafe, catch_unwind};
use vcore::Json;

#[derive(Clone, Debug, Default)]
pub struct PanicInfo {
    pub msg: String,
    pub loc: String,
    pub sym: String,
}

thread_local! {
    static LAST_PANIC: RefCell<Option<PanicInfo>> = const { RefCell::new(None) };
}

/// Records message, location and the first `dust_dds::` backtrace symbol of a panic; prints nothing.
pub fn install_panic_hook() {
    std::panic::set_hook(Box::new(|info| {
        let msg = if let Some(s) = info.payload().downcast_ref::<&str>() {
            s.to_string()
        } else if let Some(s) = info.payload().downcast_ref::<String>() {
            s.clone()
        } else {
            "<non-string panic>".to_string()
        };
        let loc = info
            .location()
            .map(|l| format!("{}:{}", l.file(), l.line()))
            .unwrap_or_default();
        let bt = std::backtrace::Backtrace::force_capture().to_string();
        let mut sym = String::new();
        for line in bt.lines() {
            let t = line.trim();
            if let Some(p) = t.find("dust_dds::") {
                // "12: dust_dds::a::b::c"  -> strip frame number and hash suffix
                let s = &t[p..];
                let s = s.split("::h").next().unwrap_or(s);
                sym = s.to_string();
                break;
            }
        }
        LAST_PANIC.with(|c| *c.borrow_mut() = Some(PanicInfo { msg, loc, sym }));
    }));
}

/// Run `f`; a panic is returned as `Err(PanicInfo)`.
pub fn guarded<T>(f: impl FnOnce() -> T) -> Result<T, PanicInfo> {
    LAST_PANIC.with(|c| *c.borrow_mut() = None);
    match catch_unwind(AssertUnwindSafe(f)) {
        Ok(v) => Ok(v),
        Err(_) => Err(LAST_PANIC
            .with(|c| c.borrow_mut().take())
            .unwrap_or_default()),
    }
}

/// `panic|<first dust_dds symbol or location>|<normalised message>`
pub fn panic_sig(p: &PanicInfo) -> String {
    let at = if !p.sym.is_empty() {
        p.sym.clone()
    } else {
        // strip the line number: signatures must survive unrelated edits
        p.loc.rsplit_once(':').map(|x| x.0.to_string()).unwrap_or_default()
    };
    format!("panic|{}|{}", at, vcore::normalize_msg(&p.msg))
}

/// The `replay` objects of all witnesses in a runner replay file.
pub fn replay_objects(j: &Json) -> Vec<Json> {
    let mut out = Vec::new();
    if let Some(ws) = j.get("witnesses").and_then(|w| w.as_arr()) {
        for w in ws {
            if let Some(r) = w.get("replay") {
                out.push(r.clone());
            }
        }
    }
    out
}

pub fn hash_str(s: &str) -> u64 {
    vcore::fnv_str(s)
}

/// u64 stored as decimal string (JSON numbers above 2^53 do not survive python's json → fine, but
/// other tools may mangle them; strings are safe everywhere).
pub fn u64_json(x: u64) -> Json {
    Json::Str(x.to_string())
}

pub fn json_u64(j: Option<&Json>) -> Option<u64> {
    match j? {
        Json::Str(s) => s.parse().ok(),
        other => other.as_u64(),
    }
}

/// Merge a shard-report JSON (as written by `Report::write`) into `r`.
pub fn merge_report(r: &mut vcore::Report, j: &Json) {
    r.evaluations += j.get("evaluations").and_then(|x| x.as_u64()).unwrap_or(0);
    if let Some(a) = j.get("nontrivial").and_then(|x| x.as_arr()) {
        for h in a {
            if let Some(h) = h.as_str().and_then(|s| u64::from_str_radix(s, 16).ok()) {
                r.nontrivial(h);
            }
        }
    }
    let mut counts: std::collections::BTreeMap<String, u64> = Default::default();
    if let Some(Json::Obj(m)) = j.get("violation_counts") {
        for (k, v) in m {
            counts.insert(k.clone(), v.as_u64().unwrap_or(0));
        }
    }
    if let Some(a) = j.get("violations").and_then(|x| x.as_arr()) {
        for v in a {
            let sig = v.get("sig").and_then(|x| x.as_str()).unwrap_or("").to_string();
            let kept = r.violations.iter().filter(|x| x.sig == sig).count();
            if kept < 3 {
                r.violations.push(vcore::Violation {
                    sig,
                    what: v.get("what").and_then(|x| x.as_str()).unwrap_or("").to_string(),
                    replay: v.get("replay").cloned().unwrap_or(Json::Null),
                });
            }
        }
    }
    for (k, n) in counts {
        *r.violation_counts.entry(k).or_insert(0) += n;
    }
    if let Some(a) = j.get("samples").and_then(|x| x.as_arr()) {
        for s in a {
            r.sample(s.clone());
        }
    }
    if let Some(Json::Obj(m)) = j.get("stats") {
        for (k, v) in m {
            if let Json::Int(n) = v {
                r.stat(k, *n);
            }
        }
    }
    if let Some(Json::Obj(m)) = j.get("maxstats") {
        for (k, v) in m {
            if let Json::Int(n) = v {
                r.maxstat(k, *n);
            }
        }
    }
    if let Some(Json::Obj(m)) = j.get("sets") {
        for (k, v) in m {
            if let Some(a) = v.as_arr() {
                for x in a {
                    if let Some(x) = x.as_str() {
                        r.set(k, x);
                    }
                }
            }
        }
    }
    if let Some(a) = j.get("inconclusive").and_then(|x| x.as_arr()) {
        for x in a {
            if let Some(x) = x.as_str() {
                r.inconclusive(x);
            }
        }
    }
}
