//! C01 (reliable), C02 (best effort), C05b (fragmented end-to-end): data path under network faults.
use crate::common::*;
use dust_dds::infrastructure::qos::{DataReaderQos, DataWriterQos};
use dust_dds::infrastructure::sample_info::{ANY_INSTANCE_STATE, ANY_SAMPLE_STATE, ANY_VIEW_STATE};
use simnet::*;
use std::cell::RefCell;
use std::collections::{BTreeMap, BTreeSet};
use std::rc::Rc;
use vcore::rtpswalk::{self, Class};
use vcore::{Json, Report, Rng};

#[derive(Clone, Copy, Debug, PartialEq, Eq)]
pub enum Mode {
    Reliable,
    BestEffort,
    /// reliable, every sample fragmented, fragment-level faults
    FragReliable,
    /// best effort, every sample fragmented
    FragBestEffort,
}

#[derive(Clone, Debug)]
struct Params {
    mode: Mode,
    frag: usize,
    n_writers: usize,
    n_readers: usize,
    /// best-effort modes: an additional VOLATILE reader joins after this many ms of writing (the writer
    /// sends it a GAP for what it missed; that GAP is subject to the same duplication / delay faults)
    late_joiner_after_ms: Option<i64>,
    keep_last: Option<u32>,
    n_instances: u32,
    n_writes: u32,
    sizes: Vec<usize>,
    write_gap_max_ms: i64,
    take_period_ms: i64,
    plan: FaultPlan,
    target: u32,
    fault_extra_ms: i64,
    policy: Policy,
    clock_tick: i64,
    jitter: i64,
    max_block_ms: i64,
}

fn gen_params(rng: &mut Rng, mode: Mode, thorough: bool) -> Params {
    let frag = *rng.pick(&[64usize, 256, 1344]);
    let all_frag = matches!(mode, Mode::FragReliable | Mode::FragBestEffort);
    // total serialized size targets around multiples of the fragment size
    let mut sizes = Vec::new();
    let classes: Vec<usize> = if all_frag {
        vec![frag + 1, 2 * frag - 1, 2 * frag, 2 * frag + 1, 3 * frag, 5 * frag + 3, 9 * frag - 1]
    } else {
        vec![24, 40, frag - 1, frag, frag + 1, 2 * frag - 1, 2 * frag, 2 * frag + 1, 5 * frag + 3, 30]
    };
    let nsz = 1 + rng.usize(4);
    for _ in 0..nsz {
        let t = *rng.pick(&classes);
        sizes.push(t.saturating_sub(20));
    }
    let keep_last = if rng.chance(0.6) {
        None
    } else {
        Some(*rng.pick(&[1u32, 2, 5]))
    };
    let max_writes = if thorough { 200 } else { 60 };
    let mut plan = FaultPlan::default();
    let fault_kind = rng.below(8);
    match fault_kind {
        0 => {
            plan.loss = rng.f64() * 0.6;
        }
        1 => {
            plan.dup = rng.f64() * 0.5;
        }
        2 => {
            plan.delay = rng.f64() * 0.6;
            plan.delay_max_ms(rng, 2000);
        }
        3 => {
            plan.loss = rng.f64() * 0.4;
            plan.dup = rng.f64() * 0.3;
            plan.delay = rng.f64() * 0.4;
            plan.delay_max_ms(rng, 1000);
        }
        4 => {
            plan.burst = 0.02 + rng.f64() * 0.1;
            plan.burst_len = 2 + rng.below(20) as u32;
        }
        5 => {
            plan.loss = 0.05 + rng.f64() * 0.2;
            plan.delay = 0.3;
            plan.delay_max_ms(rng, 300);
        }
        6 => {
            plan.loss = rng.f64() * 0.15;
        }
        _ => {
            // targeted only
        }
    }
    let target = if fault_kind == 7 || rng.chance(0.25) {
        1 + rng.below(7) as u32
    } else {
        0
    };
    let mut p = Params {
        mode,
        frag,
        n_writers: if rng.chance(0.3) { 2 } else { 1 },
        n_readers: if rng.chance(0.3) { 2 } else { 1 },
        late_joiner_after_ms: None,
        keep_last,
        n_instances: 1 + rng.below(4) as u32,
        n_writes: 5 + rng.below(max_writes - 4) as u32,
        sizes,
        write_gap_max_ms: *rng.pick(&[0i64, 1, 5, 20]),
        take_period_ms: *rng.pick(&[10i64, 50, 200]),
        plan,
        target,
        fault_extra_ms: rng.below(3000) as i64,
        policy: pick_policy(rng),
        clock_tick: *rng.pick(&[0i64, 0, 1, 1000]),
        jitter: *rng.pick(&[0i64, 0, 1000, 1_000_000]),
        max_block_ms: *rng.pick(&[0i64, 10, 100, 1000]),
    };
    // drawn last: the other parameters of a case do not depend on it
    if matches!(mode, Mode::BestEffort | Mode::FragBestEffort) && rng.chance(0.4) {
        p.late_joiner_after_ms = Some(rng.below((p.n_writes as u64 * (p.write_gap_max_ms as u64 + 1)).max(2)) as i64 + 1);
    }
    p
}

trait PlanExt {
    fn delay_max_ms(&mut self, rng: &mut Rng, max: u64);
}
impl PlanExt for FaultPlan {
    fn delay_max_ms(&mut self, rng: &mut Rng, max: u64) {
        self.delay_max_ns = (1 + rng.below(max)) as i64 * MS;
    }
}

impl Params {
    fn to_json(&self) -> Json {
        Json::obj()
            .set("mode", format!("{:?}", self.mode))
            .set("fragment_size", self.frag)
            .set("writers", self.n_writers)
            .set("readers", self.n_readers)
            .set("late_joining_reader_after_ms", self.late_joiner_after_ms)
            .set(
                "writer_history",
                match self.keep_last {
                    None => "KEEP_ALL".to_string(),
                    Some(d) => format!("KEEP_LAST({})", d),
                },
            )
            .set("instances", self.n_instances)
            .set("writes_per_writer", self.n_writes)
            .set("payload_lens", self.sizes.clone())
            .set("faults", self.plan.describe())
            .set("targeted", target_name(self.target))
            .set("policy", format!("{:?}", self.policy))
            .set("clock_tick_ns", self.clock_tick)
            .set("sleep_jitter_ns", self.jitter)
            .set("max_blocking_ms", self.max_block_ms)
    }
}

fn target_name(t: u32) -> &'static str {
    match t {
        0 => "none",
        1 => "drop_first_transmission_of_every_3rd_sample",
        2 => "drop_every_2nd_DATA_FRAG",
        3 => "drop_all_HEARTBEAT_in_window",
        4 => "drop_all_ACKNACK_in_window",
        5 => "reverse_fragments(delay_decreasing)",
        6 => "drop_all_GAP_and_NACK_FRAG_in_window",
        7 => "drop_last_fragment_first_time",
        _ => "?",
    }
}

/// Wrap a plan with a targeted rule operating on decoded submessages.
fn make_policy(p: &Params, until_ns: i64) -> FaultFn {
    let mut base = {
        let mut plan = p.plan.clone();
        plan.until_ns = until_ns;
        plan.into_fn()
    };
    let target = p.target;
    let mut seen_first: BTreeSet<(usize, i64, u32)> = BTreeSet::new();
    let mut frag_counter: u64 = 0;
    Box::new(move |pkt: &Pkt, rng: &mut Rng| {
        if pkt.class == Class::User && pkt.now < until_ns && target != 0 {
            for s in &pkt.walk.subs {
                if s.is_builtin() {
                    continue;
                }
                match (target, s.id) {
                    (1, rtpswalk::DATA) | (1, rtpswalk::DATA_FRAG) => {
                        if s.sn % 3 == 0 && seen_first.insert((pkt.dst, s.sn, s.frag_start)) {
                            return vec![];
                        }
                    }
                    (2, rtpswalk::DATA_FRAG) => {
                        frag_counter += 1;
                        if frag_counter % 2 == 0 {
                            return vec![];
                        }
                    }
                    (3, rtpswalk::HEARTBEAT) => {
                        // a message carrying DATA+HEARTBEAT loses everything: model "HB lost" by
                        // dropping only pure heartbeat datagrams
                        if !pkt.walk.subs.iter().any(|x| x.id == rtpswalk::DATA || x.id == rtpswalk::DATA_FRAG) {
                            return vec![];
                        }
                    }
                    (4, rtpswalk::ACKNACK) => return vec![],
                    (5, rtpswalk::DATA_FRAG) => {
                        let d = BASE_LATENCY + (200i64.saturating_sub(s.frag_start as i64)).max(0) * 10 * US;
                        return vec![Delivery::after(d)];
                    }
                    (6, rtpswalk::GAP) | (6, rtpswalk::NACK_FRAG) => return vec![],
                    (7, rtpswalk::DATA_FRAG) => {
                        let total = if s.frag_size > 0 {
                            (s.sample_size as u64).div_ceil(s.frag_size as u64) as u32
                        } else {
                            0
                        };
                        if s.frag_start == total && seen_first.insert((pkt.dst, s.sn, s.frag_start)) {
                            return vec![];
                        }
                    }
                    _ => {}
                }
            }
        }
        base(pkt, rng)
    })
}

#[derive(Default)]
struct ReaderLog {
    /// (take index, virtual ns, list of (writer, seq, key, payload_ok))
    takes: Vec<(usize, i64, Vec<(u32, u32, u32, bool)>)>,
}

#[derive(Default)]
struct WriterLog {
    /// seq -> (key, len, ok)
    writes: Vec<(u32, u32, usize, Result<(), String>)>,
}

struct Outcome {
    params: Params,
    matched: bool,
    writers: Vec<WriterLog>,
    readers: Vec<ReaderLog>,
    healed_at: i64,
    end_at: i64,
    /// no new sample for 30 s (virtual) after healing although samples were outstanding
    stuck: bool,
    /// resource cap hit while samples were still trickling in
    storm: bool,
}

async fn scenario(w: World, p: Params) -> Outcome {
    let sim = w.sim.clone();
    let reliable_mode = matches!(p.mode, Mode::Reliable | Mode::FragReliable);
    let mut wq = DataWriterQos {
        reliability: reliable(p.max_block_ms),
        history: match p.keep_last {
            None => keep_all(),
            Some(d) => keep_last(d),
        },
        ..Default::default()
    };
    if !reliable_mode && w.sim.rand(2) == 0 {
        wq.reliability = best_effort();
    }
    let rq = DataReaderQos {
        reliability: if reliable_mode { reliable(100) } else { best_effort() },
        history: keep_all(),
        ..Default::default()
    };
    let mut writers = Vec::new();
    let mut wparts = Vec::new();
    for _ in 0..p.n_writers {
        let dp = new_participant(&w, 0).await;
        let t = new_topic::<Msg>(&dp, "Delivery", "Msg").await;
        let pb = new_publisher(&dp).await;
        let dw = new_writer::<Msg>(&pb, &t, wq.clone()).await;
        writers.push(dw);
        wparts.push((dp, t, pb));
    }
    let mut readers = Vec::new();
    let mut rparts = Vec::new();
    for _ in 0..p.n_readers {
        let dp = new_participant(&w, 0).await;
        let t = new_topic::<Msg>(&dp, "Delivery", "Msg").await;
        let sb = new_subscriber(&dp).await;
        let dr = new_reader::<Msg>(&sb, &t, rq.clone()).await;
        readers.push(dr);
        rparts.push((dp, t, sb));
    }
    let mut matched = true;
    for dw in &writers {
        matched &= wait_matched(&sim, dw, p.n_readers as i32, 20 * SEC).await;
    }
    for dr in &readers {
        matched &= wait_reader_matched(&sim, dr, p.n_writers as i32, 20 * SEC).await;
    }
    let mut out = Outcome {
        params: p.clone(),
        matched,
        writers: Vec::new(),
        readers: Vec::new(),
        healed_at: 0,
        end_at: 0,
        stuck: false,
        storm: false,
    };
    if !matched {
        return out;
    }
    // faults start now
    let est_write_ms = p.n_writes as i64 * (p.write_gap_max_ms + 1) + 500;
    let until = sim.now() + (est_write_ms + p.fault_extra_ms) * MS;
    w.net.set_policy(Some(make_policy(&p, until)));

    let rlogs: Vec<Rc<RefCell<ReaderLog>>> = (0..p.n_readers)
        .map(|_| Rc::new(RefCell::new(ReaderLog::default())))
        .collect();
    let stop = Rc::new(RefCell::new(false));
    let mut rjoins = Vec::new();
    for (i, dr) in readers.iter().enumerate() {
        let dr = dr.clone();
        let log = rlogs[i].clone();
        let stop = stop.clone();
        let sim2 = sim.clone();
        let period = p.take_period_ms * MS;
        rjoins.push(sim.spawn_local(async move {
            let mut n = 0usize;
            loop {
                let done = *stop.borrow();
                if let Ok(samples) = dr
                    .take(i32::MAX, ANY_SAMPLE_STATE, ANY_VIEW_STATE, ANY_INSTANCE_STATE)
                    .await
                {
                    let mut v = Vec::new();
                    for s in samples {
                        if let Some(m) = s.data {
                            v.push((m.writer, m.seq, m.key, msg_ok(&m)));
                        }
                    }
                    if !v.is_empty() {
                        log.borrow_mut().takes.push((n, sim2.now(), v));
                        n += 1;
                    }
                }
                if done {
                    break;
                }
                sim2.sleep(period).await;
            }
        }));
    }
    let mut rlogs = rlogs;
    let mut _late_keep = None;
    if let (false, Some(after_ms)) = (reliable_mode, p.late_joiner_after_ms) {
        let dp = new_participant(&w, 0).await;
        let t = new_topic::<Msg>(&dp, "Delivery", "Msg").await;
        let sb = new_subscriber(&dp).await;
        let log = Rc::new(RefCell::new(ReaderLog::default()));
        rlogs.push(log.clone());
        let (sim2, stop, rq2, sb2, t2) = (sim.clone(), stop.clone(), rq.clone(), sb.clone(), t.clone());
        let period = p.take_period_ms * MS;
        _late_keep = Some((dp, t, sb));
        rjoins.push(sim.spawn_local(async move {
            sim2.sleep(after_ms * MS).await;
            let dr = new_reader::<Msg>(&sb2, &t2, rq2).await;
            let mut n = 0usize;
            loop {
                let done = *stop.borrow();
                if let Ok(samples) = dr.take(i32::MAX, ANY_SAMPLE_STATE, ANY_VIEW_STATE, ANY_INSTANCE_STATE).await {
                    let mut v = Vec::new();
                    for s in samples {
                        if let Some(m) = s.data {
                            v.push((m.writer, m.seq, m.key, msg_ok(&m)));
                        }
                    }
                    if !v.is_empty() {
                        log.borrow_mut().takes.push((n, sim2.now(), v));
                        n += 1;
                    }
                }
                if done {
                    break;
                }
                sim2.sleep(period).await;
            }
        }));
    }
    let mut wjoins = Vec::new();
    for (wi, dw) in writers.iter().enumerate() {
        let dw = dw.clone();
        let sim2 = sim.clone();
        let p2 = p.clone();
        wjoins.push(sim.spawn_local(async move {
            let mut log = WriterLog::default();
            let mut rng = Rng::new(0x77 + wi as u64 * 977 + p2.n_writes as u64);
            for seq in 0..p2.n_writes {
                let key = rng.below(p2.n_instances as u64) as u32;
                let len = *rng.pick(&p2.sizes);
                let r = dw.write(msg(key, wi as u32, seq, len), None).await;
                log.writes
                    .push((seq, key, len, r.map_err(|e| err_name(&e))));
                if p2.write_gap_max_ms > 0 {
                    let g = rng.below(p2.write_gap_max_ms as u64 + 1) as i64;
                    if g > 0 {
                        sim2.sleep(g * MS).await;
                    }
                }
            }
            log
        }));
    }
    for j in wjoins {
        out.writers.push(j.await);
    }
    // wait for the end of the fault window
    let now = sim.now();
    if now < until {
        sim.sleep(until - now).await;
    }
    out.healed_at = sim.now();
    // Bounded progress: after healing, the run ends when everything expected was presented
    // (held), or when NO new sample has been presented for 30 s of virtual time although samples
    // are outstanding (stuck => violation), or when a resource cap is hit while samples still
    // trickle in (message storm: no verdict).
    let expected: Vec<BTreeSet<u32>> = out
        .writers
        .iter()
        .map(|wl| expected_set(wl, p.keep_last))
        .collect();
    let hard_deadline = sim.now() + 300 * SEC;
    let datagram_cap = w.net.counters().submitted + 600_000;
    let mut last_progress = sim.now();
    let mut last_count = usize::MAX;
    loop {
        let mut complete = true;
        let mut count = 0usize;
        if reliable_mode {
            for rl in &rlogs {
                let got: BTreeSet<(u32, u32)> = rl
                    .borrow()
                    .takes
                    .iter()
                    .flat_map(|t| t.2.iter().map(|s| (s.0, s.1)))
                    .collect();
                count += got.len();
                for (wi, e) in expected.iter().enumerate() {
                    if e.iter().any(|s| !got.contains(&(wi as u32, *s))) {
                        complete = false;
                    }
                }
            }
        } else {
            // nothing to wait for except in-flight datagrams; give duplicates/delays time to land
            complete = sim.now() > out.healed_at + 3 * SEC;
        }
        if count != last_count {
            last_count = count;
            last_progress = sim.now();
        }
        if complete {
            break;
        }
        if sim.now() - last_progress > 30 * SEC {
            out.stuck = true;
            break;
        }
        if sim.now() > hard_deadline || w.net.counters().submitted > datagram_cap {
            out.storm = true;
            break;
        }
        sim.sleep(100 * MS).await;
    }
    // let late duplicates arrive and be (not) presented
    sim.sleep(500 * MS).await;
    *stop.borrow_mut() = true;
    for j in rjoins {
        j.await;
    }
    out.end_at = sim.now();
    out.readers = rlogs
        .iter()
        .map(|l| std::mem::take(&mut *l.borrow_mut()))
        .collect();
    out
}

/// Samples the property obliges a reliable reader to present: successful writes that the writer
/// still holds (all for KEEP_ALL; the last `depth` successful ones per instance for KEEP_LAST).
fn expected_set(wl: &WriterLog, keep_last: Option<u32>) -> BTreeSet<u32> {
    let ok: Vec<(u32, u32)> = wl
        .writes
        .iter()
        .filter(|w| w.3.is_ok())
        .map(|w| (w.0, w.1))
        .collect();
    match keep_last {
        None => ok.iter().map(|x| x.0).collect(),
        Some(d) => {
            let mut per: BTreeMap<u32, Vec<u32>> = BTreeMap::new();
            for (seq, key) in ok {
                per.entry(key).or_default().push(seq);
            }
            let mut s = BTreeSet::new();
            for (_, v) in per {
                for x in v.iter().rev().take(d as usize) {
                    s.insert(*x);
                }
            }
            s
        }
    }
}

pub fn run(shard: &Shard, prop: &str, mode: Mode) -> Report {
    let mut rep = Report::new(prop);
    run_into(shard, &mut rep, mode, shard.my_cases());
    rep
}

pub fn run_into(shard: &Shard, rep: &mut Report, mode: Mode, cases: Vec<u64>) {
    let thorough = shard.tier == "thorough";
    for case in cases {
        let cs = shard.case_seed(case);
        let mut rng = Rng::new(cs);
        let p = gen_params(&mut rng, mode, thorough);
        if shard.args.has("trace") {
            eprintln!("case {case}: {}", p.to_json().to_string());
        }
        let mut cfg = WorldConfig::default();
        cfg.sim.seed = cs;
        cfg.sim.policy = p.policy;
        cfg.sim.clock_tick = p.clock_tick;
        cfg.sim.jitter_max = p.jitter;
        cfg.sim.max_polls = shard.args.u64("max-polls", 4_000_000);
        cfg.fragment_size = p.frag;
        let p2 = p.clone();
        let trace = shard.args.has("trace");
        let (res, stats, net) = run_world(&cfg, move |w| {
            if trace {
                w.net.enable_sent_log(2_000_000, false);
            }
            scenario(w, p2)
        });
        if trace {
            let mut h: BTreeMap<String, u64> = BTreeMap::new();
            let log = net.take_sent_log();
            for r in &log {
                let k: String = r.summary.split('(').next().unwrap_or("").to_string()
                    + if r.summary.contains(' ') { "+" } else { "" };
                *h.entry(format!("{}:{}", r.src, k)).or_default() += 1;
            }
            eprintln!("  stop={:?} polls={} wpolls={} end={}ms sent={:?}", stats.stop, stats.polls, stats.worker_polls, (stats.end_ns - EPOCH_NS) / MS, h);
            eprintln!("  counters={:?}", net.counters());
            let tail = shard.args.u64("tail", 12) as usize;
            for r in log.iter().rev().take(tail).rev() {
                eprintln!("   {}us {}->{:?} {}", (r.at_ns - EPOCH_NS) / 1000, r.src, r.dsts, r.summary);
            }
        }
        rep.eval();
        let replay = shard
            .base_replay(&format!("delivery/{:?}", mode), case)
            .set("params", p.to_json());
        rep.stat("worker_polls", stats.worker_polls as i128);
        rep.stat("polls", stats.polls as i128);
        rep.maxstat("max_virtual_s", ((stats.end_ns - EPOCH_NS) / SEC) as i128);
        rep.maxstat("max_worker_sleep_request_ms", (stats.max_worker_delay / MS) as i128);
        let c = net.counters();
        rep.stat("datagrams_submitted", c.submitted as i128);
        rep.stat("user_datagrams", c.user_submitted as i128);
        rep.stat("user_datagrams_dropped", c.user_dropped as i128);
        rep.stat("user_datagrams_duplicated", c.user_dup as i128);
        rep.stat("user_datagrams_delayed", c.user_delayed as i128);
        let panicked = report_panics(rep, &stats, &replay);
        let Some(o) = res else {
            if !panicked {
                rep.inconclusive(format!("case {case}: scenario did not finish ({:?})", stats.stop));
            }
            continue;
        };
        if !o.matched {
            if !panicked {
                rep.inconclusive(format!("case {case}: endpoints did not match within 20 s (no faults on discovery)"));
            }
            continue;
        }
        evaluate(rep, &o, &replay, &c, net.fate_hash(), stats.poll_hash, case);
    }
}

fn evaluate(
    rep: &mut Report,
    o: &Outcome,
    replay: &Json,
    c: &NetCounters,
    fate_hash: u64,
    poll_hash: u64,
    case: u64,
) {
    let p = &o.params;
    let reliable_mode = matches!(p.mode, Mode::Reliable | Mode::FragReliable);
    let fragmented = p.sizes.iter().any(|l| l + 20 > p.frag);
    let feat = format!(
        "frag={}|loss={}|reorder={}|dup={}|hist={}",
        yn(fragmented),
        yn(p.plan.loss > 0.0 || p.plan.burst > 0.0 || matches!(p.target, 1 | 2 | 3 | 4 | 6 | 7)),
        yn(p.plan.delay > 0.0 || p.target == 5),
        yn(p.plan.dup > 0.0),
        if p.keep_last.is_some() { "keep_last" } else { "keep_all" }
    );
    let mut presented_total = 0usize;
    for (ri, rl) in o.readers.iter().enumerate() {
        // per writer checks
        for wi in 0..p.n_writers as u32 {
            let written: BTreeMap<u32, (u32, usize, bool)> = o.writers[wi as usize]
                .writes
                .iter()
                .map(|w| (w.0, (w.1, w.2, w.3.is_ok())))
                .collect();
            let mut seen: BTreeSet<u32> = BTreeSet::new();
            let mut prev_take_max: Option<u32> = None;
            for (ti, at, samples) in &rl.takes {
                let mine: Vec<&(u32, u32, u32, bool)> =
                    samples.iter().filter(|s| s.0 == wi).collect();
                if mine.is_empty() {
                    continue;
                }
                presented_total += mine.len();
                let mut per_inst_last: BTreeMap<u32, u32> = BTreeMap::new();
                let mut take_min = u32::MAX;
                let mut take_max = 0u32;
                for s in &mine {
                    let (_, seq, key, ok) = **s;
                    let witness = |kind: &str| {
                        replay
                            .clone()
                            .set("violation", kind)
                            .set("reader", ri)
                            .set("writer", wi)
                            .set("seq", seq)
                            .set("take_index", *ti)
                            .set("at_ms", (*at - EPOCH_NS) / MS)
                    };
                    match written.get(&seq) {
                        None => rep.violation(
                            format!("phantom|{feat}"),
                            format!("reader {ri} presented (writer {wi}, seq {seq}) that was never written"),
                            witness("phantom"),
                        ),
                        Some((k, _len, _ok)) => {
                            if *k != key {
                                rep.violation(
                                    format!("corrupt|{feat}"),
                                    format!("reader {ri}: sample (w{wi},#{seq}) presented with key {key}, written with {k}"),
                                    witness("corrupt_key"),
                                );
                            }
                        }
                    }
                    if !ok {
                        rep.violation(
                            format!("corrupt|{feat}"),
                            format!("reader {ri}: payload of (w{wi},#{seq}) differs from what was written"),
                            witness("corrupt"),
                        );
                    }
                    if !seen.insert(seq) {
                        rep.violation(
                            format!("dup|{feat}"),
                            format!("reader {ri} presented (w{wi},#{seq}) twice"),
                            witness("dup"),
                        );
                        // ordering is judged on first presentations only
                        continue;
                    }
                    if let Some(last) = per_inst_last.get(&key) {
                        if seq <= *last {
                            rep.violation(
                                format!("order|{feat}"),
                                format!("reader {ri}: within one take, instance {key} has #{seq} after #{last}"),
                                witness("order_within_take"),
                            );
                        }
                    }
                    per_inst_last.insert(key, seq);
                    take_min = take_min.min(seq);
                    take_max = take_max.max(seq);
                }
                if let Some(pm) = prev_take_max {
                    {
                        // a later take returned a sample published before one already presented
                        if take_min != u32::MAX && take_min < pm {
                            rep.violation(
                                format!("order|{feat}"),
                                format!(
                                    "reader {ri}: take #{ti} returned (w{wi},#{take_min}) after #{pm} had been presented"
                                ),
                                replay
                                    .clone()
                                    .set("violation", "order_across_takes")
                                    .set("reader", ri)
                                    .set("writer", wi)
                                    .set("seq", take_min)
                                    .set("after", pm),
                            );
                        }
                    }
                }
                if take_min != u32::MAX {
                    prev_take_max = Some(prev_take_max.map_or(take_max, |m| m.max(take_max)));
                }
            }
            if reliable_mode {
                let exp = expected_set(&o.writers[wi as usize], p.keep_last);
                let missing: Vec<u32> = exp.iter().filter(|s| !seen.contains(s)).cloned().collect();
                if !missing.is_empty() && !o.stuck {
                    // resource cap hit while samples were still being presented (retransmission
                    // storm): neither held nor refuted
                    rep.stat("cases_unfinished_storm(no verdict)", 1);
                } else if !missing.is_empty() && c.rx_overflow > 0 {
                    // The simulated receive queue overflowed (message storm): datagrams were lost
                    // after the healing point by the harness' own network model, so the premise
                    // "the network eventually delivers" does not hold for this run.
                    rep.stat("cases_incomplete_but_rx_queue_overflowed(no verdict)", 1);
                } else if !missing.is_empty() {
                    let first = missing[0];
                    let (_, len, _) = written[&first];
                    let first_frag = len + 20 > p.frag;
                    rep.violation(
                        format!("incomplete|{feat}|first_missing_fragmented={}", yn(first_frag)),
                        format!(
                            "reader {ri}: {} of {} samples writer {wi} still holds were not presented and no further sample arrived for 30 s (virtual) after the network healed; first missing #{first} (payload {len} B, fragment size {})",
                            missing.len(), exp.len(), p.frag
                        ),
                        replay
                            .clone()
                            .set("violation", "incomplete")
                            .set("reader", ri)
                            .set("writer", wi)
                            .set("missing", missing.iter().take(20).cloned().collect::<Vec<_>>())
                            .set("presented", seen.len())
                            .set("healed_at_ms", (o.healed_at - EPOCH_NS) / MS)
                            .set("end_at_ms", (o.end_at - EPOCH_NS) / MS),
                    );
                }
            }
        }
    }
    let faults_hit = c.user_dropped + c.user_dup + c.user_delayed > 0;
    if faults_hit && presented_total > 0 {
        let h = vcore::mix(vcore::mix(fate_hash, poll_hash), vcore::fnv_str(&p.to_json().to_string()));
        rep.nontrivial(h);
    }
    rep.set("fault_targets", target_name(p.target));
    rep.set("fragment_sizes", p.frag.to_string());
    rep.stat("samples_written", o.writers.iter().map(|w| w.writes.len()).sum::<usize>() as i128);
    rep.stat(
        "writes_rejected",
        o.writers.iter().map(|w| w.writes.iter().filter(|x| x.3.is_err()).count()).sum::<usize>() as i128,
    );
    rep.stat("samples_presented", presented_total as i128);
    rep.stat("rx_queue_overflow_drops", c.rx_overflow as i128);
    rep.maxstat("max_rx_queue", c.max_rxq as i128);
    if c.rx_overflow > 0 {
        rep.stat("cases_with_rx_queue_overflow", 1);
    }
    rep.stat("takes_with_data", o.readers.iter().map(|r| r.takes.len()).sum::<usize>() as i128);
    if case < 64 {
        rep.sample(
            Json::obj()
                .set("case", case)
                .set("params", p.to_json())
                .set("written", o.writers.iter().map(|w| w.writes.len()).sum::<usize>())
                .set("presented", presented_total)
                .set("user_datagrams_dropped", c.user_dropped)
                .set("user_datagrams_duplicated", c.user_dup)
                .set("user_datagrams_delayed", c.user_delayed),
        );
    }
}

fn yn(b: bool) -> &'static str {
    if b { "yes" } else { "no" }
}
