//! C03: wait_for_acknowledgments is sound (never precedes delivery) and completes in bounded time,
//! also after a matched reliable reader is deleted or its participant disappears.
use crate::common::*;
use dust_dds::dds_async::data_reader::DataReaderAsync;
use dust_dds::infrastructure::qos::{DataReaderQos, DataWriterQos};
use dust_dds::infrastructure::sample_info::{ANY_INSTANCE_STATE, ANY_SAMPLE_STATE, ANY_VIEW_STATE};
use simnet::*;
use std::cell::RefCell;
use std::collections::BTreeSet;
use std::rc::Rc;
use vcore::rtpswalk::Class;
use vcore::{Json, Report, Rng};

#[derive(Clone, Copy, Debug, PartialEq, Eq)]
enum Variant {
    Plain,
    ReaderDeleted,
    ParticipantLost,
}

#[derive(Clone, Debug)]
struct Params {
    variant: Variant,
    frag: usize,
    n_writes: u32,
    n_instances: u32,
    sizes: Vec<usize>,
    gap_ms: i64,
    plan: FaultPlan,
    fault_ms: i64,
    probe_every: u32,
    policy: Policy,
    jitter: i64,
    clock_tick: i64,
    best_effort_extra: bool,
}

impl Params {
    fn to_json(&self) -> Json {
        Json::obj()
            .set("variant", format!("{:?}", self.variant))
            .set("fragment_size", self.frag)
            .set("writes", self.n_writes)
            .set("instances", self.n_instances)
            .set("payload_lens", self.sizes.clone())
            .set("write_gap_ms", self.gap_ms)
            .set("faults", self.plan.describe())
            .set("fault_window_ms", self.fault_ms)
            .set("wfa_probe_every", self.probe_every)
            .set("policy", format!("{:?}", self.policy))
            .set("extra_best_effort_reader", self.best_effort_extra)
    }
}

fn gen_params(rng: &mut Rng) -> Params {
    let frag = *rng.pick(&[256usize, 1344]);
    let mut plan = FaultPlan::default();
    match rng.below(5) {
        0 => plan.loss = rng.f64() * 0.5,
        1 => {
            plan.loss = rng.f64() * 0.3;
            plan.delay = rng.f64() * 0.4;
            plan.delay_max_ns = (1 + rng.below(800)) as i64 * MS;
        }
        2 => plan.dup = rng.f64() * 0.4,
        3 => {
            plan.burst = 0.05;
            plan.burst_len = 3 + rng.below(10) as u32;
        }
        _ => {}
    }
    let mut sizes = vec![8usize, 40];
    if rng.chance(0.3) {
        sizes.push(frag + 10);
    }
    Params {
        variant: match rng.below(4) {
            0 => Variant::ReaderDeleted,
            1 => Variant::ParticipantLost,
            _ => Variant::Plain,
        },
        frag,
        n_writes: 3 + rng.below(28) as u32,
        n_instances: 1 + rng.below(3) as u32,
        sizes,
        gap_ms: *rng.pick(&[0i64, 2, 10, 30]),
        plan,
        fault_ms: 200 + rng.below(2500) as i64,
        probe_every: 1 + rng.below(8) as u32,
        policy: pick_policy(rng),
        jitter: *rng.pick(&[0i64, 1000, 1_000_000]),
        clock_tick: *rng.pick(&[0i64, 0, 1]),
        best_effort_extra: rng.chance(0.25),
    }
}

#[derive(Default, Debug)]
struct Probe {
    call_ms: i64,
    ret_ms: i64,
    ok: bool,
    timed_out: bool,
    /// samples written successfully before the call
    written_before: Vec<u32>,
    /// per currently matched reliable reader: ids it had received when wfa returned
    missing: Vec<(usize, Vec<u32>)>,
}

struct Outcome {
    params: Params,
    matched: bool,
    probes: Vec<Probe>,
    writes_ok: Vec<u32>,
    /// final wfa: (call, return or -1, result string)
    final_call_ms: i64,
    final_ret_ms: i64,
    final_result: String,
    /// all remaining matched reliable readers had everything at this time (or -1)
    readers_complete_ms: i64,
    event_ms: i64,
    storm: bool,
    diag: String,
}

async fn received_ids(dr: &DataReaderAsync<Msg>, seen: &Rc<RefCell<BTreeSet<u32>>>) {
    if let Ok(samples) = dr
        .take(i32::MAX, ANY_SAMPLE_STATE, ANY_VIEW_STATE, ANY_INSTANCE_STATE)
        .await
    {
        let mut s = seen.borrow_mut();
        for x in samples {
            if let Some(m) = x.data {
                s.insert(m.seq);
            }
        }
    }
}

async fn scenario(w: World, p: Params) -> Outcome {
    let sim = w.sim.clone();
    let ms = |sim: &Sim| sim.elapsed() / MS;
    let wq = DataWriterQos {
        reliability: reliable(1000),
        history: keep_all(),
        ..Default::default()
    };
    let rq = DataReaderQos {
        reliability: reliable(100),
        history: keep_all(),
        ..Default::default()
    };
    let dpw = new_participant(&w, 0).await;
    let tw = new_topic::<Msg>(&dpw, "Acks", "Msg").await;
    let pb = new_publisher(&dpw).await;
    let dw = new_writer::<Msg>(&pb, &tw, wq).await;
    let n_rel = if p.variant == Variant::Plain { 1 + (p.n_writes % 2) as usize } else { 2 };
    let mut readers = Vec::new();
    let mut keep = Vec::new();
    for _ in 0..n_rel {
        let dp = new_participant(&w, 0).await;
        let t = new_topic::<Msg>(&dp, "Acks", "Msg").await;
        let sb = new_subscriber(&dp).await;
        let dr = new_reader::<Msg>(&sb, &t, rq.clone()).await;
        readers.push(dr);
        keep.push((dp, t, sb));
    }
    let mut extra = None;
    if p.best_effort_extra {
        let dp = new_participant(&w, 0).await;
        let t = new_topic::<Msg>(&dp, "Acks", "Msg").await;
        let sb = new_subscriber(&dp).await;
        let q = DataReaderQos {
            reliability: best_effort(),
            history: keep_all(),
            ..Default::default()
        };
        let dr = new_reader::<Msg>(&sb, &t, q).await;
        extra = Some((dp, t, sb, dr));
    }
    let total_readers = n_rel as i32 + if p.best_effort_extra { 1 } else { 0 };
    let mut matched = wait_matched(&sim, &dw, total_readers, 20 * SEC).await;
    for dr in &readers {
        matched &= wait_reader_matched(&sim, dr, 1, 20 * SEC).await;
    }
    let mut out = Outcome {
        params: p.clone(),
        matched,
        probes: Vec::new(),
        writes_ok: Vec::new(),
        final_call_ms: -1,
        final_ret_ms: -1,
        final_result: String::new(),
        readers_complete_ms: -1,
        event_ms: -1,
        storm: false,
        diag: String::new(),
    };
    if !matched {
        return out;
    }
    // the victim reader (index 1) of the ReaderDeleted / ParticipantLost variants never acknowledges:
    // its user traffic is cut from the start (participant index = 1 + reader index)
    let victim_part = 2usize;
    let until = sim.now() + p.fault_ms * MS;
    {
        let mut base = {
            let mut plan = p.plan.clone();
            plan.until_ns = until;
            plan.into_fn()
        };
        let cut = p.variant != Variant::Plain;
        w.net.set_policy(Some(Box::new(move |pkt: &Pkt, rng: &mut Rng| {
            if cut && pkt.class == Class::User && (pkt.src == victim_part || pkt.dst == victim_part) {
                return vec![];
            }
            base(pkt, rng)
        })));
    }
    let seen: Vec<Rc<RefCell<BTreeSet<u32>>>> =
        (0..n_rel).map(|_| Rc::new(RefCell::new(BTreeSet::new()))).collect();
    let datagram_cap = w.net.counters().submitted + 400_000;
    let mut rng = Rng::new(p.n_writes as u64 * 31 + p.fault_ms as u64);
    // readers that count for the soundness clause: all reliable ones that are matched and can talk
    let judged: Vec<usize> = if p.variant == Variant::Plain { (0..n_rel).collect() } else { vec![0] };
    for seq in 0..p.n_writes {
        let key = rng.below(p.n_instances as u64) as u32;
        let len = *rng.pick(&p.sizes);
        if dw.write(msg(key, 0, seq, len), None).await.is_ok() {
            out.writes_ok.push(seq);
        }
        if p.gap_ms > 0 {
            sim.sleep(rng.below(p.gap_ms as u64 + 1) as i64 * MS + 1).await;
        }
        if seq % p.probe_every == p.probe_every - 1 && p.variant == Variant::Plain {
            let mut pr = Probe {
                call_ms: ms(&sim),
                written_before: out.writes_ok.clone(),
                ..Default::default()
            };
            let r = sim.timeout(3 * SEC, dw.wait_for_acknowledgments()).await;
            match r {
                Ok(Ok(())) => {
                    // Soundness probe: stop the network at once and ask every judged reader what
                    // it has received so far.
                    w.net.set_frozen(true);
                    pr.ok = true;
                    pr.ret_ms = ms(&sim);
                    for &ri in &judged {
                        received_ids(&readers[ri], &seen[ri]).await;
                        let s = seen[ri].borrow();
                        let miss: Vec<u32> =
                            pr.written_before.iter().filter(|x| !s.contains(x)).cloned().collect();
                        if !miss.is_empty() {
                            pr.missing.push((ri, miss));
                        }
                    }
                    w.net.set_frozen(false);
                }
                Ok(Err(_)) => {
                    pr.ret_ms = ms(&sim);
                }
                Err(_) => {
                    pr.timed_out = true;
                    pr.ret_ms = ms(&sim);
                }
            }
            out.probes.push(pr);
        }
    }
    // end of fault window
    if sim.now() < until {
        sim.sleep(until - sim.now()).await;
    }
    // the event of the variant
    match p.variant {
        Variant::Plain => {}
        Variant::ReaderDeleted => {
            out.event_ms = ms(&sim);
            let _ = keep[1].2.delete_datareader(&readers[1]).await;
        }
        Variant::ParticipantLost => {
            out.event_ms = ms(&sim);
            w.net.set_partitioned(victim_part, true);
        }
    }
    // final wait_for_acknowledgments, raced against the bound
    let bound = match p.variant {
        Variant::ParticipantLost => 100 * SEC + 10 * SEC + 30 * SEC,
        _ => 30 * SEC,
    };
    out.final_call_ms = ms(&sim);
    let written = out.writes_ok.clone();
    let wfa = sim.spawn_local({
        let dw = dw.clone();
        async move { dw.wait_for_acknowledgments().await }
    });
    // monitor readers until they are complete, then keep waiting for the wfa up to the bound
    let mut complete_at: Option<i64> = None;
    loop {
        if wfa.is_done() {
            break;
        }
        if complete_at.is_none() {
            let mut all = true;
            for &ri in &judged {
                received_ids(&readers[ri], &seen[ri]).await;
                let s = seen[ri].borrow();
                if written.iter().any(|x| !s.contains(x)) {
                    all = false;
                }
            }
            if all {
                complete_at = Some(sim.now());
                out.readers_complete_ms = ms(&sim);
            }
        }
        let event_ns = if out.event_ms >= 0 { EPOCH_NS + out.event_ms * MS } else { 0 };
        if let Some(c) = complete_at {
            if sim.now() > c.max(event_ns) + bound {
                break;
            }
        } else if sim.now() > until + 120 * SEC || w.net.counters().submitted > datagram_cap {
            out.storm = true;
            break;
        }
        if std::env::var("ACKS_DEBUG").is_ok() && (sim.elapsed() / MS) % 5000 < 50 {
            eprintln!(
                "  t={}ms matched={:?} disc={:?} complete_at={:?}",
                sim.elapsed() / MS,
                dw.get_matched_subscriptions().await.map(|v| v.len()),
                dpw.get_discovered_participants().await.map(|v| v.len()),
                complete_at.map(|c| (c - EPOCH_NS) / MS)
            );
        }
        sim.sleep(50 * MS).await;
    }
    match wfa.try_take() {
        Some(Ok(())) => {
            out.final_ret_ms = ms(&sim);
            out.final_result = "Ok".into();
            // soundness of the final call
            if p.variant == Variant::Plain {
                w.net.set_frozen(true);
                let mut pr = Probe {
                    call_ms: out.final_call_ms,
                    ret_ms: out.final_ret_ms,
                    ok: true,
                    written_before: written.clone(),
                    ..Default::default()
                };
                for &ri in &judged {
                    received_ids(&readers[ri], &seen[ri]).await;
                    let s = seen[ri].borrow();
                    let miss: Vec<u32> = written.iter().filter(|x| !s.contains(x)).cloned().collect();
                    if !miss.is_empty() {
                        pr.missing.push((ri, miss));
                    }
                }
                w.net.set_frozen(false);
                out.probes.push(pr);
            }
        }
        Some(Err(e)) => {
            out.final_ret_ms = ms(&sim);
            out.final_result = err_name(&e);
        }
        None => {
            out.final_result = "pending".into();
            out.diag = format!(
                "fresh_wfa={:?} matched_subscriptions={:?} discovered_participants={:?}",
                sim.timeout(5 * SEC, dw.wait_for_acknowledgments()).await.map(|r| r.is_ok()),
                sim.timeout(SEC, dw.get_matched_subscriptions()).await.map(|r| r.map(|v| v.len())),
                sim.timeout(SEC, dpw.get_discovered_participants()).await.map(|r| r.map(|v| v.len()))
            );
        }
    }
    drop(extra);
    out
}

pub fn run(shard: &Shard) -> Report {
    let mut rep = Report::new("C03");
    for case in shard.my_cases() {
        let cs = shard.case_seed(case);
        let mut rng = Rng::new(cs);
        let p = gen_params(&mut rng);
        let mut cfg = WorldConfig::default();
        cfg.sim.seed = cs;
        cfg.sim.policy = p.policy;
        cfg.sim.jitter_max = p.jitter;
        cfg.sim.clock_tick = p.clock_tick;
        cfg.sim.max_polls = 6_000_000;
        cfg.fragment_size = p.frag;
        let p2 = p.clone();
        let (res, stats, net) = run_world(&cfg, move |w| scenario(w, p2));
        rep.eval();
        let replay = shard.base_replay("acks", case).set("params", p.to_json());
        let panicked = report_panics(&mut rep, &stats, &replay);
        rep.maxstat("max_worker_sleep_request_ms", (stats.max_worker_delay / MS) as i128);
        rep.maxstat("max_worker_gap_ms", (stats.max_worker_gap / MS) as i128);
        let Some(o) = res else {
            if !panicked {
                rep.inconclusive(format!("case {case}: scenario did not finish ({:?})", stats.stop));
            }
            continue;
        };
        if !o.matched {
            if !panicked {
                rep.inconclusive(format!("case {case}: endpoints did not match within 20 s"));
            }
            continue;
        }
        let after = match p.variant {
            Variant::Plain => "none",
            Variant::ReaderDeleted => "reader_deleted",
            Variant::ParticipantLost => "participant_lost",
        };
        let c = net.counters();
        let lossy = c.user_dropped + c.user_delayed + c.user_dup > 0;
        for pr in &o.probes {
            rep.stat("wfa_calls", 1);
            if pr.ok {
                rep.stat("wfa_ok", 1);
            }
            if pr.timed_out {
                rep.stat("wfa_probe_timeouts(3s, not judged)", 1);
            }
            for (ri, miss) in &pr.missing {
                rep.violation(
                    format!("premature|after={after}|faults={}", if lossy { "yes" } else { "no" }),
                    format!(
                        "wait_for_acknowledgments returned Ok at +{} ms (called +{} ms) but matched reliable reader {ri} had not received {} of the {} samples written before the call (e.g. #{})",
                        pr.ret_ms, pr.call_ms, miss.len(), pr.written_before.len(), miss[0]
                    ),
                    replay
                        .clone()
                        .set("violation", "premature")
                        .set("reader", *ri)
                        .set("missing", miss.iter().take(10).cloned().collect::<Vec<_>>())
                        .set("call_ms", pr.call_ms)
                        .set("ret_ms", pr.ret_ms),
                );
            }
        }
        rep.stat("final_wfa_calls", 1);
        if o.storm {
            rep.stat("cases_readers_never_complete_or_storm(no verdict)", 1);
        } else if o.final_result == "pending" {
            rep.violation(
                format!("hang|after={after}"),
                format!(
                    "wait_for_acknowledgments still pending {} s (virtual) after every remaining matched reliable reader had received all {} samples{}",
                    if p.variant == Variant::ParticipantLost { 140 } else { 30 },
                    o.writes_ok.len(),
                    match p.variant {
                        Variant::Plain => String::new(),
                        Variant::ReaderDeleted => format!(" and the unresponsive reader had been deleted at +{} ms", o.event_ms),
                        Variant::ParticipantLost => format!(" and the unresponsive reader's participant had been cut off at +{} ms (lease 100 s)", o.event_ms),
                    }
                ),
                replay
                    .clone()
                    .set("violation", "hang")
                    .set("diag", o.diag.clone())
                    .set("final_call_ms", o.final_call_ms)
                    .set("readers_complete_ms", o.readers_complete_ms)
                    .set("event_ms", o.event_ms),
            );
        } else if o.final_result == "Ok" {
            rep.stat("final_wfa_ok", 1);
            rep.maxstat("max_final_wfa_latency_ms", (o.final_ret_ms - o.final_call_ms.max(o.event_ms)) as i128);
        } else {
            rep.set("final_wfa_errors", o.final_result.clone());
        }
        if o.final_result != "" && !o.storm {
            rep.nontrivial(vcore::mix(
                vcore::mix(net.fate_hash(), stats.poll_hash),
                vcore::fnv_str(&p.to_json().to_string()),
            ));
        }
        rep.set("variants", after);
        if case < 48 {
            rep.sample(
                Json::obj()
                    .set("case", case)
                    .set("params", p.to_json())
                    .set("writes_ok", o.writes_ok.len())
                    .set("probes", o.probes.len())
                    .set("final", o.final_result.clone())
                    .set("final_latency_ms", o.final_ret_ms - o.final_call_ms),
            );
        }
    }
    rep
}
