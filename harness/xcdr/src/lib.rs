//! xcdr engine library: type/value model + generator, dust-dds glue, counting allocator and the C07
//! decoder-totality engine. The `xcdr` binary (main.rs) adds the reference encoder and the
//! C09/C10/C11/C12/C39 checks.
pub mod alloc_track;
pub mod c07;
pub mod dustglue;
pub mod model;
