//! Independent reference XCDR1 / XCDR2 encoder, decoder and key-hash computer.
//!
//! Written from the DDS-XTypes 1.3 serialization rules (7.4.3.5.3, rules (1)-(30) as quoted in the doc
//! comments of /repo/dds/src/xtypes/serializer.rs - the comments, not the code) plus the EMHEADER /
//! DHEADER / parameter-list definitions of 7.4.3.4 and the key rules of 7.6.8. It shares no code with
//! dust-dds and works on the model of model.rs only.
//!
//! Points where the normative text is not available offline or is ambiguous are NOT decided here in
//! a way that could blame dust-dds: the encoder can be driven to either reading (`Opts`) and the
//! checks accept both:
//!   * XCDR1 ORIGIN after a parameter-list member (`origin_restore`),
//!   * the EMHEADER length code: every choice that is numerically consistent with table 7.4.3.4.5
//!     is accepted (`hint`), LC 5/6/7 only when the member value starts with a UInt32
//!     (DHEADER / length) and 4 + k*NEXTINT equals the member size,
//!   * PID of the XCDR1 list terminator (rule (23) says PID_SENTINEL; value 1 as in RTPS).
//! Wide strings (rule (4)) are not implemented (the one exception, `decode_body_as_reader`, walks over
//! dust-dds' own layout only to locate the objects of a stream): no offline normative text; they are outside the C10
//! common subset.
use std::collections::BTreeSet;
use xcdrlib::dustglue::select_case;
use xcdrlib::model::*;

#[derive(Clone, Copy, Debug, PartialEq, Eq, Hash, PartialOrd, Ord)]
pub enum Ver {
    X1,
    X2,
}

#[derive(Clone, Copy, Debug, PartialEq, Eq, Hash, PartialOrd, Ord)]
pub enum Rep {
    X1LE,
    X1BE,
    X2LE,
    X2BE,
}

pub const ALL_REPS: [Rep; 4] = [Rep::X1LE, Rep::X1BE, Rep::X2LE, Rep::X2BE];

impl Rep {
    pub fn ver(self) -> Ver {
        match self {
            Rep::X1LE | Rep::X1BE => Ver::X1,
            _ => Ver::X2,
        }
    }
    pub fn le(self) -> bool {
        matches!(self, Rep::X1LE | Rep::X2LE)
    }
    pub fn name(self) -> &'static str {
        match self {
            Rep::X1LE => "XCDR1_LE",
            Rep::X1BE => "XCDR1_BE",
            Rep::X2LE => "XCDR2_LE",
            Rep::X2BE => "XCDR2_BE",
        }
    }
    pub fn from_name(s: &str) -> Option<Rep> {
        ALL_REPS.iter().copied().find(|r| r.name() == s)
    }
}

#[derive(Clone, Copy, Debug, PartialEq, Eq)]
pub enum LcPolicy {
    /// LC 0..3 for member sizes 1/2/4/8, LC 4 (NEXTINT) otherwise
    Plain,
    /// additionally LC 5/6/7 whenever the member starts with a UInt32 that can double as NEXTINT
    Optimized,
    /// like `Optimized` but LC 4 wherever `Optimized` would pick LC 6 or LC 7 (used to isolate the
    /// reader's handling of LC 6/7 from everything else)
    OptimizedLc5Only,
    /// The length codes dust-dds' serializer picks (EMheader1::write_header): LC 5 for appendable /
    /// mutable struct and union members and for every SEQUENCE member, LC 0-3 by size, LC 4 otherwise.
    /// For a non-empty sequence of a 2/4/8/16-byte primitive that LC 5 is NOT a legitimate encoding
    /// (NEXTINT = element count); the policy exists only to verify that dust-dds' bytes differ from a
    /// correct encoding in exactly this and nothing else. The hint is ignored.
    DustLike,
    /// `DustLike` with LC 4 where `DustLike` is not legitimate: a correct encoding that differs from
    /// dust-dds' bytes only by that repair
    DustLikeRepaired,
}

#[derive(Clone, Copy, Debug, PartialEq, Eq)]
pub enum MemberOrder {
    Declaration,
    ById,
}

#[derive(Clone, Copy, Debug)]
pub struct Opts<'h> {
    pub origin_restore: bool,
    pub lc_policy: LcPolicy,
    pub order: MemberOrder,
    /// bytes of another encoder's output for the same value: at every EMHEADER the length code found
    /// there is adopted when it is a legitimate choice for that member
    pub hint: Option<&'h [u8]>,
}

impl Default for Opts<'_> {
    fn default() -> Self {
        Opts {
            origin_restore: true,
            lc_policy: LcPolicy::Plain,
            order: MemberOrder::Declaration,
            hint: None,
        }
    }
}

pub const PID_EXTENDED: u16 = 0x3F01;
pub const PID_SENTINEL: u16 = 0x0001;

pub struct Enc<'h> {
    pub buf: Vec<u8>,
    origin: usize,
    ver: Ver,
    le: bool,
    opts: Opts<'h>,
    /// (start offset, construct tag) of everything emitted, in emission order
    pub regions: Vec<(usize, &'static str)>,
    pub used: BTreeSet<&'static str>,
}

fn is_prim(t: &Ty) -> bool {
    matches!(t, Ty::Prim(_))
}

impl<'h> Enc<'h> {
    pub fn new(ver: Ver, le: bool, opts: Opts<'h>) -> Self {
        Enc {
            buf: Vec::new(),
            origin: 0,
            ver,
            le,
            opts,
            regions: Vec::new(),
            used: BTreeSet::new(),
        }
    }
    fn mark(&mut self, tag: &'static str) {
        self.regions.push((self.buf.len(), tag));
        self.used.insert(tag);
    }
    fn maxalign(&self) -> usize {
        match self.ver {
            Ver::X1 => 8,
            Ver::X2 => 4,
        }
    }
    fn align(&mut self, n: usize) {
        let a = n.min(self.maxalign());
        let rel = self.buf.len() - self.origin;
        let pad = (a - rel % a) % a;
        if pad > 0 && n > 4 && self.ver == Ver::X1 {
            self.used.insert("align8");
        }
        for _ in 0..pad {
            self.buf.push(0);
        }
    }
    fn u16(&mut self, x: u16) {
        self.align(2);
        if self.le {
            self.buf.extend_from_slice(&x.to_le_bytes())
        } else {
            self.buf.extend_from_slice(&x.to_be_bytes())
        }
    }
    fn u32(&mut self, x: u32) {
        self.align(4);
        if self.le {
            self.buf.extend_from_slice(&x.to_le_bytes())
        } else {
            self.buf.extend_from_slice(&x.to_be_bytes())
        }
    }
    fn patch_u32(&mut self, at: usize, x: u32) {
        let b = if self.le { x.to_le_bytes() } else { x.to_be_bytes() };
        self.buf[at..at + 4].copy_from_slice(&b);
    }
    fn patch_u16(&mut self, at: usize, x: u16) {
        let b = if self.le { x.to_le_bytes() } else { x.to_be_bytes() };
        self.buf[at..at + 2].copy_from_slice(&b);
    }
    fn raw(&mut self, size: usize, le_bytes: &[u8]) {
        // rule (2): ALIGN(ssize) then the bytes in stream endianness
        self.align(size);
        if self.le {
            self.buf.extend_from_slice(le_bytes);
        } else {
            self.buf.extend(le_bytes.iter().rev());
        }
    }

    fn prim(&mut self, p: Prim, v: &Val) -> Result<(), String> {
        match (p, v) {
            (Prim::Bool, Val::Bool(x)) => self.raw(1, &[*x as u8]),
            (Prim::Byte | Prim::U8, Val::U8(x)) => self.raw(1, &[*x]),
            (Prim::I8, Val::I8(x)) => self.raw(1, &[*x as u8]),
            (Prim::Char8, Val::Char(x)) => self.raw(1, &[*x]),
            (Prim::I16, Val::I16(x)) => self.raw(2, &x.to_le_bytes()),
            (Prim::U16, Val::U16(x)) => self.raw(2, &x.to_le_bytes()),
            (Prim::I32, Val::I32(x)) => self.raw(4, &x.to_le_bytes()),
            (Prim::U32, Val::U32(x)) => self.raw(4, &x.to_le_bytes()),
            (Prim::F32, Val::F32(x)) => self.raw(4, &x.to_le_bytes()),
            (Prim::I64, Val::I64(x)) => self.raw(8, &x.to_le_bytes()),
            (Prim::U64, Val::U64(x)) => self.raw(8, &x.to_le_bytes()),
            (Prim::F64, Val::F64(x)) => self.raw(8, &x.to_le_bytes()),
            (Prim::F128, Val::F128(x)) => self.raw(16, &x.to_le_bytes()),
            _ => return Err(format!("ill-typed primitive {:?} for {}", v, p.name())),
        }
        Ok(())
    }

    fn enum_holder(&mut self, e: &EnumTy, x: i32) {
        match e.bits {
            8 => self.raw(1, &[(x as i8) as u8]),
            16 => self.raw(2, &(x as i16).to_le_bytes()),
            _ => self.raw(4, &x.to_le_bytes()),
        }
    }

    /// rule (3)
    fn string(&mut self, s: &str) {
        self.mark("string");
        self.u32(s.len() as u32 + 1);
        self.buf.extend_from_slice(s.as_bytes());
        self.buf.push(0);
    }

    fn dheader_open(&mut self, tag: &'static str) -> usize {
        self.mark(tag);
        self.u32(0);
        self.buf.len()
    }
    fn dheader_close(&mut self, start: usize) {
        let size = (self.buf.len() - start) as u32;
        self.patch_u32(start - 4, size);
    }

    /// { M.value : M.value.type } and { O[i] : O.element_type }
    pub fn value(&mut self, t: &Ty, v: &Val) -> Result<(), String> {
        match (t, v) {
            (Ty::Prim(p), _) => self.prim(*p, v),
            (Ty::Str { .. }, Val::Str(s)) => {
                self.string(s);
                Ok(())
            }
            (Ty::WStr { .. }, _) => Err("refenc: wide strings not supported".into()),
            (Ty::Enum(e), Val::Enum(x)) => {
                self.enum_holder(e, *x);
                Ok(())
            }
            (Ty::Struct(_), _) | (Ty::Union(_), _) => self.nested(t, v),
            (Ty::Seq { elem, .. }, _) => {
                if is_prim(elem) {
                    // rule (11)
                    self.mark("pseq");
                    self.u32(list_len(v)? as u32);
                    self.elements(elem, v)
                } else if self.ver == Ver::X1 {
                    // rule (13)
                    self.mark("seq_v1");
                    self.u32(list_len(v)? as u32);
                    self.elements(elem, v)
                } else {
                    // rule (12)
                    let st = self.dheader_open("seq_dheader");
                    self.u32(list_len(v)? as u32);
                    self.elements(elem, v)?;
                    self.dheader_close(st);
                    Ok(())
                }
            }
            (Ty::Arr { elem, len }, _) => {
                if list_len(v)? != *len as usize {
                    return Err("array value length differs from the type".into());
                }
                if is_prim(elem) {
                    // rule (8)
                    self.mark("parray");
                    self.elements(elem, v)
                } else if self.ver == Ver::X1 {
                    // rule (10)
                    self.mark("array_v1");
                    self.elements(elem, v)
                } else {
                    // rule (9)
                    let st = self.dheader_open("array_dheader");
                    self.elements(elem, v)?;
                    self.dheader_close(st);
                    Ok(())
                }
            }
            _ => Err(format!("ill-typed value {:?} for {}", v, ty_tag(t))),
        }
    }

    fn elements(&mut self, elem: &Ty, v: &Val) -> Result<(), String> {
        match v {
            Val::Bytes(b) => {
                self.buf.extend_from_slice(b);
                Ok(())
            }
            Val::List(xs) => {
                for x in xs {
                    self.value(elem, x)?;
                }
                Ok(())
            }
            _ => Err("collection value expected".into()),
        }
    }

    /// { O : AsNested(O.type) }
    pub fn nested(&mut self, t: &Ty, v: &Val) -> Result<(), String> {
        match (t, v) {
            (Ty::Struct(s), Val::Struct(ms)) => match (s.ext, self.ver) {
                (Ext::Final, _) | (Ext::Appendable, Ver::X1) => self.fstruct(s, ms),
                (Ext::Appendable, Ver::X2) => {
                    // rule (30)
                    let st = self.dheader_open("appendable_dheader");
                    self.fstruct(s, ms)?;
                    self.dheader_close(st);
                    Ok(())
                }
                (Ext::Mutable, Ver::X1) => {
                    // rule (23)
                    self.mark("mstruct_v1");
                    for i in self.order(s) {
                        if let Some(mv) = &ms[i] {
                            let m = &s.members[i];
                            self.pl_member(m.id, m.must_understand, &m.ty, Some(mv))?;
                        }
                    }
                    self.sentinel();
                    Ok(())
                }
                (Ext::Mutable, Ver::X2) => {
                    // rule (21)
                    let st = self.dheader_open("mutable_dheader");
                    for i in self.order(s) {
                        if let Some(mv) = &ms[i] {
                            let m = &s.members[i];
                            self.em_member(m.id, m.must_understand, &m.ty, mv)?;
                        }
                    }
                    self.dheader_close(st);
                    Ok(())
                }
            },
            (Ty::Union(u), Val::Union { disc, sel, val }) => {
                let member: Option<(&Case, &Ty, &Val)> = match (sel, val) {
                    (Some(i), Some(x)) => match &u.cases[*i].ty {
                        Some(ct) => Some((&u.cases[*i], ct, x)),
                        None => None,
                    },
                    _ => None,
                };
                match (u.ext, self.ver) {
                    (Ext::Final, _) | (Ext::Appendable, Ver::X1) => self.funion(u, disc, member),
                    (Ext::Appendable, Ver::X2) => {
                        let st = self.dheader_open("appendable_dheader");
                        self.funion(u, disc, member)?;
                        self.dheader_close(st);
                        Ok(())
                    }
                    (Ext::Mutable, Ver::X1) => {
                        // rule (28)
                        self.mark("munion_v1");
                        self.pl_member(0, true, &u.disc, Some(disc))?;
                        if let Some((c, ct, x)) = member {
                            self.pl_member(c.id, false, ct, Some(x))?;
                        }
                        self.sentinel();
                        Ok(())
                    }
                    (Ext::Mutable, Ver::X2) => {
                        // rule (27)
                        let st = self.dheader_open("mutable_dheader");
                        self.em_member(0, true, &u.disc, disc)?;
                        if let Some((c, ct, x)) = member {
                            self.em_member(c.id, false, ct, x)?;
                        }
                        self.dheader_close(st);
                        Ok(())
                    }
                }
            }
            (Ty::Enum(e), Val::Enum(x)) => {
                self.enum_holder(e, *x);
                Ok(())
            }
            _ => Err(format!("ill-typed aggregated value for {}", ty_tag(t))),
        }
    }

    fn order(&self, s: &StructTy) -> Vec<usize> {
        let mut idx: Vec<usize> = (0..s.members.len()).collect();
        if self.opts.order == MemberOrder::ById {
            idx.sort_by_key(|i| s.members[*i].id);
        }
        idx
    }

    /// rule (26)
    fn funion(&mut self, u: &UnionTy, disc: &Val, member: Option<(&Case, &Ty, &Val)>) -> Result<(), String> {
        self.mark("union_disc");
        self.value(&u.disc, disc)?;
        if let Some((_, ct, x)) = member {
            self.mark("union_member");
            self.value(ct, x)?;
        }
        Ok(())
    }

    /// rule (17) with (18), (19), (20)
    fn fstruct(&mut self, s: &StructTy, ms: &[Option<Val>]) -> Result<(), String> {
        if ms.len() != s.members.len() {
            return Err("member count".into());
        }
        for (m, mv) in s.members.iter().zip(ms.iter()) {
            if m.optional {
                match self.ver {
                    Ver::X1 => {
                        self.mark("opt_v1");
                        self.pl_member(m.id, m.must_understand, &m.ty, mv.as_ref())?;
                    }
                    Ver::X2 => {
                        self.mark("opt_v2");
                        self.raw(1, &[mv.is_some() as u8]);
                        if let Some(x) = mv {
                            self.value(&m.ty, x)?;
                        }
                    }
                }
            } else {
                match mv {
                    Some(x) => self.value(&m.ty, x)?,
                    None => return Err(format!("non-optional member {} without value", m.name)),
                }
            }
        }
        Ok(())
    }

    /// rules (24) / (25): XCDR1 parameter-list member. `v == None` encodes an absent optional
    /// (header with length 0).
    fn pl_member(&mut self, id: u32, mu: bool, t: &Ty, v: Option<&Val>) -> Result<(), String> {
        self.align(4);
        self.mark("pl_member");
        let hdr = self.buf.len();
        self.u16(0);
        self.u16(0);
        let saved_origin = self.origin;
        self.origin = self.buf.len(); // PUSH( ORIGIN = 0 )
        let start = self.buf.len();
        if let Some(x) = v {
            self.value(t, x)?;
        }
        let size = self.buf.len() - start;
        let flag = if mu { 0x4000u16 } else { 0 };
        if id < 0x3F00 && size <= 0xFFFF {
            self.patch_u16(hdr, id as u16 | flag);
            self.patch_u16(hdr + 2, size as u16);
        } else {
            // rule (25): PID_EXTENDED, slength = 8, then id and size as UInt32
            self.used.insert("pl_extended");
            self.buf.splice(hdr + 4..hdr + 4, [0u8; 8]);
            self.patch_u16(hdr, PID_EXTENDED | flag);
            self.patch_u16(hdr + 2, 8);
            self.patch_u32(hdr + 4, id);
            self.patch_u32(hdr + 8, size as u32);
            for r in self.regions.iter_mut() {
                if r.0 > hdr {
                    r.0 += 8;
                }
            }
            self.origin += 8;
        }
        if self.opts.origin_restore {
            self.origin = saved_origin;
        }
        Ok(())
    }

    fn sentinel(&mut self) {
        self.align(4);
        self.mark("sentinel");
        self.u16(PID_SENTINEL);
        self.u16(0);
    }

    fn hint_lc(&self, at: usize) -> Option<u8> {
        let h = self.opts.hint?;
        if at + 4 > h.len() {
            return None;
        }
        let b = [h[at], h[at + 1], h[at + 2], h[at + 3]];
        let w = if self.le { u32::from_le_bytes(b) } else { u32::from_be_bytes(b) };
        Some(((w >> 28) & 7) as u8)
    }

    fn read_u32_at(&self, at: usize) -> u32 {
        let b = [self.buf[at], self.buf[at + 1], self.buf[at + 2], self.buf[at + 3]];
        if self.le { u32::from_le_bytes(b) } else { u32::from_be_bytes(b) }
    }

    /// rule (22): XCDR2 member of a mutable type
    fn em_member(&mut self, id: u32, mu: bool, t: &Ty, v: &Val) -> Result<(), String> {
        self.align(4);
        self.mark("emheader");
        let hdr = self.buf.len();
        let hinted = self.hint_lc(hdr);
        self.u32(0);
        let with_nextint = hinted == Some(4);
        if with_nextint {
            self.u32(0);
        }
        let start = self.buf.len();
        self.value(t, v)?;
        let size = self.buf.len() - start;
        let lead = starts_with_u32(t, self.ver) && size >= 4;
        let n = if lead { self.read_u32_at(start) as u64 } else { 0 };
        let legit = |lc: u8| -> bool {
            match lc {
                0 => size == 1,
                1 => size == 2,
                2 => size == 4,
                3 => size == 8,
                4 => true,
                5 => lead && size as u64 == 4 + n,
                6 => lead && size as u64 == 4 + 4 * n,
                7 => lead && size as u64 == 4 + 8 * n,
                _ => false,
            }
        };
        let default_lc = || -> u8 {
            if self.opts.lc_policy == LcPolicy::Optimized {
                for lc in [5u8, 6, 7] {
                    if legit(lc) {
                        return lc;
                    }
                }
            }
            if self.opts.lc_policy == LcPolicy::OptimizedLc5Only && legit(5) {
                return 5;
            }
            match size {
                1 => 0,
                2 => 1,
                4 => 2,
                8 => 3,
                _ => 4,
            }
        };
        let dust_like = matches!(self.opts.lc_policy, LcPolicy::DustLike | LcPolicy::DustLikeRepaired);
        let dust_lc5 = match t {
            Ty::Struct(x) => x.ext != Ext::Final,
            Ty::Union(x) => x.ext != Ext::Final,
            Ty::Seq { .. } => true,
            _ => false,
        };
        let lc = match hinted {
            _ if dust_like && dust_lc5 && (legit(5) || self.opts.lc_policy == LcPolicy::DustLike) => 5,
            _ if dust_like => match size {
                _ if dust_lc5 => 4,
                1 => 0,
                2 => 1,
                4 => 2,
                8 => 3,
                _ => 4,
            },
            Some(h) if legit(h) => h,
            _ => default_lc(),
        };
        // reconcile the presence of NEXTINT with the final choice
        if lc == 4 && !with_nextint {
            self.buf.splice(hdr + 4..hdr + 4, [0u8; 4]);
            for r in self.regions.iter_mut() {
                if r.0 > hdr {
                    r.0 += 4;
                }
            }
        } else if lc != 4 && with_nextint {
            self.buf.drain(hdr + 4..hdr + 8);
            for r in self.regions.iter_mut() {
                if r.0 > hdr {
                    r.0 -= 4;
                }
            }
        }
        let em = ((mu as u32) << 31) | ((lc as u32) << 28) | (id & 0x0fff_ffff);
        self.patch_u32(hdr, em);
        if lc == 4 {
            self.patch_u32(hdr + 4, size as u32);
        }
        self.used.insert(match lc {
            0..=3 => "lc0-3",
            4 => "lc4",
            5 => "lc5",
            6 => "lc6",
            _ => "lc7",
        });
        Ok(())
    }
}

fn list_len(v: &Val) -> Result<usize, String> {
    match v {
        Val::List(xs) => Ok(xs.len()),
        Val::Bytes(b) => Ok(b.len()),
        _ => Err("collection value expected".into()),
    }
}

/// Does the serialized value of this type begin with a UInt32 that is a DHEADER or a length?
pub fn starts_with_u32(t: &Ty, ver: Ver) -> bool {
    match t {
        Ty::Str { .. } => true,
        Ty::Seq { .. } => true,
        Ty::Arr { elem, .. } => ver == Ver::X2 && !is_prim(elem),
        Ty::Struct(s) => ver == Ver::X2 && s.ext != Ext::Final,
        Ty::Union(u) => ver == Ver::X2 && u.ext != Ext::Final,
        _ => false,
    }
}

pub fn top_ext(t: &Ty) -> Ext {
    match t {
        Ty::Struct(s) => s.ext,
        Ty::Union(u) => u.ext,
        _ => Ext::Final,
    }
}

/// ENC_HEADER of rule (1): representation identifier for (endianness, version, extensibility).
pub fn rep_id(rep: Rep, ext: Ext) -> u8 {
    let be = match (rep.ver(), ext) {
        (Ver::X1, Ext::Final) | (Ver::X1, Ext::Appendable) => 0x00, // CDR
        (Ver::X1, Ext::Mutable) => 0x02,                            // PL_CDR
        (Ver::X2, Ext::Final) => 0x06,                              // CDR2
        (Ver::X2, Ext::Appendable) => 0x08,                         // D_CDR2
        (Ver::X2, Ext::Mutable) => 0x0a,                            // PL_CDR2
    };
    be + rep.le() as u8
}

pub struct Encoded {
    pub bytes: Vec<u8>,
    pub regions: Vec<(usize, &'static str)>,
    pub used: BTreeSet<&'static str>,
}

/// rule (1): top-level object with encapsulation header; total length padded to a multiple of 4 and
/// the number of padding bytes recorded in the low two bits of the options.
pub fn encode_top(t: &Ty, v: &Val, rep: Rep, opts: Opts) -> Result<Encoded, String> {
    let mut e = Enc::new(rep.ver(), rep.le(), opts);
    e.buf.extend_from_slice(&[0x00, rep_id(rep, top_ext(t)), 0x00, 0x00]);
    e.origin = 4;
    e.nested(t, v)?;
    let pad = (4 - e.buf.len() % 4) % 4;
    for _ in 0..pad {
        e.buf.push(0);
    }
    e.buf[3] = pad as u8;
    Ok(Encoded {
        bytes: e.buf,
        regions: e.regions,
        used: e.used,
    })
}

/// The construct being emitted at byte offset `at`.
pub fn construct_at(regions: &[(usize, &'static str)], at: usize) -> &'static str {
    if at < 4 {
        return "enc_header";
    }
    let mut best = "body";
    for (o, tag) in regions {
        if *o <= at {
            best = tag;
        } else {
            break;
        }
    }
    best
}

// ------------------------------------------------------------------------------------------------
// Decoder (strict)
// ------------------------------------------------------------------------------------------------

/// An XCDR2 mutable structure object found while decoding: where it lies in the stream and which
/// members of the (reader's) type it does not carry.
#[derive(Clone, Debug)]
pub struct MutObj {
    /// offset of the first EMHEADER (just after the DHEADER)
    pub start: usize,
    /// start + DHEADER
    pub end: usize,
    /// end of the innermost enclosing XCDR2 appendable object (else the end of the input)
    pub limit: usize,
    /// path of the object (member names, "[]" for a collection element, "case" for a union member)
    pub path: Vec<String>,
    /// (member id, member name) of the members of the type that are not in the object
    pub absent: Vec<(u32, String)>,
}

pub struct Dec<'a> {
    b: &'a [u8],
    pos: usize,
    origin: usize,
    ver: Ver,
    le: bool,
    origin_restore: bool,
    pub notes: BTreeSet<String>,
    /// every XCDR2 mutable structure object met, in stream order
    pub mut_objs: Vec<MutObj>,
    path: Vec<String>,
    limit: usize,
    /// decode with a type that may be an evolved version of the writer's: an XCDR2 appendable
    /// structure may carry trailing members the type does not have (skipped with the DHEADER)
    as_reader: bool,
}

impl<'a> Dec<'a> {
    fn maxalign(&self) -> usize {
        if self.ver == Ver::X1 { 8 } else { 4 }
    }
    fn align(&mut self, n: usize) -> Result<(), String> {
        let a = n.min(self.maxalign());
        let rel = self.pos - self.origin;
        let pad = (a - rel % a) % a;
        if self.pos + pad > self.b.len() {
            return Err("truncated (padding)".into());
        }
        self.pos += pad;
        Ok(())
    }
    fn take(&mut self, n: usize) -> Result<&'a [u8], String> {
        if self.pos + n > self.b.len() {
            return Err(format!("truncated: need {} bytes at {}", n, self.pos));
        }
        let s = &self.b[self.pos..self.pos + n];
        self.pos += n;
        Ok(s)
    }
    fn raw<const N: usize>(&mut self) -> Result<[u8; N], String> {
        self.align(N)?;
        let s = self.take(N)?;
        let mut a = [0u8; N];
        a.copy_from_slice(s);
        if !self.le {
            a.reverse();
        }
        Ok(a)
    }
    fn u16(&mut self) -> Result<u16, String> {
        Ok(u16::from_le_bytes(self.raw::<2>()?))
    }
    fn u32(&mut self) -> Result<u32, String> {
        Ok(u32::from_le_bytes(self.raw::<4>()?))
    }
    fn prim(&mut self, p: Prim) -> Result<Val, String> {
        Ok(match p {
            Prim::Bool => match self.raw::<1>()?[0] {
                0 => Val::Bool(false),
                1 => Val::Bool(true),
                x => return Err(format!("boolean byte {x}")),
            },
            Prim::Byte | Prim::U8 => Val::U8(self.raw::<1>()?[0]),
            Prim::I8 => Val::I8(self.raw::<1>()?[0] as i8),
            Prim::Char8 => Val::Char(self.raw::<1>()?[0]),
            Prim::I16 => Val::I16(i16::from_le_bytes(self.raw::<2>()?)),
            Prim::U16 => Val::U16(u16::from_le_bytes(self.raw::<2>()?)),
            Prim::I32 => Val::I32(i32::from_le_bytes(self.raw::<4>()?)),
            Prim::U32 => Val::U32(u32::from_le_bytes(self.raw::<4>()?)),
            Prim::F32 => Val::F32(u32::from_le_bytes(self.raw::<4>()?)),
            Prim::I64 => Val::I64(i64::from_le_bytes(self.raw::<8>()?)),
            Prim::U64 => Val::U64(u64::from_le_bytes(self.raw::<8>()?)),
            Prim::F64 => Val::F64(u64::from_le_bytes(self.raw::<8>()?)),
            Prim::F128 => Val::F128(i128::from_le_bytes(self.raw::<16>()?)),
        })
    }
    fn enum_holder(&mut self, e: &EnumTy) -> Result<Val, String> {
        Ok(Val::Enum(match e.bits {
            8 => self.raw::<1>()?[0] as i8 as i32,
            16 => i16::from_le_bytes(self.raw::<2>()?) as i32,
            _ => i32::from_le_bytes(self.raw::<4>()?),
        }))
    }

    fn value(&mut self, t: &Ty) -> Result<Val, String> {
        match t {
            Ty::Prim(p) => self.prim(*p),
            Ty::Str { .. } => {
                let n = self.u32()? as usize;
                if n == 0 {
                    return Err("string length 0 (must include the NUL)".into());
                }
                let s = self.take(n)?;
                if s[n - 1] != 0 {
                    return Err("string not NUL terminated".into());
                }
                String::from_utf8(s[..n - 1].to_vec())
                    .map(Val::Str)
                    .map_err(|_| "string not UTF-8".to_string())
            }
            Ty::WStr { .. } => {
                if !self.as_reader {
                    return Err("refenc: wide strings not supported".into());
                }
                // Not part of the trusted base (no normative text offline): the layout dust-dds itself
                // uses (UInt32 count of UTF-16 units including the terminating NUL unit), accepted only
                // when the stream is walked to LOCATE its objects (decode_body_as_reader), never as an oracle
                let n = self.u32()? as usize;
                if n == 0 {
                    return Ok(Val::Str(String::new()));
                }
                if n > self.b.len() {
                    return Err("wide string length exceeds the input".into());
                }
                let mut units = Vec::with_capacity(n);
                for _ in 0..n {
                    units.push(self.u16()?);
                }
                if units.pop() != Some(0) {
                    return Err("wide string not NUL terminated".into());
                }
                String::from_utf16(&units).map(Val::Str).map_err(|_| "wide string not UTF-16".to_string())
            }
            Ty::Enum(e) => self.enum_holder(e),
            Ty::Struct(_) | Ty::Union(_) => self.nested(t),
            Ty::Seq { elem, .. } => {
                if is_prim(elem) || self.ver == Ver::X1 {
                    let n = self.u32()? as usize;
                    self.elements(elem, n)
                } else {
                    let size = self.u32()? as usize;
                    let start = self.pos;
                    let n = self.u32()? as usize;
                    let v = self.elements(elem, n)?;
                    self.check_dheader(start, size, "sequence")?;
                    Ok(v)
                }
            }
            Ty::Arr { elem, len } => {
                if is_prim(elem) || self.ver == Ver::X1 {
                    self.elements(elem, *len as usize)
                } else {
                    let size = self.u32()? as usize;
                    let start = self.pos;
                    let v = self.elements(elem, *len as usize)?;
                    self.check_dheader(start, size, "array")?;
                    Ok(v)
                }
            }
        }
    }

    fn check_dheader(&mut self, start: usize, size: usize, what: &str) -> Result<(), String> {
        if self.pos - start != size {
            return Err(format!(
                "DHEADER of {} says {} bytes but the content takes {}",
                what,
                size,
                self.pos - start
            ));
        }
        Ok(())
    }

    fn elements(&mut self, elem: &Ty, n: usize) -> Result<Val, String> {
        if let Ty::Prim(p) = elem {
            if p.is_byte_like() {
                return Ok(Val::Bytes(self.take(n)?.to_vec()));
            }
        }
        if n > self.b.len() {
            return Err(format!("collection length {} exceeds the input", n));
        }
        let mut xs = Vec::with_capacity(n);
        self.path.push("[]".into());
        for _ in 0..n {
            xs.push(self.value(elem)?);
        }
        self.path.pop();
        Ok(Val::List(xs))
    }

    fn nested(&mut self, t: &Ty) -> Result<Val, String> {
        match t {
            Ty::Struct(s) => match (s.ext, self.ver) {
                (Ext::Final, _) | (Ext::Appendable, Ver::X1) => self.fstruct(s, usize::MAX),
                (Ext::Appendable, Ver::X2) => {
                    let size = self.u32()? as usize;
                    let start = self.pos;
                    if start + size > self.b.len() {
                        return Err("DHEADER exceeds the input".into());
                    }
                    let saved_limit = self.limit;
                    self.limit = start + size;
                    let v = self.fstruct(s, start + size);
                    self.limit = saved_limit;
                    let v = v?;
                    if self.as_reader && self.pos < start + size {
                        self.pos = start + size;
                    }
                    self.check_dheader(start, size, "appendable struct")?;
                    Ok(v)
                }
                (Ext::Mutable, Ver::X1) => {
                    let ids: Vec<(u32, &Ty, &str)> = s.members.iter().map(|m| (m.id, &m.ty, m.name.as_str())).collect();
                    let vals = self.pl_list(&ids)?;
                    Ok(Val::Struct(vals))
                }
                (Ext::Mutable, Ver::X2) => {
                    let ids: Vec<(u32, &Ty, &str)> = s.members.iter().map(|m| (m.id, &m.ty, m.name.as_str())).collect();
                    let slot = self.mut_objs.len();
                    self.mut_objs.push(MutObj {
                        start: 0,
                        end: 0,
                        limit: self.limit,
                        path: self.path.clone(),
                        absent: Vec::new(),
                    });
                    let (vals, start, end) = self.em_list(&ids)?;
                    let o = &mut self.mut_objs[slot];
                    o.start = start;
                    o.end = end;
                    o.absent = s
                        .members
                        .iter()
                        .zip(vals.iter())
                        .filter(|(_, v)| v.is_none())
                        .map(|(m, _)| (m.id, m.name.clone()))
                        .collect();
                    Ok(Val::Struct(vals))
                }
            },
            Ty::Union(u) => match (u.ext, self.ver) {
                (Ext::Final, _) | (Ext::Appendable, Ver::X1) => self.funion(u),
                (Ext::Appendable, Ver::X2) => {
                    let size = self.u32()? as usize;
                    let start = self.pos;
                    if start + size > self.b.len() {
                        return Err("DHEADER exceeds the input".into());
                    }
                    let saved_limit = self.limit;
                    self.limit = start + size;
                    let v = self.funion(u);
                    self.limit = saved_limit;
                    let v = v?;
                    self.check_dheader(start, size, "appendable union")?;
                    Ok(v)
                }
                (Ext::Mutable, _) => {
                    let mut ids: Vec<(u32, &Ty, &str)> = vec![(0, &u.disc, "disc")];
                    for c in &u.cases {
                        if let Some(ct) = &c.ty {
                            ids.push((c.id, ct, "case"));
                        }
                    }
                    let vals = if self.ver == Ver::X1 { self.pl_list(&ids)? } else { self.em_list(&ids)?.0 };
                    let disc = vals[0].clone().ok_or("mutable union without discriminator")?;
                    let sel = select_case(u, disc.as_i64().unwrap_or(i64::MIN));
                    let mut val = None;
                    let mut k = 1;
                    for (i, c) in u.cases.iter().enumerate() {
                        if c.ty.is_some() {
                            if let Some(x) = &vals[k] {
                                if Some(i) != sel {
                                    return Err("mutable union carries a member the discriminator does not select".into());
                                }
                                val = Some(Box::new(x.clone()));
                            }
                            k += 1;
                        }
                    }
                    Ok(Val::Union {
                        disc: Box::new(disc),
                        sel,
                        val,
                    })
                }
            },
            Ty::Enum(e) => self.enum_holder(e),
            _ => Err("nested on non-aggregated type".into()),
        }
    }

    fn funion(&mut self, u: &UnionTy) -> Result<Val, String> {
        let disc = self.value(&u.disc)?;
        let sel = select_case(u, disc.as_i64().unwrap_or(i64::MIN));
        let val = match sel {
            Some(i) => match &u.cases[i].ty {
                Some(ct) => {
                    self.path.push("case".into());
                    let x = self.value(ct);
                    self.path.pop();
                    Some(Box::new(x?))
                }
                None => None,
            },
            None => None,
        };
        Ok(Val::Union {
            disc: Box::new(disc),
            sel,
            val,
        })
    }

    fn fstruct(&mut self, s: &StructTy, end: usize) -> Result<Val, String> {
        let depth = self.path.len();
        let r = self.fstruct_inner(s, end);
        self.path.truncate(depth);
        r
    }

    fn fstruct_inner(&mut self, s: &StructTy, end: usize) -> Result<Val, String> {
        let mut ms = Vec::new();
        let depth = self.path.len();
        for m in &s.members {
            self.path.truncate(depth);
            self.path.push(m.name.clone());
            if end != usize::MAX && self.pos >= end {
                // appendable: trailing members not sent
                ms.push(None);
                continue;
            }
            if m.optional {
                match self.ver {
                    Ver::X1 => {
                        self.align(4)?;
                        let (id, _mu, size) = self.pl_header()?;
                        if id != m.id {
                            return Err(format!("optional member header carries id {} instead of {}", id, m.id));
                        }
                        if size == 0 {
                            // under the non-restoring reading the origin moves even for an absent member
                            if !self.origin_restore {
                                self.origin = self.pos;
                            }
                            ms.push(None);
                        } else {
                            let saved = self.origin;
                            self.origin = self.pos;
                            let start = self.pos;
                            let v = self.value(&m.ty)?;
                            if self.pos - start != size {
                                return Err("optional member length differs from its header".into());
                            }
                            if self.origin_restore {
                                self.origin = saved;
                            }
                            ms.push(Some(v));
                        }
                    }
                    Ver::X2 => match self.raw::<1>()?[0] {
                        0 => ms.push(None),
                        1 => ms.push(Some(self.value(&m.ty)?)),
                        x => return Err(format!("is_present byte {x}")),
                    },
                }
            } else {
                ms.push(Some(self.value(&m.ty)?));
            }
        }
        Ok(Val::Struct(ms))
    }

    /// returns (member id, must_understand, value size)
    fn pl_header(&mut self) -> Result<(u32, bool, usize), String> {
        let pid = self.u16()?;
        let len = self.u16()?;
        let mu = pid & 0x4000 != 0;
        let id = pid & 0x3FFF;
        if id == PID_EXTENDED {
            if len != 8 {
                return Err("PID_EXTENDED with slength != 8".into());
            }
            let eid = self.u32()?;
            let esize = self.u32()?;
            Ok((eid & 0x0fff_ffff, mu, esize as usize))
        } else {
            Ok((id as u32, mu, len as usize))
        }
    }

    fn pl_list(&mut self, ids: &[(u32, &Ty, &str)]) -> Result<Vec<Option<Val>>, String> {
        let mut out: Vec<Option<Val>> = vec![None; ids.len()];
        loop {
            self.align(4)?;
            let save = self.pos;
            let pid = self.u16()?;
            let len = self.u16()?;
            // member id 1 collides with PID_SENTINEL (1): the terminator is recognised by length 0
            if (pid & 0x3FFF == PID_SENTINEL && len == 0) || pid & 0x3FFF == 0x3F02 {
                break;
            }
            self.pos = save;
            let (id, mu, size) = self.pl_header()?;
            let saved = self.origin;
            self.origin = self.pos;
            let start = self.pos;
            match ids.iter().position(|x| x.0 == id) {
                Some(k) => {
                    if out[k].is_some() {
                        return Err(format!("member id {} appears twice", id));
                    }
                    self.path.push(ids[k].2.to_string());
                    let v = self.value(ids[k].1);
                    self.path.pop();
                    let v = v?;
                    if self.pos - start != size {
                        return Err(format!(
                            "member {} takes {} bytes but its header says {}",
                            id,
                            self.pos - start,
                            size
                        ));
                    }
                    out[k] = Some(v);
                }
                None => {
                    if mu {
                        return Err(format!("unknown must-understand member {}", id));
                    }
                    self.take(size)?;
                }
            }
            if self.origin_restore {
                self.origin = saved;
            }
        }
        Ok(out)
    }

    /// returns (member values, offset of the first EMHEADER, end of the object)
    fn em_list(&mut self, ids: &[(u32, &Ty, &str)]) -> Result<(Vec<Option<Val>>, usize, usize), String> {
        let size = self.u32()? as usize;
        let start = self.pos;
        let end = start + size;
        if end > self.b.len() {
            return Err("DHEADER exceeds the input".into());
        }
        let mut out: Vec<Option<Val>> = vec![None; ids.len()];
        loop {
            // members are 4-aligned; padding after the last one is not part of the object
            let rel = self.pos - self.origin;
            let pad = (4 - rel % 4) % 4;
            if self.pos + pad >= end {
                if self.pos > end {
                    return Err("member overruns the DHEADER".into());
                }
                self.pos = end.max(self.pos);
                break;
            }
            let em = self.u32()?;
            let mu = em & 0x8000_0000 != 0;
            let lc = (em >> 28) & 7;
            let id = em & 0x0fff_ffff;
            let msize: usize = match lc {
                0 => 1,
                1 => 2,
                2 => 4,
                3 => 8,
                4 => self.u32()? as usize,
                _ => {
                    let n = self.u32()? as usize;
                    self.pos -= 4; // NEXTINT is part of the member
                    let k = match lc {
                        5 => 1,
                        6 => 4,
                        _ => 8,
                    };
                    4usize.checked_add(n.checked_mul(k).ok_or("NEXTINT overflow")?).ok_or("NEXTINT overflow")?
                }
            };
            let mstart = self.pos;
            if mstart + msize > end {
                return Err(format!("member {} (LC {}) claims {} bytes beyond the DHEADER", id, lc, msize));
            }
            match ids.iter().position(|x| x.0 == id) {
                Some(k) => {
                    if out[k].is_some() {
                        return Err(format!("member id {} appears twice", id));
                    }
                    self.path.push(ids[k].2.to_string());
                    let v = self.value(ids[k].1);
                    self.path.pop();
                    let v = v?;
                    if self.pos - mstart != msize {
                        return Err(format!(
                            "member {} takes {} bytes but EMHEADER LC {} says {}",
                            id,
                            self.pos - mstart,
                            lc,
                            msize
                        ));
                    }
                    out[k] = Some(v);
                }
                None => {
                    if mu {
                        return Err(format!("unknown must-understand member {}", id));
                    }
                    self.take(msize)?;
                }
            }
        }
        Ok((out, start, end))
    }
}

pub struct Decoded {
    pub val: Val,
    pub rep: Rep,
    pub notes: BTreeSet<String>,
    /// XCDR2 mutable structure objects of the stream (see [`MutObj`])
    pub mut_objs: Vec<MutObj>,
}

/// Decode the body; returns the value, the representation and the offset where the object ends
/// (before the encapsulation padding).
pub fn decode_body(t: &Ty, b: &[u8], origin_restore: bool) -> Result<(Decoded, usize), String> {
    decode_body_opt(t, b, origin_restore, false)
}

/// Decode bytes written with another (compatible) version of `t`, as a reader that follows the type
/// evolution rules does; used to locate the objects of the stream, not as an oracle.
pub fn decode_body_as_reader(t: &Ty, b: &[u8]) -> Result<(Decoded, usize), String> {
    decode_body_opt(t, b, true, true)
}

fn decode_body_opt(t: &Ty, b: &[u8], origin_restore: bool, as_reader: bool) -> Result<(Decoded, usize), String> {
    if b.len() < 4 {
        return Err("shorter than the encapsulation header".into());
    }
    if b[0] != 0 {
        return Err("unknown representation identifier".into());
    }
    let (ver, le) = match b[1] {
        0x00 | 0x02 => (Ver::X1, false),
        0x01 | 0x03 => (Ver::X1, true),
        0x06 | 0x08 | 0x0a => (Ver::X2, false),
        0x07 | 0x09 | 0x0b => (Ver::X2, true),
        _ => return Err("unknown representation identifier".into()),
    };
    let rep = match (ver, le) {
        (Ver::X1, true) => Rep::X1LE,
        (Ver::X1, false) => Rep::X1BE,
        (Ver::X2, true) => Rep::X2LE,
        (Ver::X2, false) => Rep::X2BE,
    };
    if b[1] != rep_id(rep, top_ext(t)) {
        return Err(format!(
            "representation identifier 0x{:02x} does not fit the type's extensibility (expected 0x{:02x})",
            b[1],
            rep_id(rep, top_ext(t))
        ));
    }
    let mut d = Dec {
        b,
        pos: 4,
        origin: 4,
        ver,
        le,
        origin_restore,
        notes: BTreeSet::new(),
        mut_objs: Vec::new(),
        path: Vec::new(),
        limit: b.len(),
        as_reader,
    };
    let val = d.nested(t)?;
    let consumed = d.pos;
    Ok((
        Decoded {
            val,
            rep,
            notes: d.notes,
            mut_objs: d.mut_objs,
        },
        consumed,
    ))
}

pub fn decode_top(t: &Ty, b: &[u8], origin_restore: bool) -> Result<Decoded, String> {
    let (d, consumed) = decode_body(t, b, origin_restore)?;
    let pad = (b[3] & 3) as usize;
    if b.len() - consumed != pad {
        return Err(format!(
            "{} trailing bytes but the options record {} padding bytes",
            b.len() - consumed,
            pad
        ));
    }
    if b.len() % 4 != 0 {
        return Err("total length not a multiple of 4".into());
    }
    Ok(d)
}

// ------------------------------------------------------------------------------------------------
// Keys (7.6.8)
// ------------------------------------------------------------------------------------------------

/// KeyHolder per XTypes 7.6.8.3: the key members of a structure; a key member of structure type
/// contributes its own key members if it declares any, otherwise all of its members.
/// Returned as a FINAL structure type + value (no headers), members in declaration order.
pub fn key_holder(t: &Ty, v: &Val, nested_key_member: bool) -> Option<(Ty, Val)> {
    let (s, ms) = match (t, v) {
        (Ty::Struct(s), Val::Struct(ms)) => (s, ms),
        _ => return None,
    };
    let any_key = s.members.iter().any(|m| m.key);
    if !any_key && !nested_key_member {
        return None;
    }
    let mut members = Vec::new();
    let mut vals = Vec::new();
    for (m, mv) in s.members.iter().zip(ms.iter()) {
        if !(m.key || (!any_key && nested_key_member)) {
            continue;
        }
        let mv = mv.as_ref()?;
        match (&m.ty, mv) {
            (Ty::Struct(_), Val::Struct(_)) => {
                let (kt, kv) = key_holder(&m.ty, mv, true)?;
                members.push(Member {
                    ty: kt,
                    optional: false,
                    ..m.clone()
                });
                vals.push(Some(kv));
            }
            _ => {
                members.push(Member {
                    optional: false,
                    ..m.clone()
                });
                vals.push(Some(mv.clone()));
            }
        }
    }
    Some((
        Ty::Struct(std::rc::Rc::new(StructTy {
            name: format!("KeyHolder_{}", s.name),
            ext: Ext::Final,
            members,
        })),
        Val::Struct(vals),
    ))
}

fn sort_by_id(t: &Ty, v: &Val) -> (Ty, Val) {
    match (t, v) {
        (Ty::Struct(s), Val::Struct(ms)) => {
            let mut idx: Vec<usize> = (0..s.members.len()).collect();
            idx.sort_by_key(|i| s.members[*i].id);
            let mut members = Vec::new();
            let mut vals = Vec::new();
            for i in idx {
                let m = &s.members[i];
                match &ms[i] {
                    Some(x) => {
                        let (mt, mv) = sort_by_id(&m.ty, x);
                        members.push(Member { ty: mt, ..m.clone() });
                        vals.push(Some(mv));
                    }
                    None => {
                        members.push(m.clone());
                        vals.push(None);
                    }
                }
            }
            (
                Ty::Struct(std::rc::Rc::new(StructTy {
                    name: s.name.clone(),
                    ext: s.ext,
                    members,
                })),
                Val::Struct(vals),
            )
        }
        _ => (t.clone(), v.clone()),
    }
}

#[derive(Clone, Copy, Debug, PartialEq, Eq, Hash, PartialOrd, Ord)]
pub enum KeyVariant {
    /// XCDR2 big endian, members ordered by member id (XTypes 1.3 7.6.8.4)
    X2ById,
    /// XCDR2 big endian, declaration order
    X2Decl,
    /// XCDR1 (plain CDR) big endian, declaration order (XTypes 1.1 / RTPS 9.6.3.8)
    X1Decl,
    /// XCDR1 big endian, member id order
    X1ById,
}
pub const KEY_VARIANTS: [KeyVariant; 4] = [
    KeyVariant::X2ById,
    KeyVariant::X2Decl,
    KeyVariant::X1Decl,
    KeyVariant::X1ById,
];
impl KeyVariant {
    pub fn name(self) -> &'static str {
        match self {
            KeyVariant::X2ById => "xcdr2_be_by_id",
            KeyVariant::X2Decl => "xcdr2_be_decl_order",
            KeyVariant::X1Decl => "xcdr1_be_decl_order",
            KeyVariant::X1ById => "xcdr1_be_by_id",
        }
    }
    pub fn ver(self) -> Ver {
        match self {
            KeyVariant::X2ById | KeyVariant::X2Decl => Ver::X2,
            _ => Ver::X1,
        }
    }
    pub fn by_id(self) -> bool {
        matches!(self, KeyVariant::X2ById | KeyVariant::X1ById)
    }
}

/// Big-endian serialization of a key holder without encapsulation header.
pub fn serialize_key(holder_t: &Ty, holder_v: &Val, variant: KeyVariant) -> Result<Vec<u8>, String> {
    let (t, v) = if variant.by_id() {
        sort_by_id(holder_t, holder_v)
    } else {
        (holder_t.clone(), holder_v.clone())
    };
    let mut e = Enc::new(variant.ver(), false, Opts::default());
    e.nested(&t, &v)?;
    Ok(e.buf)
}

/// A value of the type with every bounded string / sequence at its bound (None if something is
/// unbounded): its serialized size is a lower bound of the maximum serialized size.
pub fn fullest_value(t: &Ty) -> Option<Val> {
    Some(match t {
        Ty::Prim(_) | Ty::Enum(_) => simple_val(t),
        Ty::Str { bound } => {
            if *bound == 0 {
                return None;
            }
            Val::Str("x".repeat(*bound as usize))
        }
        Ty::WStr { .. } => return None,
        Ty::Seq { elem, bound } => {
            if *bound == 0 {
                return None;
            }
            if matches!(&**elem, Ty::Prim(p) if p.is_byte_like()) {
                Val::Bytes(vec![1; *bound as usize])
            } else {
                let mut xs = Vec::new();
                for _ in 0..*bound {
                    xs.push(fullest_value(elem)?);
                }
                Val::List(xs)
            }
        }
        Ty::Arr { elem, len } => {
            if matches!(&**elem, Ty::Prim(p) if p.is_byte_like()) {
                Val::Bytes(vec![1; *len as usize])
            } else {
                let mut xs = Vec::new();
                for _ in 0..*len {
                    xs.push(fullest_value(elem)?);
                }
                Val::List(xs)
            }
        }
        Ty::Struct(s) => {
            let mut ms = Vec::new();
            for m in &s.members {
                ms.push(Some(fullest_value(&m.ty)?));
            }
            Val::Struct(ms)
        }
        Ty::Union(_) => return None,
    })
}

/// Maximum serialized size of a FINAL key holder in one key serialization variant (member order and
/// representation of that variant); None = unbounded (or a type that cannot be part of a key).
///
/// It is the size of the serialization of the fullest value (every string / sequence at its bound),
/// and that is exact, not an estimate: an item placed at offset `o` ends at align_up(o, a) + size,
/// which never decreases when `o` grows, and the end of a string or sequence never decreases when its
/// length grows; so making any string / sequence longer can only move every later offset, and the
/// total, up. There are no headers in a key holder (final, no optional members) that could shrink.
/// c12 re-checks the consequence `size(value) <= maximum` on every value it judges.
pub fn max_size_exact(holder_t: &Ty, variant: KeyVariant) -> Option<usize> {
    let v = fullest_value(holder_t)?;
    serialize_key(holder_t, &v, variant).ok().map(|b| b.len())
}

#[derive(Clone, Copy, Debug, PartialEq, Eq)]
pub enum MaxClass {
    /// maximum serialized key size <= 16
    AtMost16,
    /// > 16 (includes unbounded)
    Over16,
}

pub fn max_class(holder_t: &Ty, variant: KeyVariant) -> MaxClass {
    match max_size_exact(holder_t, variant) {
        Some(n) if n <= 16 => MaxClass::AtMost16,
        _ => MaxClass::Over16,
    }
}

/// 7.6.8.4: zero padded to 16 bytes when the maximum serialized key size is <= 16, MD5 otherwise.
pub fn key_hash(ser: &[u8], over16: bool) -> [u8; 16] {
    if over16 {
        md5::compute(ser).into()
    } else {
        let mut k = [0u8; 16];
        let n = ser.len().min(16);
        k[..n].copy_from_slice(&ser[..n]);
        k
    }
}
