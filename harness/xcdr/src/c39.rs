//! C39: compatible type evolution. Related (writer type, reader type) pairs: appendable with trailing
//! members added/removed, mutable with members added/removed/reordered (stable ids), evolution of a
//! nested appendable/mutable member type, plus deliberately incompatible edits. Serialize with the
//! writer type, deserialize with the reader type: common members equal, the others default/absent.
//! Assignability (`CompleteTypeObject::is_assignable_from`, default TypeConsistencyEnforcement) must be
//! reflexive and must agree with whether that decoding succeeds on all sampled values.
use crate::c09::{SHRINK_FLAG, unit_gen};
use crate::common::*;
use crate::dustrun::*;
use crate::refenc::{Rep, Ver};
use crate::supervise::*;
use dust_dds::xtypes::type_object::CompleteTypeObject;
use std::rc::Rc;
use vcore::{Json, Report, fnv_str};
use xcdrlib::dustglue::*;
use xcdrlib::model::*;

const VALUES_PER_PAIR: u64 = 5;
const REPS: [Rep; 3] = [Rep::X2LE, Rep::X2BE, Rep::X1LE];

pub struct Pair {
    pub w: Ty,
    pub r: Ty,
    pub edit: &'static str,
    /// what the XTypes rules say for this edit (None = not asserted by this harness)
    pub expect_assignable: Option<bool>,
    /// edits below the top level cannot work in XCDR1 appendable (no DHEADER): XCDR2 only
    pub xcdr1_ok: bool,
}

fn fresh_member(g: &mut Gen, name: String, id: u32) -> Member {
    Member {
        name,
        id,
        ty: g.member_ty(3),
        key: false,
        optional: g.rng.chance(0.15),
        must_understand: false,
    }
}

fn base_struct(g: &mut Gen, ext: Ext, name: &str, depth: usize) -> StructTy {
    let n = 2 + g.rng.usize(4);
    let mut ids: Vec<u32> = (0..n as u32).collect();
    if ext == Ext::Mutable && g.rng.bool() {
        let mut set = std::collections::BTreeSet::new();
        while set.len() < n {
            set.insert(g.rng.below(120) as u32);
        }
        ids = set.into_iter().collect();
    }
    let mut members = Vec::new();
    for (i, id) in ids.iter().enumerate() {
        members.push(Member {
            name: format!("f{i}"),
            id: *id,
            ty: g.member_ty(depth),
            key: false,
            optional: g.rng.chance(0.15),
            must_understand: false,
        });
    }
    StructTy {
        name: name.into(),
        ext,
        members,
    }
}

fn evolve(g: &mut Gen, s: &StructTy, allow: &[&'static str]) -> (StructTy, &'static str) {
    let mut r = s.clone();
    let kind = *g.rng.pick(allow);
    let next_id = s.members.iter().map(|m| m.id).max().unwrap_or(0) + 1;
    match kind {
        "append" | "add" => {
            let k = 1 + g.rng.usize(2);
            for j in 0..k {
                r.members.push(fresh_member(g, format!("x{j}"), next_id + j as u32 * 3));
            }
        }
        "truncate" => {
            let keep = 1 + g.rng.usize(s.members.len().max(2) - 1);
            r.members.truncate(keep.max(1));
        }
        "remove" => {
            let drop = g.rng.usize(s.members.len());
            if r.members.len() > 1 {
                r.members.remove(drop);
            }
        }
        "reorder" => {
            g.rng.shuffle(&mut r.members);
        }
        "add_remove_reorder" => {
            if r.members.len() > 1 {
                let drop = g.rng.usize(r.members.len());
                r.members.remove(drop);
            }
            r.members.push(fresh_member(g, "x0".into(), next_id));
            g.rng.shuffle(&mut r.members);
        }
        _ => {}
    }
    (r, kind)
}

pub fn gen_pair(g: &mut Gen) -> Pair {
    let ext = if g.rng.bool() { Ext::Appendable } else { Ext::Mutable };
    let top_edits: &[&'static str] = if ext == Ext::Appendable {
        &["append", "truncate", "same"]
    } else {
        &["add", "remove", "reorder", "add_remove_reorder", "same"]
    };
    let w = base_struct(g, ext, "Evo", 2);
    match g.rng.below(100) {
        0..=59 => {
            let (r, edit) = evolve(g, &w, top_edits);
            Pair {
                w: Ty::Struct(Rc::new(w)),
                r: Ty::Struct(Rc::new(r)),
                edit,
                expect_assignable: Some(true),
                xcdr1_ok: true,
            }
        }
        60..=74 => {
            // evolve a nested appendable / mutable member type
            let mut w2 = w.clone();
            let i = g.rng.usize(w2.members.len());
            let next = if g.rng.bool() { Ext::Appendable } else { Ext::Mutable };
            let inner = base_struct(g, next, "Inner", 3);
            w2.members[i].ty = Ty::Struct(Rc::new(inner.clone()));
            w2.members[i].optional = false;
            let allow: &[&'static str] = if next == Ext::Appendable { &["append", "truncate"] } else { &["add", "remove", "reorder"] };
            let (inner_r, _) = evolve(g, &inner, allow);
            let mut r = w2.clone();
            r.members[i].ty = Ty::Struct(Rc::new(inner_r));
            Pair {
                w: Ty::Struct(Rc::new(w2)),
                r: Ty::Struct(Rc::new(r)),
                edit: if next == Ext::Appendable { "nested_appendable_evolved" } else { "nested_mutable_evolved" },
                expect_assignable: Some(true),
                xcdr1_ok: false,
            }
        }
        75..=84 => {
            // a common member changes to an incompatible type
            let mut w2 = w.clone();
            let i = g.rng.usize(w2.members.len());
            w2.members[i].ty = Ty::Prim(Prim::I32);
            w2.members[i].optional = false;
            let mut r = w2.clone();
            r.members[i].ty = if g.rng.bool() { Ty::Prim(Prim::F64) } else { Ty::Str { bound: 0 } };
            Pair {
                w: Ty::Struct(Rc::new(w2)),
                r: Ty::Struct(Rc::new(r)),
                edit: "member_retyped_incompatibly",
                expect_assignable: Some(false),
                xcdr1_ok: true,
            }
        }
        85..=92 => {
            // nested FINAL member type changes its members: not assignable
            let mut w2 = w.clone();
            let i = g.rng.usize(w2.members.len());
            let inner = StructTy {
                name: "Fin".into(),
                ext: Ext::Final,
                members: vec![
                    Member {
                        name: "a".into(),
                        id: 0,
                        ty: Ty::Prim(Prim::U16),
                        key: false,
                        optional: false,
                        must_understand: false,
                    },
                    Member {
                        name: "b".into(),
                        id: 1,
                        ty: Ty::Prim(Prim::U32),
                        key: false,
                        optional: false,
                        must_understand: false,
                    },
                ],
            };
            let mut inner_r = inner.clone();
            inner_r.members[0].ty = Ty::Prim(Prim::U64);
            w2.members[i].ty = Ty::Struct(Rc::new(inner));
            w2.members[i].optional = false;
            let mut r = w2.clone();
            r.members[i].ty = Ty::Struct(Rc::new(inner_r));
            Pair {
                w: Ty::Struct(Rc::new(w2)),
                r: Ty::Struct(Rc::new(r)),
                edit: "nested_final_member_retyped",
                expect_assignable: Some(false),
                xcdr1_ok: true,
            }
        }
        _ => {
            let mut r = w.clone();
            r.ext = if w.ext == Ext::Appendable { Ext::Mutable } else { Ext::Appendable };
            Pair {
                w: Ty::Struct(Rc::new(w)),
                r: Ty::Struct(Rc::new(r)),
                edit: "extensibility_changed",
                expect_assignable: Some(false),
                xcdr1_ok: true,
            }
        }
    }
}

/// "default or absent" for a member the writer did not send: the default value, or an aggregate
/// whose members are all absent / default-ish themselves
fn defaultish(t: &Ty, v: &Val) -> bool {
    if *v == default_val(t) {
        return true;
    }
    match (t, v) {
        (Ty::Struct(s), Val::Struct(ms)) => s
            .members
            .iter()
            .zip(ms.iter())
            .all(|(m, mv)| mv.as_ref().map(|x| defaultish(&m.ty, x)).unwrap_or(true)),
        (Ty::Seq { .. }, Val::List(xs)) => xs.is_empty(),
        (Ty::Arr { elem, .. }, Val::List(xs)) => xs.iter().all(|x| defaultish(elem, x)),
        _ => false,
    }
}

/// Does `got` (read with reader type rt) carry the writer's values for the common members and
/// default / absent for the rest?
fn matches(rt: &Ty, got: &Val, wt: &Ty, wv: &Val) -> Result<(), String> {
    match (rt, got, wt, wv) {
        (Ty::Struct(rs), Val::Struct(gs), Ty::Struct(ws), Val::Struct(wvs)) => {
            for (j, rm) in rs.members.iter().enumerate() {
                match ws.members.iter().position(|wm| wm.id == rm.id) {
                    Some(i) => match (&wvs[i], &gs[j]) {
                        (None, None) => {}
                        (None, Some(x)) => {
                            if !defaultish(&rm.ty, x) {
                                return Err(format!("{}:invented_value", rm.name));
                            }
                        }
                        (Some(_), None) => return Err(format!("{}:common_member_lost", rm.name)),
                        (Some(x), Some(y)) => {
                            if let (Ty::Struct(_), Ty::Struct(_)) = (&rm.ty, &ws.members[i].ty) {
                                matches(&rm.ty, y, &ws.members[i].ty, x).map_err(|e| format!("{}.{}", rm.name, e))?;
                            } else if x != y {
                                return Err(format!("{}:common_member_differs", rm.name));
                            }
                        }
                    },
                    None => match &gs[j] {
                        None => {}
                        Some(x) => {
                            if !defaultish(&rm.ty, x) {
                                return Err(format!("{}:new_member_not_default", rm.name));
                            }
                        }
                    },
                }
            }
            Ok(())
        }
        _ => {
            if got == wv {
                Ok(())
            } else {
                Err("value_differs".into())
            }
        }
    }
}

fn class_of(e: &str) -> String {
    e.rsplit(|c| c == '.' || c == ':').next().unwrap_or(e).to_string()
}

pub struct Ev {
    pub key: String,
    pub detail: String,
    pub bytes_hex: String,
    pub harness_problem: bool,
    /// the writer's bytes and, for a wrong value, the member path of the first difference
    pub bytes: Vec<u8>,
    pub diff: Option<String>,
}

/// dust-dds' deserializer with the reader type on `bytes`, judged like eval_value does
fn probe_reader(rt: &Ty, rdt: dust_dds::xtypes::dynamic_type::DynamicType<'static>, wt: &Ty, v: &Val, bytes: &[u8]) -> crate::classify::Probe {
    use crate::classify::Probe;
    match dust_deserialize(rdt, bytes) {
        Run::Ok(d) => match read_data(rt, &d) {
            Ok(got) => match matches(rt, &got, wt, v) {
                Ok(()) => Probe::Ok,
                Err(e) => Probe::Wrong(e),
            },
            Err(_) => Probe::Other,
        },
        Run::Err(_) => Probe::Error,
        Run::Panic(_) => Probe::Other,
    }
}

/// The reader type with every MUTABLE union inside the members that only the reader has made FINAL
/// (None if there is no such union).
fn reader_only_unions_final(w: &Ty, r: &Ty) -> Option<Ty> {
    fn conv(t: &Ty, changed: &mut bool) -> Ty {
        match t {
            Ty::Struct(s) => Ty::Struct(Rc::new(StructTy {
                name: s.name.clone(),
                ext: s.ext,
                members: s.members.iter().map(|m| Member { ty: conv(&m.ty, changed), ..m.clone() }).collect(),
            })),
            Ty::Union(u) => {
                if u.ext == Ext::Mutable {
                    *changed = true;
                }
                Ty::Union(Rc::new(UnionTy {
                    name: u.name.clone(),
                    ext: if u.ext == Ext::Mutable { Ext::Final } else { u.ext },
                    disc: u.disc.clone(),
                    cases: u.cases.iter().map(|c| Case { ty: c.ty.as_ref().map(|x| conv(x, changed)), ..c.clone() }).collect(),
                }))
            }
            Ty::Seq { elem, bound } => Ty::Seq { elem: Box::new(conv(elem, changed)), bound: *bound },
            Ty::Arr { elem, len } => Ty::Arr { elem: Box::new(conv(elem, changed)), len: *len },
            other => other.clone(),
        }
    }
    let (ws, rs) = match (w, r) {
        (Ty::Struct(a), Ty::Struct(b)) => (a, b),
        _ => return None,
    };
    let mut changed = false;
    let members = rs
        .members
        .iter()
        .map(|m| {
            if ws.members.iter().any(|wm| wm.id == m.id) {
                m.clone()
            } else {
                Member { ty: conv(&m.ty, &mut changed), ..m.clone() }
            }
        })
        .collect();
    changed.then(|| Ty::Struct(Rc::new(StructTy { name: rs.name.clone(), ext: rs.ext, members })))
}

/// Verified root cause of a decode failure of this pair on this value (see classify.rs), or None.
fn decode_failure_cause(
    p: &Pair,
    rdt: dust_dds::xtypes::dynamic_type::DynamicType<'static>,
    v: &Val,
    rep: Rep,
    e: &Ev,
    api_assignable: bool,
) -> Option<&'static str> {
    use crate::classify::{self, BytesFrom, DecodeCase, Probe};
    if e.key.starts_with("decode_panic|") || e.bytes.len() < 4 {
        return None;
    }
    // S6: the API calls a pair assignable that differs (only) in the members of a nested structure type
    if p.expect_assignable == Some(false) && api_assignable && classify::differ_only_in_nested_struct_members(&p.w, &p.r) {
        return Some(classify::S6);
    }
    if rep.ver() == Ver::X1 {
        let pad = (e.bytes[3] & 3) as usize;
        let r_appendable = matches!(&p.r, Ty::Struct(s) if s.ext == Ext::Appendable);
        if !r_appendable || e.bytes.len() < 4 + pad {
            return None;
        }
        let mut stripped = e.bytes[..e.bytes.len() - pad].to_vec();
        stripped[3] &= !3;
        // S4: the padding announced in the options is read as trailing members
        if pad > 0 {
            if let Probe::Ok = probe_reader(&p.r, rdt, &p.w, v, &stripped) {
                return Some(classify::S4);
            }
        }
        // S7: a trailing member the writer did not send is (or begins with) a MUTABLE union; at the end of
        // the data its reader fails with InvalidId(0) instead of NotEnoughData. Experiment: the same
        // bytes (without padding) and the reader type with only the extensibility of the unions inside
        // the reader-only trailing members changed to FINAL decode correctly.
        if e.key.starts_with("decode_fail|error:InvalidId") {
            if let Some(r2) = reader_only_unions_final(&p.w, &p.r) {
                if let Ok(rdt2) = guarded(|| build_type(&r2)) {
                    if let Probe::Ok = probe_reader(&r2, rdt2, &p.w, v, &stripped) {
                        return Some(classify::S7);
                    }
                }
            }
        }
        return None;
    }
    let outcome = match (&e.diff, e.key.starts_with("decode_fail|error:")) {
        (Some(d), _) => Probe::Wrong(d.clone()),
        (None, true) => Probe::Error,
        _ => Probe::Other,
    };
    classify::decode_cause(
        &DecodeCase {
            wt: &p.w,
            wv: v,
            rt: &p.r,
            rep,
            bytes: &e.bytes,
            from: BytesFrom::DustWriter,
            outcome,
        },
        &mut |other| probe_reader(&p.r, rdt, &p.w, v, other),
    )
}

/// one (pair, value, rep): "ok", "skip:<why>", or "decode_fail|<class>"
pub const PHASE_READER: u64 = 1 << 33;

pub fn eval_value(
    p: &Pair,
    wdt: dust_dds::xtypes::dynamic_type::DynamicType<'static>,
    rdt: dust_dds::xtypes::dynamic_type::DynamicType<'static>,
    v: &Val,
    rep: Rep,
    journal: &mut Journal,
    unit: u64,
    sub: u64,
) -> Ev {
    let ev = |key: String, detail: String, b: &[u8], hp: bool| Ev {
        key,
        detail,
        bytes_hex: vcore::hex(b),
        harness_problem: hp,
        bytes: b.to_vec(),
        diff: None,
    };
    let data = match build_data(wdt, &p.w, v) {
        Ok(d) => d,
        Err(e) => return ev("harness".into(), e, &[], true),
    };
    let bytes = match dust_serialize(&data, rep) {
        Run::Ok(b) => b,
        _ => return ev("skip:writer_serialize_fails(C09)".into(), String::new(), &[], false),
    };
    // the plain round trip with the writer's own type must work, otherwise the failure is C09's
    match dust_deserialize(wdt, &bytes) {
        Run::Ok(d) => match read_data(&p.w, &d) {
            Ok(v2) if v2 == *v => {}
            _ => return ev("skip:plain_round_trip_fails(C09)".into(), String::new(), &bytes, false),
        },
        _ => return ev("skip:plain_round_trip_fails(C09)".into(), String::new(), &bytes, false),
    }
    journal.announce(unit, sub | PHASE_READER);
    match dust_deserialize(rdt, &bytes) {
        Run::Ok(d) => match read_data(&p.r, &d) {
            Ok(got) => match matches(&p.r, &got, &p.w, v) {
                Ok(()) => ev("ok".into(), String::new(), &bytes, false),
                Err(e) => Ev {
                    diff: Some(e.clone()),
                    ..ev(format!("decode_fail|{}", class_of(&e)), format!("at {}", e), &bytes, false)
                },
            },
            Err(e) => ev("decode_fail|ill_typed_result".into(), e, &bytes, false),
        },
        Run::Err(e) => ev(format!("decode_fail|error:{}", err_class(&e)), e, &bytes, false),
        Run::Panic(pi) => ev(
            format!("decode_panic|{}", pi.sig()),
            format!("{} at {}", pi.msg, pi.location),
            &bytes,
            !pi.in_dust(),
        ),
    }
}

fn api(p: &Pair, wdt: dust_dds::xtypes::dynamic_type::DynamicType<'static>, rdt: dust_dds::xtypes::dynamic_type::DynamicType<'static>) -> Result<(bool, bool, bool), PanicInfo> {
    guarded(|| {
        let wo = CompleteTypeObject::from(wdt);
        let ro = CompleteTypeObject::from(rdt);
        let ro2 = CompleteTypeObject::from(build_type(&p.r));
        let wo2 = CompleteTypeObject::from(build_type(&p.w));
        (ro.is_assignable_from(&wo), ro.is_assignable_from(&ro2), wo.is_assignable_from(&wo2))
    })
}

fn pair_json(p: &Pair) -> Json {
    Json::obj()
        .set("check", "c39")
        .set("writer_type", ty_to_json(&p.w))
        .set("reader_type", ty_to_json(&p.r))
        .set("edit", p.edit)
        .set("expect_assignable", match p.expect_assignable {
            Some(true) => "yes",
            Some(false) => "no",
            None => "unknown",
        })
        .set("xcdr1_ok", p.xcdr1_ok)
}

fn pair_from_json(j: &Json) -> Result<Pair, String> {
    let edit: &'static str = Box::leak(j.get("edit").and_then(|x| x.as_str()).unwrap_or("replayed").to_string().into_boxed_str());
    Ok(Pair {
        w: ty_from_json(j.get("writer_type").ok_or("writer_type")?)?,
        r: ty_from_json(j.get("reader_type").ok_or("reader_type")?)?,
        edit,
        expect_assignable: match j.get("expect_assignable").and_then(|x| x.as_str()) {
            Some("yes") => Some(true),
            Some("no") => Some(false),
            _ => None,
        },
        xcdr1_ok: j.get("xcdr1_ok").and_then(|x| x.as_bool()).unwrap_or(false),
    })
}

fn ext_of(t: &Ty) -> &'static str {
    match t {
        Ty::Struct(s) => s.ext.name(),
        Ty::Union(u) => u.ext.name(),
        _ => "-",
    }
}

fn ver_name(rep: Rep) -> &'static str {
    if rep.ver() == Ver::X1 { "XCDR1" } else { "XCDR2" }
}

/// Evaluate a whole pair on the given values; appends violations.
fn eval_pair(rep: &mut Report, p: &Pair, values: &[Val], skip_sub: &dyn Fn(u64) -> bool, journal: &mut Journal, unit: u64) {
    let (wdt, rdt) = match guarded(|| (build_type(&p.w), build_type(&p.r))) {
        Ok(x) => x,
        Err(pi) => {
            rep.inconclusive(format!("building a generated type panicked: {}", pi.msg));
            return;
        }
    };
    rep.stat(&format!("pairs:{}", p.edit), 1);
    // ---- API
    let (asg, refl_r, refl_w) = match api(p, wdt, rdt) {
        Ok(x) => x,
        Err(pi) => {
            rep.eval();
            if pi.in_dust() {
                rep.stat("api_panics", 1);
                rep.nontrivial(fnv_str(&format!("api_panic|{}", pi.sig())));
                rep.violation(
                    format!("type_evolution|assignability_panic|cause=unclassified|site={}", pi.sig()),
                    format!(
                        "CompleteTypeObject::from / is_assignable_from panicked: {} at {} ; {}",
                        pi.msg,
                        pi.location,
                        pair_json(p).to_string()
                    ),
                    pair_json(p),
                );
            } else {
                rep.inconclusive(format!("harness panic in the assignability call: {}", pi.msg));
            }
            return;
        }
    };
    rep.eval();
    rep.stat(if asg { "api:assignable" } else { "api:not_assignable" }, 1);
    if !refl_r || !refl_w {
        rep.violation(
            "type_evolution|not_reflexive".to_string(),
            format!("is_assignable_from(T, T) is false for {}", ty_to_json(if !refl_r { &p.r } else { &p.w }).to_string()),
            pair_json(p),
        );
    }
    if p.expect_assignable == Some(false) && !asg {
        rep.stat("incompatible_pairs_rejected_by_api", 1);
    }
    // ---- decoding
    for r in REPS {
        if r.ver() == Ver::X1 && !p.xcdr1_ok {
            continue;
        }
        let mut evaluated = 0;
        let mut first_fail: Option<(Ev, Val)> = None;
        for (vi, v) in values.iter().enumerate() {
            let sub = vi as u64 * REPS.len() as u64 + REPS.iter().position(|x| *x == r).unwrap() as u64;
            if skip_sub(sub) {
                continue;
            }
            journal.announce(unit, sub);
            let e = eval_value(p, wdt, rdt, v, r, journal, unit, sub);
            if e.harness_problem {
                rep.inconclusive(format!("harness problem: {} {}", e.key, e.detail));
                continue;
            }
            if e.key.starts_with("skip:") {
                rep.stat(&e.key, 1);
                continue;
            }
            rep.eval();
            evaluated += 1;
            rep.stat(&format!("decode:{}", e.key.split('|').next().unwrap_or("")), 1);
            rep.nontrivial(fnv_str(&format!(
                "{}|{}|{}|{}|{}|{}",
                p.edit,
                ext_of(&p.w),
                r.name(),
                asg,
                e.key,
                shape_class(&p.r)
            )));
            if e.key != "ok" && first_fail.is_none() {
                first_fail = Some((e, v.clone()));
            }
        }
        if evaluated == 0 {
            continue;
        }
        let decode_ok = first_fail.is_none();
        let mut verdicts: Vec<String> = Vec::new();
        if let Some((e, _)) = &first_fail {
            let fail_class = if e.key.starts_with("decode_panic|") { e.key.clone() } else { e.key.replace("decode_fail|", "") };
            if p.expect_assignable == Some(true) {
                verdicts.push(format!("common_members_not_preserved|{}", fail_class));
            }
            if asg {
                verdicts.push(format!("assignable_but_undecodable|{}", fail_class));
            }
        }
        if decode_ok && !asg && p.expect_assignable == Some(true) {
            verdicts.push("decodable_but_not_assignable".into());
        }
        if verdicts.is_empty() {
            if unit % 64 == 0 && r == Rep::X2LE {
                rep.sample(pair_json(p).set("api_assignable", asg).set("decoding", "common members preserved on all sampled values").set("rep", r.name()));
            }
            continue;
        }
        // verified root cause of the first failing value (classify.rs); anything else is unclassified
        // and carries what the pair is (edit kind, extensibility)
        let cause = match &first_fail {
            Some((e, v)) => decode_failure_cause(p, rdt, v, r, e, asg),
            None => None,
        };
        for vd in verdicts {
            let verdict = vd.split('|').next().unwrap_or("");
            let sig = if let Some(site) = vd.split("decode_panic|").nth(1) {
                format!("type_evolution|decode_panicked|rep={}|cause={}", ver_name(r), crate::classify::panic_cause(site))
            } else {
                let c = match cause {
                    // S6 is a wrong API answer: it explains `assignable_but_undecodable` only
                    Some(c) if c != crate::classify::S6 || verdict == "assignable_but_undecodable" => c.to_string(),
                    _ => format!("unclassified|edit={}|ext={}", p.edit, ext_of(&p.w)),
                };
                format!("type_evolution|{}|rep={}|cause={}", verdict, ver_name(r), c)
            };
            let (detail, value, bytes) = match &first_fail {
                Some((e, v)) => (format!("{} {}", e.key, e.detail), val_to_json(&p.w, v), e.bytes_hex.clone()),
                None => ("all sampled values decode with the common members preserved".to_string(), Json::Null, String::new()),
            };
            rep.violation(
                sig,
                format!(
                    "{} api_assignable={} {} ; writer {} reader {} value {} bytes {}",
                    r.name(),
                    asg,
                    detail,
                    ty_to_json(&p.w).to_string(),
                    ty_to_json(&p.r).to_string(),
                    value.to_string(),
                    bytes
                ),
                pair_json(p).set("rep", r.name()).set("value", value).set("bytes_hex", bytes),
            );
        }
    }
}

fn unit_pair(seed: u64, shard: u64, unit: u64) -> (Pair, Vec<Val>) {
    let mut g = unit_gen(seed, shard, unit, 0xC39, GenCfg::common_subset());
    let p = gen_pair(&mut g);
    let values = (0..VALUES_PER_PAIR).map(|_| g.value(&p.w)).collect();
    (p, values)
}

pub fn run(a: &Cli) -> Report {
    if a.args.has("child") {
        let mut rep = Report::new("C39");
        let mut journal = Journal::open(&a.args.str("journal", ""));
        if a.args.has("probe") {
            // replay of one pair
            let txt = std::fs::read_to_string(a.args.str("probe", "")).unwrap_or_default();
            if let Ok(j) = Json::parse(&txt) {
                if let Ok(p) = pair_from_json(&j) {
                    let mut g = unit_gen(a.seed, 0, 0, 0xC39F, GenCfg::common_subset());
                    let mut values: Vec<Val> = Vec::new();
                    if let Some(vj) = j.get("value") {
                        if let Ok(v) = val_from_json(&p.w, vj) {
                            values.push(v);
                        }
                    }
                    for _ in 0..VALUES_PER_PAIR {
                        values.push(g.value(&p.w));
                    }
                    eval_pair(&mut rep, &p, &values, &|_| false, &mut journal, 0);
                }
            }
            let j = rep.to_json().set("key", "done");
            let _ = std::fs::write(&a.out, j.to_string());
            std::process::exit(0);
        }
        let from = a.args.u64("from", 0);
        let to = a.args.u64("to", 0);
        let skip = parse_skip(&a.args.str("skip", "none"));
        for unit in from..to {
            flush_partial(&rep, &a.out, unit);
            let (p, values) = unit_pair(a.seed, a.shard, unit);
            journal.announce(unit, u32::MAX as u64);
            let sk = skip.clone();
            eval_pair(&mut rep, &p, &values, &move |sub| sk.iter().any(|(u, s)| *u == unit && (s & 0xffff_ffff) == sub), &mut journal, unit);
        }
        return rep;
    }
    let mut rep = Report::new("C39");
    let dir = scratch_dir(a, "c39p");
    if let Some(w) = &a.replay {
        for wj in w {
            let r = wj.get("replay").cloned().unwrap_or(Json::Null);
            let f = format!("{}/replay.json", dir);
            let _ = std::fs::write(&f, r.to_string());
            let res = run_child("c39", &["--probe".into(), f, "--seed".into(), a.seed.to_string()], &dir, "replay", std::time::Duration::from_secs(60));
            match (res.report, res.death) {
                (Some(j), None) => {
                    merge_report(&mut rep, &j);
                    // a pair can show several signatures; the replay is about the one in the file
                    if let Some(want) = wj.get("sig").and_then(|x| x.as_str()) {
                        if rep.violations.iter().any(|v| v.sig == want) {
                            rep.violations.retain(|v| v.sig == want);
                            rep.violation_counts.retain(|k, _| k == want);
                        }
                    }
                }
                (_, Some((d, _))) => {
                    rep.eval();
                    rep.violation(
                        format!("type_evolution|decode_killed_process|rep={}|cause=unclassified", r.get("rep").and_then(|x| x.as_str()).map(|x| if x.starts_with("XCDR1") { "XCDR1" } else { "XCDR2" }).unwrap_or("XCDR2")),
                        format!("process died while decoding with the reader type: {}", d.detail()),
                        r.clone(),
                    );
                }
                _ => rep.inconclusive("replay child produced no report"),
            }
            rep.sample(Json::obj().set("replayed", r));
        }
        let _ = std::fs::remove_dir_all(&dir);
        return rep;
    }
    let per_shard = (a.cases / a.nshards.max(1)).max(1);
    let units = (per_shard / (VALUES_PER_PAIR * 2)).max(1);
    let (seed, shard) = (a.seed, a.shard);
    supervise("c39", a, &mut rep, units, 60, &mut |unit, sub, death, rep| {
        if sub & SHRINK_FLAG != 0 || sub == u32::MAX as u64 {
            rep.stat("deaths_while_building", 1);
            return;
        }
        if sub & PHASE_READER == 0 {
            rep.stat("deaths_in_the_writer_type_round_trip(C09)", 1);
            return;
        }
        let sub = sub & 0xffff_ffff;
        let (p, values) = unit_pair(seed, shard, unit);
        let vi = (sub / REPS.len() as u64) as usize;
        let r = REPS[(sub % REPS.len() as u64) as usize];
        // a pair that is neither assignable by the rules nor according to the API would never be
        // matched: dying on its bytes is C07's matter, not type evolution
        let api_says = guarded(|| (build_type(&p.w), build_type(&p.r)))
            .ok()
            .and_then(|(wdt, rdt)| api(&p, wdt, rdt).ok())
            .map(|x| x.0)
            .unwrap_or(false);
        if p.expect_assignable != Some(true) && !api_says {
            rep.stat("deaths_on_incompatible_pairs(not judged)", 1);
            return;
        }
        rep.eval();
        rep.stat(&format!("decode:{}", death.class()), 1);
        rep.nontrivial(fnv_str(&format!("{}|{}|{}", p.edit, r.name(), death.class())));
        // is it the reader-type decode that dies, or already the plain round trip (C09)?
        let sig = format!("type_evolution|decode_killed_process|rep={}|cause=unclassified", ver_name(r));
        let v = values.get(vi).cloned();
        rep.violation(
            sig,
            format!(
                "{} process died while deserializing the writer's sample with the reader type: {} ; writer {} reader {} value {}",
                r.name(),
                death.detail(),
                ty_to_json(&p.w).to_string(),
                ty_to_json(&p.r).to_string(),
                v.as_ref().map(|x| val_to_json(&p.w, x).to_string()).unwrap_or_default()
            ),
            pair_json(&p)
                .set("rep", r.name())
                .set("value", v.as_ref().map(|x| val_to_json(&p.w, x)).unwrap_or(Json::Null)),
        );
    });
    let _ = std::fs::remove_dir_all(&dir);
    rep
}
