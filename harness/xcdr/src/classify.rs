//! Closed, enumerated root-cause classes for signatures (C09, C10, C11, C39).
//!
//! A failing case gets the name of a class only when the class' predicate is VERIFIED ON THAT CASE -
//! by an experiment that isolates the cause (the same value in an encoding that differs only in the
//! suspected construct decodes correctly) or by replaying on the very bytes what the defective code
//! does. Everything else gets `cause=unclassified|...`, which no known finding can match, so a new kind
//! of failure - also one that comes back after having been repaired - is reported as a violation.
//!
//! Classes (file:line as of /repo b28f9ea; all open, see KNOWN_FINDINGS.txt):
//!
//! * `xcdr2_lc5_on_primitive_sequence` (S1; C09 XCDR2, C10 encode XCDR2, possible in C39 XCDR2)
//!   dds/src/xtypes/serializer.rs:568-577 (EMheader1::write_header): LC 5 is chosen for every member of
//!   kind SEQUENCE. For sequence<2/4/8/16-byte primitive> the NEXTINT that LC 5 shares with the value is
//!   the element COUNT, so the member size 4+NEXTINT is wrong; a reader that skips the member
//!   (deserializer.rs:482,500) lands inside it. Verified: dust-dds' bytes are byte-identical to the
//!   reference encoder driven to dust-dds' length codes (`LcPolicy::DustLike`) and differ from the same
//!   encoding with LC 4 in exactly those places (`LcPolicy::DustLikeRepaired`, a legitimate encoding); for a
//!   decode failure additionally: dust-dds decodes that repaired encoding of the same value correctly.
//!   Masks nothing.
//!
//! * `xcdr2_lc6_lc7_nextint_not_rewound_by_reader` (S2; C10 decode_lc_optimized XCDR2)
//!   dds/src/xtypes/deserializer.rs:495-497 (EncodingVersion2::seek_to_pid): `if lc == 5` - the NEXTINT of
//!   LC 6 / LC 7 is not given back to the member value (rule (22): IF LC >= 5), the sequence length is
//!   read from the first element. Verified: the reference bytes use LC 6 or 7, and the same value with
//!   LC 4 in exactly those places (`LcPolicy::OptimizedLc5Only`) decodes correctly. Masks nothing.
//!
//! * `xcdr2_mutable_member_lookup_not_bounded_by_dheader` (S3; C09 XCDR2, C10 decode XCDR2, C39 XCDR2)
//!   dds/src/xtypes/deserializer.rs:468-503 (seek_to_pid walks EMHEADERs until the reader's buffer ends),
//!   :568-579 / :589-606 (deserialize_mstruct_type / deserialize_mmember never cut the buffer at
//!   object start + DHEADER, unlike deserialize_appendable_type :666-677): a member that is ABSENT from a
//!   mutable structure which is not the last thing in the buffer is searched in the bytes after the
//!   object; any 4-aligned word there whose low 28 bits equal the member id is taken for its EMHEADER.
//!   Verified by replaying that walk on the bytes dust-dds read (objects located by the independent
//!   decoder): some absent member is found beyond the end of its object, and - when the deserializer
//!   returned a value - the first wrong member is that member (same type: exactly, as `member_invented`, or
//!   a `member_lost` ancestor of it when the bogus read hits the end of an enclosing appendable object;
//!   evolved reader type: on the same member path). Unavoidably masked: a second defect in a case that
//!   contains such a false match, if the deserializer returns an error (an error has no location) or if
//!   it shows at the same member first.
//!
//! * `reader_has_more_trailing_members_reads_padding_or_nothing` (S4; C39 XCDR1)
//!   dds/src/xtypes/deserializer.rs:692-704 (deserialize_top_level_type passes buffer[4..] including the
//!   padding announced in the encapsulation options), :1254-1272 (an appendable reader type stops at
//!   NotEnoughData only): trailing members the writer did not send are read from the 1-3 padding bytes.
//!   Verified: the options announce padding, and the same bytes with the padding removed (options 0)
//!   decode correctly with the reader type. Masks nothing.
//!
//! * `xcdr1_trailing_mutable_union_not_sent_fails_with_invalid_id` (S7; C39 XCDR1; was hidden under S4's label)
//!   dds/src/xtypes/deserializer.rs:362-394 (EncodingVersion1::deserialize_munion_type): at the end of the
//!   data the failed lookup of the discriminator is swallowed (:337-345) and :372
//!   get_discriminator_id_as_i32 -> get_value(0) fails with InvalidId(0); deserialize_fstruct_type
//!   :1262-1266 lets an appendable reader type stop at NotEnoughData only, so a trailing member of (or
//!   beginning with) a MUTABLE union type that the writer's type does not have makes the whole sample
//!   undecodable. Verified: the error is InvalidId, and the same bytes (padding removed) decode correctly
//!   with the reader type in which only the extensibility of the unions inside the reader-only members
//!   is changed to FINAL. Masks nothing.
//!
//! * `assignability_ignores_nested_types` (S6; C39 XCDR1 + XCDR2)
//!   dds/src/xtypes/type_object.rs:2626-2639 (is_assignable_from_w_type_consistency): an EK_COMPLETE member
//!   type is assignable from any other EK_COMPLETE type (only the hash is available there).
//!   Verified: the pair is not assignable by construction, the API says it is, and the two types differ
//!   ONLY inside structure-typed members (same extensibility, same member ids / names / flags, every
//!   other member type identical); the writer type's own round trip of the value works (C39 precondition),
//!   so decoding fails because of that difference. Masks nothing.
//!
//! * `key_marks_in_nonkey_nested_struct_flattened_by_member_id` (S5; C11)
//!   dds/src/dcps/xtypes_glue/key_and_instance_handle.rs:26-35 (type) and :85-99 (data): @key members
//!   found inside NON-key, non-optional structure members are flattened into one key holder that is
//!   indexed by member id; ids of different structures collide (value overwritten: different keys, same
//!   handle; or a value of another type: InvalidType). Verified: replaying that flattening on the
//!   minimised type yields the same member id twice (for `different_key_same_handle`: the id of the
//!   top-level key member that was changed is one of them). Unavoidably masked: another defect with the
//!   same verdict in a type that has such a collision on that id.
use crate::refenc::{self, LcPolicy, MemberOrder, MutObj, Opts, Rep, Ver};
use xcdrlib::model::*;

pub const S1: &str = "xcdr2_lc5_on_primitive_sequence";
pub const S2: &str = "xcdr2_lc6_lc7_nextint_not_rewound_by_reader";
pub const S3: &str = "xcdr2_mutable_member_lookup_not_bounded_by_dheader";
pub const S4: &str = "reader_has_more_trailing_members_reads_padding_or_nothing";
pub const S5: &str = "key_marks_in_nonkey_nested_struct_flattened_by_member_id";
pub const S6: &str = "assignability_ignores_nested_types";
pub const S7: &str = "xcdr1_trailing_mutable_union_not_sent_fails_with_invalid_id";

/// Result of running dust-dds' deserializer (with the reader type of the case) on some bytes, judged
/// with the oracle of the check that asks.
pub enum Probe {
    Ok,
    /// wrong value; path of the first difference as the check prints it (`a.[].b:kind`)
    Wrong(String),
    /// the deserializer returned an error
    Error,
    /// panic, harness problem: never explained by a known class
    Other,
}

#[derive(Clone, Copy, PartialEq, Eq, Debug)]
pub enum BytesFrom {
    /// dust-dds' own serializer (C09, C39)
    DustWriter,
    /// reference encoder, plain length codes (C10 decode_lc_plain)
    RefPlain,
    /// reference encoder, LC 5/6/7 where applicable (C10 decode_lc_optimized)
    RefOptimized,
}

pub struct DecodeCase<'a> {
    /// type and value that were serialized
    pub wt: &'a Ty,
    pub wv: &'a Val,
    /// type dust-dds deserialized with (= wt except in C39)
    pub rt: &'a Ty,
    pub rep: Rep,
    /// the bytes dust-dds failed on
    pub bytes: &'a [u8],
    pub from: BytesFrom,
    /// how it failed on them (`Probe::Wrong` / `Probe::Error`)
    pub outcome: Probe,
}

fn x2_opts<'h>(policy: LcPolicy, order: MemberOrder, hint: Option<&'h [u8]>) -> Opts<'h> {
    Opts {
        origin_restore: true,
        lc_policy: policy,
        order,
        hint,
    }
}

/// If `dust` is a correct encoding of (t, v) except for dust-dds' LC 5 on non-empty sequences of a
/// 2/4/8/16-byte primitive (and really contains one): the same bytes with that one thing put right.
pub fn dust_lc5_quirk_repaired(t: &Ty, v: &Val, rep: Rep, dust: &[u8]) -> Option<Vec<u8>> {
    if rep.ver() != Ver::X2 {
        return None;
    }
    for order in [MemberOrder::Declaration, MemberOrder::ById] {
        let like = refenc::encode_top(t, v, rep, x2_opts(LcPolicy::DustLike, order, None)).ok()?;
        if like.bytes != dust {
            continue;
        }
        let repaired = refenc::encode_top(t, v, rep, x2_opts(LcPolicy::DustLikeRepaired, order, None)).ok()?;
        if repaired.bytes != dust {
            return Some(repaired.bytes);
        }
    }
    None
}

/// What EncodingVersion2::seek_to_pid does when deserialize_mmember looks for member `id` of the object
/// whose first EMHEADER is at `o.start`: true if it "finds" the member at or beyond the end of the object.
/// Offsets are absolute (the reader's buffer starts at 4, which keeps the 4-alignment).
fn lookup_false_match(b: &[u8], le: bool, o: &MutObj, id: u32) -> bool {
    let limit = o.limit.min(b.len());
    let rd = |at: usize| -> Option<u32> {
        if at + 4 > limit {
            return None;
        }
        let w = [b[at], b[at + 1], b[at + 2], b[at + 3]];
        Some(if le { u32::from_le_bytes(w) } else { u32::from_be_bytes(w) })
    };
    let mut pos = o.start;
    loop {
        pos = (pos + 3) & !3;
        if pos > limit {
            return false;
        }
        let at = pos;
        let em = match rd(pos) {
            Some(x) => x,
            None => return false,
        };
        pos += 4;
        let lc = (em >> 28) & 7;
        let length: u64 = match lc {
            0 => 1,
            1 => 2,
            2 => 4,
            3 => 8,
            _ => {
                let n = match rd(pos) {
                    Some(x) => x as u64,
                    None => return false,
                };
                pos += 4;
                match lc {
                    4 | 5 => n,
                    6 => n * 4,
                    _ => n * 8,
                }
            }
        };
        if em & 0x0fff_ffff == id & 0x0fff_ffff {
            return at >= o.end;
        }
        if length > u32::MAX as u64 || pos as u64 + length > limit as u64 {
            return false;
        }
        pos += length as usize;
    }
}

/// Member paths (object path + member name) of the absent members that dust-dds' lookup finds beyond
/// the end of their object in `bytes`, read with type `rt`. Empty if the bytes are not well formed.
pub fn lookup_false_matches(rt: &Ty, bytes: &[u8]) -> Vec<Vec<String>> {
    let (d, _) = match refenc::decode_body_as_reader(rt, bytes) {
        Ok(x) => x,
        Err(_) => return Vec::new(),
    };
    if d.rep.ver() != Ver::X2 {
        return Vec::new();
    }
    let mut out = Vec::new();
    for o in &d.mut_objs {
        for (id, name) in &o.absent {
            if lookup_false_match(bytes, d.rep.le(), o, *id) {
                let mut p = o.path.clone();
                p.push(name.clone());
                out.push(p);
            }
        }
    }
    out
}

/// (path tokens, kind) of a first-difference string such as `m3.[].m4.m5:member_invented`,
/// `f0.x0:new_member_not_default`, `m5.value_differs`, `m1.union:other_case`
fn split_diff(d: &str) -> (Vec<String>, String) {
    let mut toks: Vec<String> = d.split('.').map(|s| s.to_string()).collect();
    let last = toks.pop().unwrap_or_default();
    let kind = match last.split_once(':') {
        Some((name, kind)) => {
            if name != "union" {
                toks.push(name.to_string());
            }
            kind.to_string()
        }
        None => last,
    };
    (toks, kind)
}

fn is_prefix(a: &[String], b: &[String]) -> bool {
    a.len() <= b.len() && a.iter().zip(b.iter()).all(|(x, y)| x == y)
}

/// Root cause of a deserialization failure (C09 `value_not_restored`, C10 `dec_fail`, C39 decode
/// failures in XCDR2). `probe` runs dust-dds on other bytes for the same value.
pub fn decode_cause(c: &DecodeCase, probe: &mut dyn FnMut(&[u8]) -> Probe) -> Option<&'static str> {
    if c.rep.ver() != Ver::X2 {
        // every XCDR1 deserializer defect known so far has been repaired
        return None;
    }
    let mut bytes: Vec<u8> = c.bytes.to_vec();
    let mut diff: Option<String> = match &c.outcome {
        Probe::Wrong(d) => Some(d.clone()),
        Probe::Error => None,
        _ => return None,
    };
    let carry_on = |r: Probe, b: Vec<u8>, bytes: &mut Vec<u8>, diff: &mut Option<String>| -> bool {
        match r {
            Probe::Wrong(d) => {
                *bytes = b;
                *diff = Some(d);
                true
            }
            Probe::Error => {
                *bytes = b;
                *diff = None;
                true
            }
            _ => false,
        }
    };
    match c.from {
        BytesFrom::DustWriter => {
            if let Some(repaired) = dust_lc5_quirk_repaired(c.wt, c.wv, c.rep, &bytes) {
                match probe(&repaired) {
                    Probe::Ok => return Some(S1),
                    // also without the LC 5 defect the value is not restored: go on with those bytes
                    r => {
                        if !carry_on(r, repaired, &mut bytes, &mut diff) {
                            return None;
                        }
                    }
                }
            }
        }
        BytesFrom::RefOptimized => {
            let opt = refenc::encode_top(c.wt, c.wv, c.rep, x2_opts(LcPolicy::Optimized, MemberOrder::Declaration, None)).ok()?;
            if opt.bytes == bytes && (opt.used.contains("lc6") || opt.used.contains("lc7")) {
                let alt = refenc::encode_top(c.wt, c.wv, c.rep, x2_opts(LcPolicy::OptimizedLc5Only, MemberOrder::Declaration, None)).ok()?;
                match probe(&alt.bytes) {
                    Probe::Ok => return Some(S2),
                    r => {
                        if !carry_on(r, alt.bytes, &mut bytes, &mut diff) {
                            return None;
                        }
                    }
                }
            }
        }
        BytesFrom::RefPlain => {}
    }
    let fms = lookup_false_matches(c.rt, &bytes);
    if fms.is_empty() {
        return None;
    }
    let same_type = std::ptr::eq(c.wt, c.rt) || c.wt == c.rt;
    let located = match &diff {
        // an error carries no location
        None => true,
        Some(d) => {
            let (toks, kind) = split_diff(d);
            if same_type {
                // the absent member gets a value; or reading that "value" runs into the end of an enclosing
                // XCDR2 appendable object (the reader's buffer is cut there, :671-673) and the NotEnoughData
                // makes deserialize_fstruct_type (:1262-1266) stop silently at the member that contains
                // the object, which is then lost
                (kind == "member_invented" && fms.iter().any(|p| *p == toks))
                    || (kind == "member_lost" && fms.iter().any(|p| toks.len() < p.len() && is_prefix(&toks, p)))
            } else {
                fms.iter().any(|p| is_prefix(p, &toks) || is_prefix(&toks, p))
            }
        }
    };
    if located { Some(S3) } else { None }
}

/// Root cause of a byte difference between dust-dds' serializer and the reference (C10 encode).
pub fn encode_cause(t: &Ty, v: &Val, rep: Rep, dust: &[u8]) -> Option<&'static str> {
    dust_lc5_quirk_repaired(t, v, rep, dust).map(|_| S1)
}

/// C39, S6: do the two types differ only inside structure-typed members?
pub fn differ_only_in_nested_struct_members(w: &Ty, r: &Ty) -> bool {
    let (ws, rs) = match (w, r) {
        (Ty::Struct(a), Ty::Struct(b)) => (a, b),
        _ => return false,
    };
    if ws.ext != rs.ext || ws.members.len() != rs.members.len() {
        return false;
    }
    let mut nested_differs = false;
    for (a, b) in ws.members.iter().zip(rs.members.iter()) {
        if a.id != b.id || a.name != b.name || a.optional != b.optional || a.key != b.key || a.must_understand != b.must_understand {
            return false;
        }
        if a.ty != b.ty {
            match (&a.ty, &b.ty) {
                (Ty::Struct(_), Ty::Struct(_)) => nested_differs = true,
                _ => return false,
            }
        }
    }
    nested_differs
}

/// C11, S5: member ids that occur more than once in dust-dds' flattened key holder
/// (KeyHolderType::from_dynamic_type: key members, and recursively the key members of non-key,
/// non-optional structure members, in one list indexed by member id).
pub fn flattened_key_id_collisions(t: &Ty) -> Vec<u32> {
    fn fill(t: &Ty, out: &mut Vec<u32>) {
        if let Ty::Struct(s) = t {
            for m in &s.members {
                if m.key {
                    out.push(m.id);
                } else if matches!(&m.ty, Ty::Struct(_)) && !m.optional {
                    fill(&m.ty, out);
                }
            }
        }
    }
    let mut ids = Vec::new();
    fill(t, &mut ids);
    let mut dup: Vec<u32> = ids.iter().copied().filter(|i| ids.iter().filter(|j| *j == i).count() > 1).collect();
    dup.sort();
    dup.dedup();
    dup
}

/// Panic sites: none is a known finding any more (seek_to_pid NEXTINT overflow ef104cf and the PID u16
/// overflow 97ae400 are repaired), so every site stays spelled out.
pub fn panic_cause(sig: &str) -> String {
    format!("unclassified|site={}", sig)
}

pub fn ver_name(ver: Ver) -> &'static str {
    if ver == Ver::X1 { "XCDR1" } else { "XCDR2" }
}
