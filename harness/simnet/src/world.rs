//! Glue: one simulated "world" = executor + network + a real DomainParticipantFactoryAsync.
use crate::exec::{RunStats, Sim, SimConfig};
use crate::net::{Net, SimTransport};
use dust_dds::dds_async::configuration::DustDdsConfigurationBuilder;
use dust_dds::dds_async::domain_participant_factory::DomainParticipantFactoryAsync;
use std::future::Future;
use std::rc::Rc;
use std::sync::Arc;
use std::sync::atomic::{AtomicU32, Ordering};

pub type Factory = DomainParticipantFactoryAsync<SimTransport>;

#[derive(Clone)]
pub struct World {
    pub sim: Sim,
    pub net: Arc<Net>,
    pub factory: Rc<Factory>,
}

#[derive(Clone, Debug)]
pub struct WorldConfig {
    pub sim: SimConfig,
    pub fragment_size: usize,
    pub domain_tag: String,
    pub announcement_interval_ms: u64,
}

impl Default for WorldConfig {
    fn default() -> Self {
        WorldConfig {
            sim: SimConfig::default(),
            fragment_size: 1344,
            domain_tag: String::new(),
            announcement_interval_ms: 5000,
        }
    }
}

/// Every world in a process gets a distinct app id, so that participant handles (and therefore
/// stale mails left in dust-dds' process-global mail channel by an earlier world) never alias.
static WORLD_COUNTER: AtomicU32 = AtomicU32::new(1);

/// Build a world, run `scenario` in it to completion (or budget), tear everything down.
pub fn run_world<T: 'static, Fut: Future<Output = T> + 'static>(
    cfg: &WorldConfig,
    scenario: impl FnOnce(World) -> Fut,
) -> (Option<T>, RunStats, Arc<Net>) {
    let sim = Sim::new(&cfg.sim);
    let net = Net::new(&sim, cfg.sim.seed, cfg.fragment_size);
    let n = WORLD_COUNTER.fetch_add(1, Ordering::Relaxed);
    let app_id = n.to_be_bytes();
    let host_id = [0x7f, 0, 0, (std::process::id() & 0xff) as u8];
    let configuration = DustDdsConfigurationBuilder::new()
        .domain_tag(cfg.domain_tag.clone())
        .participant_announcement_interval(core::time::Duration::from_millis(
            cfg.announcement_interval_ms,
        ))
        .build()
        .expect("configuration");
    let factory = DomainParticipantFactoryAsync::new(
        sim.runtime(),
        app_id,
        host_id,
        SimTransport { net: net.clone() },
        configuration,
    );
    let world = World {
        sim: sim.clone(),
        net: net.clone(),
        factory: Rc::new(factory),
    };
    let _pump = sim.spawn_local(net.clone().pump(sim.clone()));
    let fut = scenario(world);
    let default_case = crate::hang::set_default_case(cfg.sim.seed);
    let (r, stats) = sim.run(&cfg.sim, fut);
    if default_case {
        crate::hang::clear_case();
    }
    (r, stats, net)
}
