#!/usr/bin/env python3
"""Write seeded/<id>/meta.json from the table below + the signatures recorded in seeded/<id>/checks.txt."""
import json, os, re, glob
T = {
 "C01-frag-arrival-order": ("C01", "fragment reassembly appends buffered DATA_FRAGs in arrival order instead of by fragment number", "a reliable fragmented sample whose fragments arrive out of order (loss + NACK_FRAG repair, or reordering)", ["C05"]),
 "C02-frag-lookup-ignores-seqnum": ("C02", "reconstruct_data_from_frag looks payload pieces up by fragment number only, not by sequence number", "BEST_EFFORT reader, fragmented samples, a fragment of an earlier sample lost so that its other fragments linger while the next fragmented sample completes", ["C01", "C05"]),
 "C03-ack-by-any-reader": ("C03", "a change counts as acknowledged as soon as ANY matched reliable reader acknowledged it", "two matched reliable readers with different acknowledgement progress while wait_for_acknowledgments is pending", []),
 "C04-nack-answers-prematch-data": ("C04", "an ACKNACK from a VOLATILE late joiner is answered with DATA written before the match when the GAP was lost", "late-joining volatile reader + loss of the GAP datagram", []),
 "C05-retransmitted-frag-reader-id": ("C05", "retransmitted DATA_FRAGs carry ENTITYID_UNKNOWN as reader id, defeating duplicate detection by whole-submessage equality; completeness is decided by counting", "an original fragment delayed past the HEARTBEAT/NACK_FRAG round trip while another fragment of the same sample is lost", ["C01"]),
 "C06-nackfrag-scan-unbounded": ("C06", "the NACK_FRAG scan after a partial fragment + HEARTBEAT walks the whole announced sequence-number range", "a datagram sequence: one fragment of a sample, then a HEARTBEAT announcing a huge range", []),
 "C08-big-endian-seqnum-rotate": ("C08", "SequenceNumber decoding reads 8 bytes at once and rotates by 32 bits unconditionally (right only for little endian)", "a received big-endian submessage carrying a sequence number", []),
 "C13-locator-scan-stops-at-gap": ("C13", "ParameterList::get_locator_list stops at the first parameter after a run of the requested PID", "an announcement whose locators of one kind are separated by another (e.g. unknown vendor) parameter", []),
 "C14-carry-off-by-one": ("C14", "nanosecond carry in Time/Duration addition uses `>` instead of `>=` 10^9", "two nanosecond parts that sum to exactly 1_000_000_000", []),
 "C15-incompatible-never-reevaluated": ("C15", "the matching pass skips endpoints already recorded as incompatible", "a pair first discovered incompatible that becomes compatible through set_qos on a changeable policy", ["C16"]),
 "C16-unmatch-only-on-first-incompatibility": ("C16", "a discovered reader is un-matched only the first time it is seen incompatible", "incompatible -> compatible -> incompatible again on one reader (mutable policy)", []),
 "C17-spdp-only-new-view-state": ("C17", "participant announcements are processed only when the builtin sample's view state is NEW", "a participant whose lease expired (partition) and that announces itself again", []),
 "C18-replace-oldest-of-any-kind": ("C18", "KEEP_LAST replaces the first stored sample of the instance of any kind (may be a dispose marker)", "write, dispose, then depth+1 more writes on one instance without a take", ["C19"]),
 "C19-instances-counted-from-alive-only": ("C19", "instances whose stored samples are all not-alive no longer count towards max_instances", "max_instances reached, an instance disposed (its data sample replaced/taken), then a new instance", []),
 "C20-generation-rank-vs-all-stored": ("C20", "generation_rank is computed against the newest STORED sample instead of the newest sample in the returned collection", "depth > 1, instance reborn while older-generation samples are stored, collection cut by max_samples or masks", []),
 "C21-insert-index-before-eviction": ("C21", "BY_SOURCE_TIMESTAMP insert index computed before the KEEP_LAST eviction (stale by one)", "KEEP_LAST depth >= 2 full, a sample arriving with a stamp older than a stored one behind the evicted sample", []),
 "C22-mark-viewed-only-for-newest-generation": ("C22", "an instance is marked NOT_NEW only if the access returned a sample of its newest generation", "reborn instance, older-generation samples pending, partial access (max_samples / masks)", ["C20"]),
 "C23-next-instance-first-greater-in-arrival-order": ("C23", "next instance = first greater handle in arrival order instead of the smallest greater handle", "instances becoming known to the reader in non-ascending handle order", []),
 "C24-owner-removal-drops-ownership": ("C24", "when the owner writer is removed the instance is left without owner instead of handed to the strongest remaining writer", ">= 3 exclusive writers, owner deleted/lost, a non-strongest writer writes first", []),
 "C25-filter-memory-reset-on-rebirth": ("C25", "the time-based filter forgets the last accepted stamp when a not-alive instance becomes alive again", "accept, take, dispose/unregister, then a sample within minimum_separation of the taken one", []),
 "C26-int-filter-continue-outer": ("C26", "a sample failing the content filter skips the rest of the DATA submessages of the same datagram", "several DATA submessages in one datagram, a failing one before passing ones", []),
 "C27-ack-watermark-max": ("C27", "is_change_acknowledged uses the maximum acknowledged sequence number over the matched reliable readers", "two reliable readers with different progress at a write hitting a full KEEP_LAST instance", ["C01"]),
 "C28-write-after-unregister-not-reregistered": ("C28", "write() on a previously unregistered instance does not register it again", "register/write, unregister_instance, write, then lookup_instance/dispose/unregister", []),
 "C29-announced-lifespan-from-topic": ("C29", "the writer announces the topic's lifespan instead of its own", "writer lifespan differs from the topic QoS; sample delayed beyond the writer's lifespan", []),
 "C30-deadline-rearmed-from-detection-time": ("C30", "after a miss the deadline is re-armed from the detection time instead of the period boundary", "several consecutive missed periods with a worker that detects late (drift accumulates)", []),
 "C31-clamp-only-seconds": ("C31", "the overdue-duty sleep clamp looks at the seconds part only", "a duty overdue by less than a second (negative sub-second remainder)", []),
 "C32-condition-remembers-one-waiter": ("C32", "a StatusCondition keeps only the last blocked waiter's notification sender", "two WaitSets blocked on the same condition", []),
 "C33-data-on-readers-once-per-pass": ("C33", "on_data_on_readers is sent once per processing pass; further changes of the pass fall through to DATA_AVAILABLE", "subscriber mask with DATA_ON_READERS, some DATA_AVAILABLE mask enabled, >= 2 changes for one subscriber in one pass", []),
 "C34-pop-then-register-in-two-sections": ("C34", "MpscReceiverFuture::poll pops in one critical section and registers its waker in a second one", "a send (or last-sender drop) between the two sections, sender on another thread", []),
 "C35-key-in-use-iterator-hoisted": ("C35", "the keys-in-use iterator is built once outside the candidate search loop (consumed after the first candidate)", "entity counter wrap-around with long-lived entities occupying the next keys", []),
 "C36-deleted-handle-reused": ("C36", "a deleted publisher/subscriber handle is handed out again to the next sibling", "delete an entity, create a sibling, then use the stale handle", []),
 "C37-set-qos-default-skips-checks": ("C37", "DataWriter::set_qos(QosKind::Default) skips consistency/immutability checks", "enabled writer, publisher default QoS changed in an immutable policy, then set_qos(Default)", []),
 "C38-fragment-size-truncating-cast": ("C38", "set_fragment_size narrows the argument to u16 before the range check", "a value >= 65544 whose low 16 bits fall in 8..=65000", []),
 "C21b-insert-index-within-instance-subsequence": ("C21", "the BY_SOURCE_TIMESTAMP insert position is searched in the per-instance subsequence but used as an index into the whole sample list", ">= 2 instances coexisting in the reader cache with another instance's samples stored ahead, and a sample arriving late for its instance", []),
 "C23b-take-next-instance-stops-at-first-empty": ("C23", "take_next_instance takes from the very next handle only and returns its NoData instead of walking on", "an instance earlier in handle order with no sample matching the masks (all read under NOT_READ, or fully taken) ahead of one that matches", []),
 "C19b-unregistered-instances-not-counted-in-max-samples": ("C19", "the writer's max_samples total is summed over registered instances only", "KEEP_ALL writer with finite max_samples filled up, unregister_instance on an instance that still holds samples, then another write", []),
 "C42-sleep-registers-first-waker-only": ("C42", "Sleep::poll registers its wake with the timer thread only on the first poll", "a Sleep polled by different wakers before its deadline (block_timeout then block_on, migration) or reset()", []),
 "C07-inline-qos-offset-checked-against-datagram": ("C07", "octetsToInlineQos of DATA / DATA_FRAG is validated against the bytes left in the datagram instead of the submessage's own length", "a DATA/DATA_FRAG submessage followed by another submessage or trailing bytes, with octetsToInlineQos + 4 between the submessage length and the bytes left", ["C06"]),
 "C09-xcdr1-origin-taken-before-header": ("C09", "XCDR1 serialize_mmember records the position to resume the enclosing alignment before the 4-byte parameter header instead of after it", "XCDR1, a parameter-list member (@optional, nested mutable) followed by an 8-byte aligned member in the enclosing object", ["C10"]),
 "C10-xcdr1-origin-not-restored-for-absent-optional": ("C10", "XCDR1 alignment origin is restored only when the optional member is present", "XCDR1, final/appendable struct with an absent @optional member at an offset = 0 mod 8, followed by an 8-byte aligned member", ["C09"]),
 "C11-alive-sample-key-from-key-holder": ("C11", "when a received change has no key hash the key of an ALIVE sample is deserialized from the front of the payload as if it were the key holder", "no key hash in the message (fragmented sample, foreign writer) and key members that are not the leading members of the type", []),
 "C12-max-key-size-array-padding-per-element": ("C12", "maximum serialized key size of array / bounded sequence key members charges the first element's alignment padding once per element", "a misaligned array key member of > 1 elements whose true maximum key size is <= 16 but whose over-estimate exceeds 16", []),
 "C39-xcdr2-mutable-lookup-order-dependent": ("C39", "XCDR2 mutable member lookup continues from the previously found member instead of the object start", "XCDR2 mutable types whose common members are in a different relative order on writer and reader side", []),
 "C40-auto-id-counter-monotone": ("C40", "derive(DdsType): the automatic member id counter of a mutable struct never decreases", "explicit ids in non-ascending order followed by members without id", []),
 "C41-optional-honoured-only-as-last-annotation": ("C41", "IDL compiler: @optional only takes effect when it is the member's last annotation", "a member with @optional followed by another annotation (e.g. @optional @id(3))", []),
 "C01b-empty-acknack-acks-highest-sent": ("C01", "an ACKNACK with an empty bitmap acknowledges everything the writer has sent so far (not just up to base-1)", "tail loss: the last sample's DATA and HEARTBEAT are lost while an older empty ACKNACK is still in flight, no further write", []),
 "C03b-removal-rechecks-only-when-no-reader-left": ("C03", "when a matched reader is removed a pending wait_for_acknowledgments is re-checked only if no reader is left", ">= 2 reliable readers, the unresponsive one removed while the wait is pending, the other has acknowledged everything", []),
 "C04b-gap-heartbeat-first-sn-after-hole": ("C04", "the HEARTBEAT sent with a GAP over a history hole announces first_sn = the sequence number after the hole", "late TRANSIENT_LOCAL reader, retained history with a hole in the middle (several instances, KEEP_LAST exceeded), loss of the DATA before the hole during catch-up", []),
 "C16b-departed-participant-only-first-reader-removed": ("C16", "when a participant departs only its first matched reader is removed from each local writer", "a remote participant with >= 2 readers matched with one local writer leaves without per-reader disposes (lease expiry, ignore_participant)", []),
 "C22b-disposed-instance-becomes-no-writers": ("C22", "a NOT_ALIVE_DISPOSED instance flips to NOT_ALIVE_NO_WRITERS when its last writer unregisters", "autodispose_unregistered_instances = false, explicit dispose, then every writer unregisters", []),
 "C24b-ignored-sample-refreshes-deadline": ("C24", "a dropped sample of a weaker non-owner writer refreshes the instance's deadline timestamp", "EXCLUSIVE + finite DEADLINE, owner falls silent, a weaker writer keeps writing faster than the period", []),
 "C28b-register-at-limit-not-idempotent": ("C28", "register_instance checks max_instances before looking the instance up", "writer with finite max_instances holding exactly that many instances, re-registering one of them", []),
 "C30b-deadline-scan-stops-at-disposed-instance": ("C30", "the offered-deadline scan stops at the first instance without a write time", ">= 2 instances written in order A, B; A disposed/unregistered; B idle for more than one period", []),
 "C32b-wait-loops-without-reregistering": ("C32", "WaitSet::wait loops on an empty trigger list without re-registering with its conditions", "the status is read (reset) by another task between the notification and the waiter's re-collection, then changes again", []),
 "C35b-subscriber-key-search-unbounded": ("C35", "the free subscriber key search has no end condition", "256 live subscribers in one participant and one more create_subscriber (the worker spins for ever)", []),
 "C02b-replayed-gap-moves-watermark-back": ("C02", "a GAP processed after the reader is already past its end moves the highest-received watermark backwards", "best-effort reader that received a GAP (late joiner), a duplicate of that GAP arriving after later samples, then a stale duplicate of one of those samples", []),
 "C17b-empty-remote-tag-accepted": ("C17", "a remote participant without domain tag parameter is accepted by a participant with a non-empty tag", "same domain id, local tag non-default, remote tag default / not transmitted", []),
 "C18b-max-samples-checked-before-replacement": ("C18", "the max_samples check no longer credits the sample that KEEP_LAST is about to replace", "KEEP_LAST reader with finite max_samples, all instances full, one more sample for a full instance", ["C19"]),
 "C20b-take-removal-after-sorting-indexes": ("C20", "take removes by binary search in an index list that was re-sorted into instance order", "take (not read) over >= 2 instances whose samples interleave in storage (A, B, A)", []),
 "C26b-filter-parameter-sign-stripped": ("C26", "integer filter parameters lose their sign", "content filter on an int32 member with a negative parameter", []),
 "C29b-repair-without-info-timestamp": ("C29", "repair DATA (answer to an ACKNACK) is sent without INFO_TS, so the reader-side lifespan check has no source timestamp", "first transmission lost, the repair delayed in the network beyond the sample's expiry", []),
 "C33b-writer-mask-without-listener-falls-through": ("C33", "a writer whose mask enables PUBLICATION_MATCHED but has no listener object is skipped, the status falls through to the publisher / participant listener", "writer created with NO_LISTENER and a non-empty mask, a listener enabled at a higher level", []),
 "C36b-content-filtered-topics-survive-delete-contained": ("C36", "delete_contained_entities keeps content-filtered topics whose related topic still exists at that moment (all of them)", "participant owning a content-filtered topic: delete_contained_entities then delete_participant", []),
}
NOTES = {
 "C02b-replayed-gap-moves-watermark-back": "initially MISSED (no GAP ever occurred in best-effort user traffic): a late-joining volatile best-effort reader was added to the C02 scenario, after which it is caught",
 "C29b-repair-without-info-timestamp": "initially MISSED (repairs were never delayed beyond expiry): path repair_delayed_in_network was added, after which it is caught",
 "C33b-writer-mask-without-listener-falls-through": "initially MISSED (configurations with a mask but no listener object were excluded by an assumption): levels with a mask and a nil listener were added with the DDS no-op-listener rule, after which it is caught",
 "C28b-register-at-limit-not-idempotent": "initially MISSED: no writer had a finite max_instances; limited writers and a slot oracle were added, after which it is caught",
 "C30b-deadline-scan-stops-at-disposed-instance": "initially MISSED: one instance per writer and no dispose/unregister; several instances with dispose/unregister of some of them were added, after which it is caught",
 "C32b-wait-loops-without-reregistering": "initially MISSED: no second task ever reset the status between the notification and the waiter's re-collection; raced-reset episodes (gated waiters) were added, after which it is caught",
 "C35b-subscriber-key-search-unbounded": "initially INCONCLUSIVE (a DDS task poll that never returns stalls the single-threaded simulation; only the wall-clock watchdog fired): a CPU-time hang monitor was added to the simulation (simnet/src/hang.rs), after which it is a VIOLATION",
 "C11-alive-sample-key-from-key-holder": "initially MISSED (the check compared handles in-process only; C01/C05 use a key-first type): the end-to-end half (keyident.rs) was added, after which it is caught",
 "C07-inline-qos-offset-checked-against-datagram": "caught by C07 at once; C06 initially MISSED it (its octetsToInlineQos class had no trailing submessage): class extended, after which C06 catches it too",
 "C27-ack-watermark-max": "initially MISSED by the C27 check (single reader); the scenario got a healthy-second-reader variant, after which it is caught",
 "C33-data-on-readers-once-per-pass": "initially MISSED: the scenario had no two readers under one subscriber; a sibling reader under the same subscriber was added, after which it is caught",
 "C42-sleep-registers-first-waker-only": "initially MISSED: no workload re-polled a Sleep with another waker or used reset(); case_repoll was added, after which it is caught",
 "C37-set-qos-default-skips-checks": "initially MISSED: set_qos was only called with QosKind::Specific; 30% of the steps now go through the factory default + QosKind::Default, after which it is caught",
 "C15-incompatible-never-reevaluated": "initially MISSED by C15 (caught by C16 only): C15 got a second verdict after DEADLINE/LATENCY_BUDGET updates, which also exposed a genuine defect (repaired in 0489047); patch rebased after that repair",
 "C19-instances-counted-from-alive-only": "initially MISSED: the model treated 'instances holding only notification samples do not count' as an admissible convention; an instance with any stored sample now counts under every convention",
 "C25-filter-memory-reset-on-rebirth": "initially MASKED by the open C25 known finding (same signature); the signature now distinguishes vs=last_accepted from vs=older_accepted, the known finding being the latter",
 "C06-nackfrag-scan-unbounded": "initially MISSED (only single hostile datagrams were generated); multi-datagram hostile sequences were added, after which it is caught",
 "C19b-unregistered-instances-not-counted-in-max-samples": "round 4: initially MISSED by C19 and C28: the writer-limit workload (scen_rc/wlim.rs) never unregistered an instance that still held samples before writing again; unregister_instance ops were added to its generator (the model keeps the stored samples in the totals), after which C19 catches it",
 "C21b-insert-index-within-instance-subsequence": "round 4: caught at once",
 "C23b-take-next-instance-stops-at-first-empty": "round 4: caught at once",
 "C13-locator-scan-stops-at-gap": "demonstration needs the cargo feature verif_hooks (see validation.txt)",
 "C34-pop-then-register-in-two-sections": "demonstration needs the cargo feature verif_hooks (see validation.txt)",
}
for d in sorted(glob.glob('/verif/seeded/*/')):
    name = os.path.basename(d.rstrip('/'))
    if name not in T:
        print('no table entry for', name); continue
    prop, change, needs, also = T[name]
    caught = {}
    last = {}
    f = d + 'checks.txt'
    if os.path.exists(f):
        cur = None
        for l in open(f):
            m = re.match(r'##### (C\d+) with', l)
            if m: cur = m.group(1); last[cur] = []; continue
            m = re.match(r'(VIOLATION|HELD|INCONCLUSIVE)', l)
            if m and cur: last[cur].append(m.group(1))
            m = re.match(r'  sig=(.*)', l)
            if m and cur: last[cur].append('sig=' + m.group(1).strip())
    for c, items in last.items():
        sigs = [i[4:] for i in items if i.startswith('sig=')]
        if 'VIOLATION' in items: caught[c] = sorted(set(sigs))[:6]
        elif 'HELD' in items: caught[c] = 'NOT caught (HELD) in the last recorded run'
        else: caught[c] = 'inconclusive in the last recorded run'
    meta = {"breaks_property": prop, "also_breaks": also, "source": "independent sub-agent given only the property text and its own scratch worktree of /repo",
            "change": change, "needs": needs, "caught_by(last recorded run per check)": caught,
            "validated": "tools/validate_seeded.sh in a scratch worktree of /repo: patch applies and compiles; cargo test --lib and the listed integration test files pass with the change; the demonstration passes without the change and fails with it (validation.txt, incl. reruns noted there); checks run with tools/mutrun.sh / tools/seeded_run.sh (git -C /repo apply, ./check quick, git -C /repo checkout -- .), output in checks.txt"}
    if name in NOTES: meta["note"] = NOTES[name]
    json.dump(meta, open(d + 'meta.json', 'w'), indent=1)
print('done')
