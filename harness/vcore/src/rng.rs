/// xoshiro256** seeded through splitmix64. Deterministic, no dependencies.
#[derive(Clone, Debug)]
pub struct Rng {
    s: [u64; 4],
}

fn splitmix(x: &mut u64) -> u64 {
    *x = x.wrapping_add(0x9E3779B97F4A7C15);
    let mut z = *x;
    z = (z ^ (z >> 30)).wrapping_mul(0xBF58476D1CE4E5B9);
    z = (z ^ (z >> 27)).wrapping_mul(0x94D049BB133111EB);
    z ^ (z >> 31)
}

impl Rng {
    pub fn new(seed: u64) -> Self {
        let mut x = seed;
        let s = [
            splitmix(&mut x),
            splitmix(&mut x),
            splitmix(&mut x),
            splitmix(&mut x),
        ];
        Rng { s }
    }
    /// Derive an independent stream.
    pub fn fork(&mut self, salt: u64) -> Rng {
        Rng::new(self.next_u64() ^ salt.wrapping_mul(0xD1342543DE82EF95))
    }
    pub fn next_u64(&mut self) -> u64 {
        let r = self.s[1].wrapping_mul(5).rotate_left(7).wrapping_mul(9);
        let t = self.s[1] << 17;
        self.s[2] ^= self.s[0];
        self.s[3] ^= self.s[1];
        self.s[1] ^= self.s[2];
        self.s[0] ^= self.s[3];
        self.s[2] ^= t;
        self.s[3] = self.s[3].rotate_left(45);
        r
    }
    pub fn next_u32(&mut self) -> u32 {
        (self.next_u64() >> 32) as u32
    }
    /// uniform in [0, n)
    pub fn below(&mut self, n: u64) -> u64 {
        if n == 0 {
            return 0;
        }
        // multiply-shift; bias is irrelevant for test generation
        ((self.next_u64() as u128 * n as u128) >> 64) as u64
    }
    pub fn usize(&mut self, n: usize) -> usize {
        self.below(n as u64) as usize
    }
    /// uniform in [lo, hi] inclusive
    pub fn range(&mut self, lo: i64, hi: i64) -> i64 {
        if hi <= lo {
            return lo;
        }
        let span = (hi as i128 - lo as i128 + 1) as u128;
        let r = (self.next_u64() as u128 * span) >> 64;
        (lo as i128 + r as i128) as i64
    }
    pub fn chance(&mut self, p: f64) -> bool {
        if p <= 0.0 {
            return false;
        }
        if p >= 1.0 {
            return true;
        }
        (self.next_u64() >> 11) as f64 / ((1u64 << 53) as f64) < p
    }
    pub fn f64(&mut self) -> f64 {
        (self.next_u64() >> 11) as f64 / ((1u64 << 53) as f64)
    }
    pub fn bool(&mut self) -> bool {
        self.next_u64() & 1 == 1
    }
    pub fn pick<'a, T>(&mut self, xs: &'a [T]) -> &'a T {
        &xs[self.usize(xs.len())]
    }
    pub fn shuffle<T>(&mut self, xs: &mut [T]) {
        for i in (1..xs.len()).rev() {
            let j = self.usize(i + 1);
            xs.swap(i, j);
        }
    }
    pub fn bytes(&mut self, n: usize) -> Vec<u8> {
        let mut v = Vec::with_capacity(n);
        while v.len() < n {
            let x = self.next_u64().to_le_bytes();
            let k = (n - v.len()).min(8);
            v.extend_from_slice(&x[..k]);
        }
        v
    }
}
