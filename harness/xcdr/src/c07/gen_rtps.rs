//! Valid RTPS datagrams built with dust-dds' own encoder (`RtpsMessageWrite`), every submessage kind,
//! field values spread over the whole ranges the constructors accept.
use dust_dds::rtps_messages::overall_structure::{RtpsMessageHeader, RtpsMessageWrite, Submessage};
use dust_dds::rtps_messages::submessage_elements::{
    Data, FragmentNumberSet, LocatorList, Parameter, ParameterList, SequenceNumberSet, SerializedDataFragment,
};
use dust_dds::rtps_messages::submessages::{
    ack_nack::AckNackSubmessage, data::DataSubmessage, data_frag::DataFragSubmessage, gap::GapSubmessage,
    heartbeat::HeartbeatSubmessage, heartbeat_frag::HeartbeatFragSubmessage,
    info_destination::InfoDestinationSubmessage, info_reply::InfoReplySubmessage,
    info_source::InfoSourceSubmessage, info_timestamp::InfoTimestampSubmessage, nack_frag::NackFragSubmessage,
    pad::PadSubmessage,
};
use dust_dds::rtps_messages::types::Time;
use dust_dds::transport::types::{EntityId, Locator, ProtocolVersion};
use std::sync::Arc;
use vcore::Rng;

pub const KINDS: [&str; 12] = [
    "DATA",
    "DATA_FRAG",
    "HEARTBEAT",
    "HEARTBEAT_FRAG",
    "ACKNACK",
    "NACK_FRAG",
    "GAP",
    "INFO_TS",
    "INFO_SRC",
    "INFO_DST",
    "INFO_REPLY",
    "PAD",
];

fn entity_id(r: &mut Rng) -> EntityId {
    const KNOWN: [[u8; 4]; 10] = [
        [0, 0, 0, 0],
        [0, 0, 1, 0xc1],
        [0, 1, 0, 0xc2],
        [0, 1, 0, 0xc7],
        [0, 0, 3, 0xc2],
        [0, 0, 3, 0xc7],
        [0, 0, 4, 0xc2],
        [0, 0, 4, 0xc7],
        [0, 3, 0, 0xc3],
        [0, 3, 0, 0xc4],
    ];
    if r.chance(0.5) {
        let k = r.pick(&KNOWN);
        EntityId::new([k[0], k[1], k[2]], k[3])
    } else {
        let b = r.bytes(4);
        EntityId::new([b[0], b[1], b[2]], *r.pick(&[0x02u8, 0x03, 0x04, 0x07, 0xc2, 0xc7, b[3]]))
    }
}

fn seqnum(r: &mut Rng) -> i64 {
    match r.below(8) {
        0 => 1,
        1 => r.range(1, 1000),
        2 => (1i64 << 32) - r.range(0, 3),
        3 => (1i64 << 32) + r.range(0, 3),
        4 => i64::MAX - 600 - r.range(0, 1000),
        5 => 0,
        6 => r.range(1, 1 << 40),
        _ => r.range(1, 100000),
    }
}

fn sn_set(r: &mut Rng) -> SequenceNumberSet {
    let base = seqnum(r).max(0);
    let n = *r.pick(&[0usize, 1, 2, 5, 32, 33, 255, 256]);
    let mut members = Vec::new();
    match r.below(4) {
        0 => {}
        1 => members.push(base + r.range(0, 255)),
        2 => {
            // dense prefix
            for i in 0..n.min(256) {
                members.push(base + i as i64);
            }
        }
        _ => {
            for _ in 0..r.below(20) {
                members.push(base + r.range(0, 255));
            }
            if r.chance(0.3) {
                members.push(base + 255);
            }
        }
    }
    SequenceNumberSet::new(base, members)
}

fn frag_set(r: &mut Rng) -> FragmentNumberSet {
    let base = match r.below(4) {
        0 => 1u32,
        1 => r.below(1000) as u32,
        2 => u32::MAX - 256 - r.below(100) as u32,
        _ => r.next_u32() >> r.below(20),
    };
    let base = base.min(u32::MAX - 300);
    let mut members = Vec::new();
    match r.below(4) {
        0 => {}
        1 => members.push(base + r.below(256) as u32),
        2 => {
            for i in 0..*r.pick(&[1u32, 31, 32, 33, 255, 256]) {
                members.push(base + i);
            }
        }
        _ => {
            for _ in 0..r.below(20) {
                members.push(base + r.below(256) as u32);
            }
        }
    }
    FragmentNumberSet::new(base, members)
}

fn locator(r: &mut Rng) -> Locator {
    let mut a = [0u8; 16];
    let b = r.bytes(16);
    if r.chance(0.7) {
        a[12..].copy_from_slice(&b[12..]);
    } else {
        a.copy_from_slice(&b);
    }
    let any = r.next_u32() as i32;
    let kind = *r.pick(&[1i32, 2, 0, -1, 0x01000001u32 as i32, any]);
    let port = r.next_u32() >> r.below(32);
    Locator::new(kind, port, a)
}

fn locator_list(r: &mut Rng) -> LocatorList {
    let n = *r.pick(&[0usize, 0, 1, 1, 2, 3, 8]);
    LocatorList::new((0..n).map(|_| locator(r)).collect())
}

fn param_list(r: &mut Rng) -> ParameterList {
    let n = r.below(5) as usize;
    let mut v = Vec::new();
    for _ in 0..n {
        let pid: i16 = *r.pick(&[0x0070i16, 0x0071, 0x0002, 0x0005, 0x0029, 0x0055, 0x0000, 0x7fff, -0x7fff, 0x0015]);
        let len = match pid {
            0x0070 => 16,
            0x0071 => 4,
            _ => *r.pick(&[0usize, 1, 3, 4, 8, 20, 100]),
        };
        let val: Arc<[u8]> = Arc::from(r.bytes(len).into_boxed_slice());
        v.push(Parameter::new(pid, val));
    }
    ParameterList::new(v)
}

fn payload(r: &mut Rng, max: usize) -> Vec<u8> {
    let n = match r.below(10) {
        0 => 0,
        1 => 1,
        2 => 4,
        3 => r.usize(64),
        4 => r.usize(2048),
        5 if max > 20000 => 10000 + r.usize(max - 10000),
        _ => r.usize(300),
    }
    .min(max);
    let mut b = r.bytes(n);
    if n >= 4 && r.chance(0.6) {
        // encapsulation header
        b[0] = 0;
        b[1] = *r.pick(&[0u8, 1, 2, 3, 6, 7, 8, 9, 10, 11]);
        b[2] = 0;
        b[3] = 0;
    }
    b
}

/// Build one submessage of the given kind into `out`.
fn build(kind: &str, r: &mut Rng, room: usize, out: &mut Vec<Box<dyn Submessage + Send>>) {
    match kind {
        "DATA" => {
            let q = r.chance(0.4);
            let (d, k) = match r.below(4) {
                0 => (false, false),
                1 => (false, true),
                _ => (true, false),
            };
            let pl = if d || k { payload(r, room) } else { Vec::new() };
            out.push(Box::new(DataSubmessage::new(
                q,
                d,
                k,
                r.chance(0.05),
                entity_id(r),
                entity_id(r),
                seqnum(r),
                if q { param_list(r) } else { ParameterList::empty() },
                Data::new(Arc::from(pl.into_boxed_slice())),
            )));
        }
        "DATA_FRAG" => {
            let q = r.chance(0.3);
            let pl = payload(r, room);
            let fs = *r.pick(&[1u16, 4, 64, 1024, 1344, 65535]);
            let n = pl.len();
            out.push(Box::new(DataFragSubmessage::new(
                q,
                r.chance(0.05),
                r.chance(0.2),
                entity_id(r),
                entity_id(r),
                seqnum(r),
                1 + r.below(100) as u32,
                1 + (n / fs as usize) as u16,
                fs,
                *r.pick(&[n as u32, n as u32 * 3 + 1, 70000, 1 << 20]),
                if q { param_list(r) } else { ParameterList::empty() },
                SerializedDataFragment::new(Data::new(Arc::from(pl.into_boxed_slice())), 0..n),
            )));
        }
        "HEARTBEAT" => {
            let first = seqnum(r).max(1);
            out.push(Box::new(HeartbeatSubmessage::new(
                r.bool(),
                r.bool(),
                entity_id(r),
                entity_id(r),
                first,
                first - 1 + r.range(0, 300),
                r.next_u32() as i32,
            )));
        }
        "HEARTBEAT_FRAG" => {
            out.push(Box::new(HeartbeatFragSubmessage::_new(
                entity_id(r),
                entity_id(r),
                seqnum(r),
                r.next_u32() >> r.below(32),
                r.next_u32() as i32,
            )));
        }
        "ACKNACK" => {
            out.push(Box::new(AckNackSubmessage::new(
                r.bool(),
                entity_id(r),
                entity_id(r),
                sn_set(r),
                r.next_u32() as i32,
            )));
        }
        "NACK_FRAG" => {
            out.push(Box::new(NackFragSubmessage::new(
                entity_id(r),
                entity_id(r),
                seqnum(r),
                frag_set(r),
                r.next_u32() as i32,
            )));
        }
        "GAP" => {
            out.push(Box::new(GapSubmessage::new(entity_id(r), entity_id(r), seqnum(r), sn_set(r))));
        }
        "INFO_TS" => {
            out.push(Box::new(InfoTimestampSubmessage::new(
                r.chance(0.2),
                Time::new(r.next_u32() >> r.below(32), r.next_u32()),
            )));
        }
        "INFO_SRC" => {
            let g = r.bytes(12);
            let mut gp = [0u8; 12];
            gp.copy_from_slice(&g);
            out.push(Box::new(InfoSourceSubmessage::_new(
                ProtocolVersion::new(2, r.below(6) as u8),
                [1, r.below(20) as u8],
                gp,
            )));
        }
        "INFO_DST" => {
            let g = r.bytes(12);
            let mut gp = [0u8; 12];
            gp.copy_from_slice(&g);
            out.push(Box::new(InfoDestinationSubmessage::new(gp)));
        }
        "INFO_REPLY" => {
            let m = r.bool();
            out.push(Box::new(InfoReplySubmessage::_new(
                m,
                locator_list(r),
                if m { locator_list(r) } else { LocatorList::new(Vec::new()) },
            )));
        }
        _ => out.push(Box::new(PadSubmessage::new())),
    }
}

pub struct ValidMsg {
    pub bytes: Vec<u8>,
    pub kinds: Vec<&'static str>,
}

/// A valid datagram with 0..=7 submessages. Every kind is chosen with equal probability; case
/// index based rotation guarantees that all twelve kinds appear within any 12 consecutive messages.
pub fn valid_message(r: &mut Rng, rot: u64) -> ValidMsg {
    let g = r.bytes(12);
    let mut gp = [0u8; 12];
    gp.copy_from_slice(&g);
    let header = RtpsMessageHeader::new(
        ProtocolVersion::new(2, *r.pick(&[1u8, 2, 3, 4, 5])),
        [1, *r.pick(&[0x01u8, 0x02, 0x03, 0x0f, 0x10, 0x14])],
        gp,
    );
    let n = match r.below(12) {
        0 => 0,
        1..=4 => 1,
        5..=7 => 2,
        8 | 9 => 3,
        10 => 5,
        _ => 7,
    };
    let mut subs: Vec<Box<dyn Submessage + Send>> = Vec::new();
    let mut kinds = Vec::new();
    let big = r.chance(0.03);
    for i in 0..n {
        let k = if i == 0 { KINDS[(rot % 12) as usize] } else { *r.pick(&KINDS) };
        kinds.push(k);
        // keep every submessage below the 16-bit octetsToNextHeader limit: the encoder's
        // truncation of longer bodies is C08's subject, here the seed must be a valid datagram
        build(k, r, if big { 60000 } else { 3000 }, &mut subs);
    }
    let refs: Vec<&(dyn Submessage + Send)> = subs.iter().map(|b| b.as_ref()).collect();
    let m = RtpsMessageWrite::new(&header, &refs);
    ValidMsg {
        bytes: m.buffer().to_vec(),
        kinds,
    }
}

/// A datagram made of very many minimal submessages (amplification probe: decoded size per wire byte).
pub fn flood(r: &mut Rng, total_len: usize) -> Vec<u8> {
    let mut out = Vec::with_capacity(total_len + 32);
    out.extend_from_slice(b"RTPS\x02\x04\x01\x10");
    out.extend_from_slice(&r.bytes(12));
    let kind = r.below(4);
    while out.len() + 4 <= total_len.max(24) {
        match kind {
            0 => out.extend_from_slice(&[0x01, 0x01, 0, 0]), // PAD, len 0
            1 => out.extend_from_slice(&[0x09, 0x03, 0, 0]), // INFO_TS invalidate, len 0
            2 => {
                // INFO_REPLY with zero locators
                out.extend_from_slice(&[0x0f, 0x01, 4, 0, 0, 0, 0, 0]);
            }
            _ => {
                // INFO_DST
                out.extend_from_slice(&[0x0e, 0x01, 12, 0]);
                out.extend_from_slice(&[7u8; 12]);
            }
        }
    }
    out
}
