//! Engine E4 `thr`: concurrency of primitives on real OS threads.
//!   thr c34 ...   worker channels (thread stress on shards >= --miri-shards, Miri on the others)
//!   thr c42 ...   std runtime: Sleep / Executor / block_on / block_timeout
mod c34;
mod c42;
mod miri;
mod wk;

use vcore::{Args, Report};

fn main() {
    let args = Args::parse();
    let cmd = args.pos.first().cloned().unwrap_or_default();
    let out = args.str("out", "-");
    let shard = args.u64("shard", 0);
    let nshards = args.u64("nshards", 1).max(1);
    match cmd.as_str() {
        "c34" => {
            let mut rep = Report::new("C34");
            let nmiri = if args.has("replay") { 0 } else { args.u64("miri-shards", 0).min(nshards.saturating_sub(1)) };
            if shard < nmiri {
                miri::run_miri(&args, &mut rep, shard, nmiri);
            } else {
                c34::run_stress(&args, &mut rep, shard - nmiri, nshards - nmiri);
            }
            rep.write(&out);
        }
        "c42" => {
            let mut rep = Report::new("C42");
            c42::run(&args, &mut rep, shard, nshards);
            rep.write(&out);
        }
        _ => {
            eprintln!("usage: thr <c34|c42> --seed N --shard I --nshards N --cases N --tier quick|thorough --out FILE");
            std::process::exit(2);
        }
    }
}
