#!/usr/bin/env python3
"""Regenerate the table of seeded changes in DESIGN.md (between the SEEDED_TABLE markers) from seeded/*/meta.json."""
import json, glob, os, re
rows = []
for f in sorted(glob.glob('/verif/seeded/*/meta.json')):
    m = json.load(open(f)); name = os.path.basename(os.path.dirname(f))
    cb = m.get("caught_by(last recorded run per check)", {})
    caught = []; missed = []
    for c, v in sorted(cb.items()):
        if isinstance(v, list):
            caught.append(f"{c} (`{v[0][:70].replace(chr(124), chr(92)+chr(124))}`" + (f" +{len(v)-1}" if len(v) > 1 else "") + ")")
        else:
            missed.append(f"{c}: {v}")
    note = m.get("note", "")
    rows.append(f"| `{name}` | {m['change']} | {m['needs']} | {'; '.join(caught) if caught else '—'}{(' / ' + '; '.join(missed)) if missed else ''} | {note} |")
table = ("| seeded change (dir under `seeded/`) | what it changes | needs, to manifest | caught by (first signature of the last recorded quick run) | history |\n|---|---|---|---|---|\n" + "\n".join(rows))
p = '/verif/DESIGN.md'; s = open(p).read()
if 'SEEDED_TABLE_PLACEHOLDER' in s:
    s = s.replace('SEEDED_TABLE_PLACEHOLDER', '<!-- SEEDED_TABLE_BEGIN -->\n' + table + '\n<!-- SEEDED_TABLE_END -->')
else:
    s = re.sub(r'<!-- SEEDED_TABLE_BEGIN -->.*?<!-- SEEDED_TABLE_END -->', lambda _: '<!-- SEEDED_TABLE_BEGIN -->\n' + table + '\n<!-- SEEDED_TABLE_END -->', s, flags=re.S)
open(p, 'w').write(s)
print(len(rows), 'rows')
