//! C30: deadline-missed counts increase once per missed period (offered: writer, requested: reader).
//!
//! One writer participant, one reader participant, fault-free network, virtual time. The scenario
//! records when every sample was written / could have reached the reader and every observation of
//! the deadline-missed statuses (status reads on the writer, listener callbacks on both sides,
//! status-condition trigger values). The oracle is a pure function of that history.
//!
//! Instance life cycle (1-4 instances per writer): in a share of the cases some instances are
//! disposed / unregistered by the writer at random points while the others stay alive and go idle.
//! An instance that stays alive (registered, not disposed) must be counted exactly, once per full
//! period without a sample, whatever happened to the other instances. For the instance that was
//! disposed / unregistered itself DDS 1.4 (2.2.3.7 DEADLINE: "each instance managed by the
//! DataWriter", "a new sample updating the value of each instance") leaves room, so from the
//! dispose / unregister until the next write of THAT instance every one of these is accepted:
//! (1) not monitored any more (dust-dds writer side), (2) monitored on as if nothing had happened,
//! (3) the dispose / unregister counts as an update that restarts the period (dust-dds reader side).
use crate::common::*;
use crate::rec::*;
use dust_dds::infrastructure::qos::{DataReaderQos, DataWriterQos, QosKind};
use dust_dds::infrastructure::qos_policy::*;
use dust_dds::infrastructure::status::{NO_STATUS, StatusKind};
use simnet::*;
use std::cell::RefCell;
use std::rc::Rc;
use std::sync::{Arc, Mutex};
use vcore::{Json, Report, Rng};

#[derive(Clone, Debug)]
struct P {
    d_w: i64,
    d_r: i64,
    n_inst: u32,
    /// level of the (single) listener enabled for OFFERED_DEADLINE_MISSED on the writer side
    w_lst: Option<u8>,
    /// 0: default enabled statuses (all), 1: only OFFERED_DEADLINE_MISSED, 2: none
    w_cond: u8,
    /// level of the listener enabled for REQUESTED_DEADLINE_MISSED on the reader side
    r_lst: u8,
    poll_ms: i64,
    /// (gap before the operation, instance, operation: OP_WRITE / OP_DISPOSE / OP_UNREGISTER)
    steps: Vec<(i64, u32, u8)>,
    /// instances disposed / unregistered after the final back-to-back writes
    final_ends: Vec<(u32, u8)>,
    /// delay of those operations after the final writes, in tenths of a writer period
    final_end_delay: i64,
    final_periods: i64,
    stride: i64,
    policy: Policy,
    clock_tick: i64,
    jitter: i64,
}

const DS: [i64; 3] = [100, 330, 1000];
const OP_WRITE: u8 = 0;
const OP_DISPOSE: u8 = 1;
const OP_UNREGISTER: u8 = 2;

fn op_name(k: u8) -> &'static str {
    match k {
        OP_WRITE => "write",
        OP_DISPOSE => "dispose",
        _ => "unregister",
    }
}

fn gen_params(rng: &mut Rng, thorough: bool) -> P {
    let wi = rng.usize(3);
    let ri = wi + rng.usize(3 - wi);
    let d_w = DS[wi];
    let d_r = DS[ri];
    let n_inst = 1 + rng.below(4) as u32;
    // share of the cases in which instances are disposed / unregistered during phase 1
    let p_end = *rng.pick(&[0.0f64, 0.0, 0.15, 0.3]);
    // registered = written since the last unregister_instance (dispose / unregister need that)
    let mut registered = vec![false; n_inst as usize];
    let w_lst = if rng.chance(0.25) { None } else { Some(rng.below(3) as u8) };
    let mut w_cond = rng.below(3) as u8;
    if w_lst.is_none() && w_cond == 2 {
        w_cond = rng.below(2) as u8;
    }
    let n_steps = 3 + rng.usize(if thorough { 14 } else { 8 });
    let mut steps = Vec::new();
    let mut total = 0i64;
    let style = rng.below(4);
    for _ in 0..n_steps {
        let base = if rng.bool() { d_w } else { d_r };
        let class = match style {
            // steady stream inside the period (no miss may ever be reported)
            0 => rng.below(3),
            // mostly long silences
            1 => 3 + rng.below(6),
            _ => rng.below(9),
        };
        let mut gap = match class {
            0 => base / 2,
            1 => base * 9 / 10,
            2 => base - 20,
            3 => base + 10,
            4 => base + 80,
            5 => base * 3 / 2,
            6 => base * 5 / 2,
            7 => base * 26 / 5,
            _ => base * 73 / 10,
        };
        if style == 0 {
            // keep every instance inside the smaller period even when instances alternate
            gap = (d_w / (n_inst as i64 + 1)).max(8).min(gap);
        }
        if total + gap > 30_000 {
            gap = d_w / 2;
        }
        total += gap;
        let inst = rng.below(n_inst as u64) as u32;
        let mut op = OP_WRITE;
        if p_end > 0.0 && registered[inst as usize] && rng.chance(p_end) {
            op = if rng.bool() { OP_DISPOSE } else { OP_UNREGISTER };
        }
        match op {
            OP_UNREGISTER => registered[inst as usize] = false,
            OP_WRITE => registered[inst as usize] = true,
            _ => {}
        }
        steps.push((gap, inst, op));
    }
    let mut final_ends = Vec::new();
    if rng.chance(0.5) {
        for inst in 0..n_inst {
            if rng.chance(0.4) {
                final_ends.push((inst, if rng.bool() { OP_DISPOSE } else { OP_UNREGISTER }));
            }
        }
    }
    let final_end_delay = *rng.pick(&[0i64, 0, 4, 13, 26]);
    P {
        d_w,
        d_r,
        n_inst,
        w_lst,
        w_cond,
        r_lst: rng.below(3) as u8,
        poll_ms: *rng.pick(&[0i64, 23, 70, 250]),
        steps,
        final_ends,
        final_end_delay,
        final_periods: 5 + rng.below(3) as i64,
        stride: 1 + rng.below(3) as i64,
        policy: pick_policy(rng),
        clock_tick: *rng.pick(&[0i64, 0, 1, 1000]),
        jitter: *rng.pick(&[0i64, 0, 1000, 1_000_000]),
    }
}

impl P {
    fn to_json(&self) -> Json {
        Json::obj()
            .set("writer_deadline_ms", self.d_w)
            .set("reader_deadline_ms", self.d_r)
            .set("instances", self.n_inst)
            .set(
                "writer_side_listener",
                match self.w_lst {
                    None => "none".to_string(),
                    Some(l) => level_name(l, false).to_string(),
                },
            )
            .set(
                "writer_condition_enabled_statuses",
                match self.w_cond {
                    0 => "default(all)",
                    1 => "[OFFERED_DEADLINE_MISSED]",
                    _ => "[]",
                },
            )
            .set("reader_side_listener", level_name(self.r_lst, true))
            .set("status_poll_period_ms", self.poll_ms)
            .set(
                "steps(gap_ms,instance,operation)",
                self.steps.iter().map(|s| format!("{}:{}:{}", s.0, s.1, op_name(s.2))).collect::<Vec<_>>(),
            )
            .set(
                "after_final_writes(instance,operation)",
                self.final_ends.iter().map(|s| format!("{}:{}", s.0, op_name(s.1))).collect::<Vec<_>>(),
            )
            .set("after_final_writes_delay_tenths_of_writer_period", self.final_end_delay)
            .set("final_silence_reader_periods", self.final_periods)
            .set("quiet_point_stride", self.stride)
            .set("policy", format!("{:?}", self.policy))
            .set("clock_tick_ns", self.clock_tick)
            .set("sleep_jitter_ns", self.jitter)
    }
}

#[derive(Clone, Debug)]
struct WriteRec {
    inst: u32,
    op: u8,
    t0: i64,
    t1: i64,
    ok: bool,
}

#[derive(Clone, Debug)]
struct Obs {
    t0: i64,
    t1: i64,
    total: i32,
    change: i32,
    quiet: bool,
    gtv: Option<bool>,
    /// callbacks recorded before this observation
    cb_seen: usize,
}

struct Out {
    matched: bool,
    writes: Vec<WriteRec>,
    obs: Vec<Obs>,
    cbs: Vec<Cb>,
    t_end: i64,
    cb_seen_end: usize,
    reader_gtv_end: Option<bool>,
    api_error: Option<String>,
}

async fn scenario(w: World, p: P) -> Out {
    let sim = w.sim.clone();
    let log: Log = Arc::new(Mutex::new(Vec::new()));
    let sh = sim.sh.clone();
    let mask_for = |lvl: u8, want: Option<u8>, m: &'static [StatusKind]| -> &'static [StatusKind] {
        if want == Some(lvl) { m } else { NO_STATUS }
    };
    static ODM: [StatusKind; 1] = [StatusKind::OfferedDeadlineMissed];
    static RDM: [StatusKind; 1] = [StatusKind::RequestedDeadlineMissed];
    static RDM_DA: [StatusKind; 2] = [StatusKind::RequestedDeadlineMissed, StatusKind::DataAvailable];
    let lst = |lvl: u8, want: Option<u8>, side: u8| -> Option<Rec> {
        if want == Some(lvl) { Some(Rec::new(&log, &sh, lvl, side)) } else { None }
    };
    let mut out = Out {
        matched: false,
        writes: Vec::new(),
        obs: Vec::new(),
        cbs: Vec::new(),
        t_end: 0,
        cb_seen_end: 0,
        reader_gtv_end: None,
        api_error: None,
    };
    // writer side (participant 0)
    let dp_a = w
        .factory
        .create_participant(0, QosKind::Default, lst(2, p.w_lst, 0), mask_for(2, p.w_lst, &ODM))
        .await
        .expect("create_participant");
    let topic_a = new_topic::<Msg>(&dp_a, "Deadline", "Msg").await;
    let pb = dp_a
        .create_publisher(QosKind::Default, lst(1, p.w_lst, 0), mask_for(1, p.w_lst, &ODM))
        .await
        .expect("create_publisher");
    let wq = DataWriterQos {
        reliability: reliable(1000),
        deadline: DeadlineQosPolicy { period: finite_ms(p.d_w) },
        ..Default::default()
    };
    let dw = pb
        .create_datawriter::<Msg>(&topic_a, QosKind::Specific(wq), lst(0, p.w_lst, 0), mask_for(0, p.w_lst, &ODM))
        .await
        .expect("create_datawriter");
    // reader side (participant 1)
    let rl = Some(p.r_lst);
    let dp_b = w
        .factory
        .create_participant(0, QosKind::Default, lst(2, rl, 1), mask_for(2, rl, &RDM))
        .await
        .expect("create_participant");
    let topic_b = new_topic::<Msg>(&dp_b, "Deadline", "Msg").await;
    let sb = dp_b
        .create_subscriber(QosKind::Default, lst(1, rl, 1), mask_for(1, rl, &RDM))
        .await
        .expect("create_subscriber");
    let rq = DataReaderQos {
        reliability: reliable(1000),
        deadline: DeadlineQosPolicy { period: finite_ms(p.d_r) },
        ..Default::default()
    };
    let dr = sb
        .create_datareader::<Msg>(&topic_b, QosKind::Specific(rq), lst(0, rl, 1), mask_for(0, rl, &RDM_DA))
        .await
        .expect("create_datareader");
    out.matched = wait_matched(&sim, &dw, 1, 20 * SEC).await && wait_reader_matched(&sim, &dr, 1, 20 * SEC).await;
    if !out.matched {
        return out;
    }
    let wcond = dw.get_statuscondition();
    match p.w_cond {
        1 => {
            if let Err(e) = wcond.set_enabled_statuses(&ODM).await {
                out.api_error = Some(format!("set_enabled_statuses: {}", err_name(&e)));
                return out;
            }
        }
        2 => {
            if let Err(e) = wcond.set_enabled_statuses(NO_STATUS).await {
                out.api_error = Some(format!("set_enabled_statuses: {}", err_name(&e)));
                return out;
            }
        }
        _ => {}
    }
    sim.sleep(100 * MS).await;

    // status poller
    let obs: Rc<RefCell<Vec<Obs>>> = Rc::new(RefCell::new(Vec::new()));
    let stop = Rc::new(RefCell::new(false));
    let poller = if p.poll_ms > 0 {
        let (dw2, sim2, obs2, stop2, log2, period) = (dw.clone(), sim.clone(), obs.clone(), stop.clone(), log.clone(), p.poll_ms * MS);
        Some(sim.spawn_local(async move {
            loop {
                sim2.sleep(period).await;
                if *stop2.borrow() {
                    break;
                }
                let cb_seen = log2.lock().unwrap().len();
                let t0 = sim2.now();
                let r = sim2.timeout(5 * SEC, dw2.get_offered_deadline_missed_status()).await;
                let t1 = sim2.now();
                if let Ok(Ok(s)) = r {
                    obs2.borrow_mut().push(Obs { t0, t1, total: s.total_count, change: s.total_count_change, quiet: false, gtv: None, cb_seen });
                } else {
                    break;
                }
            }
        }))
    } else {
        None
    };

    let mut seq = 0u32;
    for (gap, inst, op) in &p.steps {
        sim.sleep(gap * MS).await;
        let t0 = sim.now();
        let r = match *op {
            OP_WRITE => sim.timeout(5 * SEC, dw.write(msg(*inst, 0, seq, 16), None)).await,
            OP_DISPOSE => sim.timeout(5 * SEC, dw.dispose(msg(*inst, 0, seq, 16), None)).await,
            _ => sim.timeout(5 * SEC, dw.unregister_instance(msg(*inst, 0, seq, 16), None)).await,
        };
        let t1 = sim.now();
        seq += 1;
        out.writes.push(WriteRec { inst: *inst, op: *op, t0, t1, ok: matches!(r, Ok(Ok(()))) });
        if !matches!(r, Ok(Ok(()))) {
            out.api_error = Some(format!("{} failed", op_name(*op)));
        }
    }
    *stop.borrow_mut() = true;
    if let Some(j) = poller {
        j.await;
    }
    // final phase: all instances written back to back, then a long silence observed at quiet
    // points (0.75 of a writer period after each period boundary: no boundary is near).
    for inst in 0..p.n_inst {
        let t0 = sim.now();
        let r = sim.timeout(5 * SEC, dw.write(msg(inst, 0, seq, 16), None)).await;
        let t1 = sim.now();
        seq += 1;
        out.writes.push(WriteRec { inst, op: OP_WRITE, t0, t1, ok: matches!(r, Ok(Ok(()))) });
        if !matches!(r, Ok(Ok(()))) {
            out.api_error = Some("write failed".into());
        }
    }
    let t_fw = sim.now();
    // some instances leave (disposed / unregistered) while the others stay alive and idle
    if !p.final_ends.is_empty() {
        if p.final_end_delay > 0 {
            sim.sleep(p.final_end_delay * p.d_w * MS / 10).await;
        }
        for (inst, op) in &p.final_ends {
            let t0 = sim.now();
            let r = match *op {
                OP_DISPOSE => sim.timeout(5 * SEC, dw.dispose(msg(*inst, 0, seq, 16), None)).await,
                _ => sim.timeout(5 * SEC, dw.unregister_instance(msg(*inst, 0, seq, 16), None)).await,
            };
            let t1 = sim.now();
            seq += 1;
            out.writes.push(WriteRec { inst: *inst, op: *op, t0, t1, ok: matches!(r, Ok(Ok(()))) });
            if !matches!(r, Ok(Ok(()))) {
                out.api_error = Some(format!("{} failed", op_name(*op)));
            }
        }
    }
    let final_ns = p.final_periods * p.d_r * MS;
    let mut n = 0i64;
    loop {
        let q = t_fw + (n * p.d_w + p.d_w * 3 / 4) * MS;
        if q > t_fw + final_ns + p.d_r * MS {
            break;
        }
        let now = sim.now();
        if q < now {
            // quiet point already passed while instances were disposed / unregistered
            n += 1;
            continue;
        }
        if q > now {
            sim.sleep(q - now).await;
        }
        let cb_seen = log.lock().unwrap().len();
        let t0 = sim.now();
        let gtv = match sim.timeout(5 * SEC, wcond.get_trigger_value()).await {
            Ok(Ok(v)) => Some(v),
            _ => None,
        };
        let r = sim.timeout(5 * SEC, dw.get_offered_deadline_missed_status()).await;
        let t1 = sim.now();
        match r {
            Ok(Ok(s)) => obs.borrow_mut().push(Obs { t0, t1, total: s.total_count, change: s.total_count_change, quiet: true, gtv, cb_seen }),
            _ => {
                out.api_error = Some("get_offered_deadline_missed_status failed".into());
                break;
            }
        }
        n += if n == 0 { 1 } else { p.stride };
    }
    out.reader_gtv_end = match sim.timeout(5 * SEC, dr.get_statuscondition().get_trigger_value()).await {
        Ok(Ok(v)) => Some(v),
        _ => None,
    };
    out.t_end = sim.now();
    out.cb_seen_end = log.lock().unwrap().len();
    sim.sleep(50 * MS).await;
    out.obs = obs.borrow().clone();
    out.cbs = log.lock().unwrap().clone();
    out
}

// ---------------------------------------------------------------------------------------------
// Oracle

type Iv = (i64, i64);

fn fdiv(a: i64, d: i64) -> i64 {
    if a <= 0 { 0 } else { a / d }
}

/// Largest number of misses any conforming implementation may have counted for one instance by `t`.
fn upper(s: &[Iv], d: i64, t: i64) -> i64 {
    let certain: Vec<&Iv> = s.iter().filter(|x| x.1 <= t).collect();
    if certain.is_empty() {
        return match s.iter().find(|x| x.0 <= t) {
            Some(x) => fdiv(t - x.0, d),
            None => 0,
        };
    }
    let mut sum = 0;
    for k in 0..certain.len() - 1 {
        sum += fdiv(certain[k + 1].1 - certain[k].0, d);
    }
    sum + fdiv(t - certain[certain.len() - 1].0, d)
}

/// May the instance be overdue (a full period without a sample) at some time in [a, b]?
fn possibly_overdue(s: &[Iv], d: i64, a: i64, b: i64, margin: i64) -> bool {
    let mut points: Vec<i64> = vec![a];
    for x in s {
        if x.1 > a && x.1 <= b {
            points.push(x.1);
        }
    }
    points.push(b);
    points.sort();
    for k in 0..points.len() - 1 {
        let (p, q) = (points[k], points[k + 1]);
        // last sample certainly received at p
        let last = s.iter().filter(|x| x.1 <= p).last();
        let since = match last {
            Some(x) => Some(x.0),
            None => s.iter().find(|x| x.0 <= q).map(|x| x.0),
        };
        if let Some(lo) = since {
            if q - lo >= d - margin {
                return true;
            }
        }
    }
    false
}

/// One operation on an instance as seen by one side: [lo, hi] = when it took effect there.
#[derive(Clone, Copy, Debug)]
struct Ev {
    lo: i64,
    hi: i64,
    op: u8,
}

/// The events that restart the period of the instance under one reading of the specification.
fn restarts(ev: &[Ev], dispose_restarts: bool, unregister_restarts: bool) -> Vec<Iv> {
    ev.iter()
        .filter(|e| e.op == OP_WRITE || (e.op == OP_DISPOSE && dispose_restarts) || (e.op == OP_UNREGISTER && unregister_restarts))
        .map(|e| (e.lo, e.hi))
        .collect()
}

fn samples(ev: &[Ev]) -> Vec<Iv> {
    restarts(ev, false, false)
}

/// Largest count any legitimate behaviour may show for one instance by `t`: a disposed /
/// unregistered instance may be monitored on, with or without a restart of the period at the
/// dispose / unregister (readings 2 and 3 of the header; reading 1 never counts more than 3).
fn upper_ev(ev: &[Ev], d: i64, t: i64) -> i64 {
    let mut m = upper(&samples(ev), d, t);
    if ev.iter().any(|e| e.op != OP_WRITE) {
        for (a, b) in [(true, true), (true, false), (false, true)] {
            m = m.max(upper(&restarts(ev, a, b), d, t));
        }
    }
    m
}

/// Smallest count every legitimate behaviour (detection lag <= `lag`) must show for one instance by
/// `t`: the silence after a sample is counted until the next operation on the instance; nothing is
/// demanded between a dispose / unregister and the next sample (reading 1 of the header).
fn lower_ev(ev: &[Ev], d: i64, t: i64, lag: i64) -> i64 {
    let v: Vec<&Ev> = ev.iter().filter(|e| e.lo <= t).collect();
    let mut sum = 0;
    for k in 0..v.len() {
        if v[k].op != OP_WRITE {
            continue;
        }
        let end = if k + 1 < v.len() { v[k + 1].lo } else { t };
        sum += fdiv(end - v[k].hi - lag, d);
    }
    sum
}

struct Side<'a> {
    name: &'static str,
    d: i64,
    inst: Vec<Vec<Ev>>,
    /// (record time or read start, read end, total, change, is_read)
    obs: Vec<(i64, i64, i32, i32, bool)>,
    lag: i64,
    p: &'a P,
}

fn ms(t: i64) -> f64 {
    (t - EPOCH_NS) as f64 / 1e6
}

fn evaluate_side(rep: &mut Report, s: &Side, replay: &Json, fired: &mut Vec<String>) -> (i64, i64) {
    let d = s.d;
    let up = |t: i64| -> i64 { s.inst.iter().map(|i| upper_ev(i, d, t)).sum() };
    let lo = |t: i64| -> i64 { s.inst.iter().map(|i| lower_ev(i, d, t, s.lag)).sum() };
    // samples only: an instance that was disposed / unregistered may legitimately be overdue
    let smp: Vec<Vec<Iv>> = s.inst.iter().map(|i| samples(i)).collect();
    let ended_by = |t: i64| -> bool { s.inst.iter().any(|i| i.iter().any(|e| e.op != OP_WRITE && e.lo <= t)) };
    let mut v = |rep: &mut Report, kind: &str, what: String, extra: Json| {
        let sig = format!("side={}|{}", s.name, kind);
        if !fired.contains(&sig) {
            fired.push(sig.clone());
            rep.violation(sig, what, replay.clone().set("violation", kind).set("side", s.name).set("detail", extra));
        }
    };
    let t_first = s.inst.iter().filter_map(|i| i.first().map(|x| x.lo)).min().unwrap_or(EPOCH_NS);
    let mut obs = s.obs.clone();
    obs.sort_by_key(|o| (o.1, o.2));
    let mut max_total = 0i32;
    let mut t_low = t_first;
    let mut max_upper = 0i64;
    for o in &obs {
        let (t0, t1, total, _change, is_read) = *o;
        let u = up(t1);
        max_upper = max_upper.max(u);
        if total > max_total {
            // the count rose somewhere in (t_low, t1]
            let a = t_low - s.lag - MS;
            let overdue = smp.iter().any(|i| possibly_overdue(i, d, a, t1, MS));
            // root-cause qualifier: some instance of this endpoint had been disposed / unregistered
            let q = if ended_by(t1) { "|some_instance_disposed_or_unregistered=yes" } else { "" };
            if !overdue {
                v(
                    rep,
                    &format!("spurious{q}"),
                    format!(
                        "{} deadline-missed total_count rose from {} to {} between {:.3} ms and {:.3} ms although every instance received a sample less than one period ({} ms) before every instant of that window",
                        s.name, max_total, total, ms(t_low), ms(t1), d / MS
                    ),
                    Json::obj().set("from", max_total).set("to", total).set("window_ms", vec![ms(t_low), ms(t1)]),
                );
            } else if (total as i64) > u {
                v(
                    rep,
                    &format!("over_count{q}"),
                    format!(
                        "{} deadline-missed total_count = {} at {:.3} ms, but at most {} full periods of {} ms had elapsed without a sample (summed over {} instance(s){})",
                        s.name, total, ms(t1), u, d / MS, s.inst.len(),
                        if q.is_empty() { "" } else { "; a disposed / unregistered instance is allowed to be counted on, with or without a restart of its period" }
                    ),
                    Json::obj()
                        .set("total_count", total)
                        .set("upper_bound", u)
                        .set("at_ms", ms(t1))
                        .set("last_samples_ms", smp.iter().map(|i| i.iter().filter(|x| x.0 <= t1).last().map(|x| ms(x.0)).unwrap_or(-1.0)).collect::<Vec<_>>()),
                );
            }
        }
        if is_read {
            let l = lo(t0);
            if (total as i64) < l {
                let q = if ended_by(t0) { "|some_instance_disposed_or_unregistered=yes" } else { "" };
                // what each instance contributes to the bound (alive = written and not disposed / unregistered since)
                let per_inst: Vec<String> = s
                    .inst
                    .iter()
                    .enumerate()
                    .map(|(k, i)| {
                        let last = i.iter().filter(|e| e.lo <= t0).last();
                        format!(
                            "instance {}: last operation {} at {:.3} ms, at least {} misses",
                            k,
                            last.map(|e| op_name(e.op)).unwrap_or("none"),
                            last.map(|e| ms(e.lo)).unwrap_or(-1.0),
                            lower_ev(i, d, t0, s.lag)
                        )
                    })
                    .collect();
                v(
                    rep,
                    &format!("under_count{q}"),
                    format!(
                        "{} deadline-missed total_count = {} at {:.3} ms, but at least {} full periods of {} ms had elapsed more than {} ms earlier on instances that were alive (written and not disposed / unregistered since) during those periods",
                        s.name, total, ms(t0), l, d / MS, s.lag / MS
                    ),
                    Json::obj().set("total_count", total).set("lower_bound", l).set("at_ms", ms(t0)).set("per_instance", per_inst),
                );
            }
        }
        if total > max_total {
            max_total = total;
        }
        if total >= max_total {
            // this observation shows the current maximum: the next rise happens after its snapshot
            t_low = if is_read { t0 } else { t1 };
        }
    }
    // total_count_change: every increment is reported by exactly one observation
    let mut groups: std::collections::BTreeMap<i32, i64> = Default::default();
    for o in &obs {
        *groups.entry(o.2).or_default() += o.3 as i64;
    }
    let mut prev = 0i32;
    for (total, sum) in groups {
        if sum != (total - prev) as i64 {
            v(
                rep,
                "change_inconsistent",
                format!(
                    "{} deadline-missed: observations with total_count = {} carry total_count_change summing to {}, previous observed total_count was {}",
                    s.name, total, sum, prev
                ),
                Json::obj().set("total_count", total).set("sum_change", sum).set("previous_total", prev),
            );
            break;
        }
        prev = total;
    }
    let _ = s.p;
    (max_total as i64, max_upper)
}

fn evaluate(rep: &mut Report, p: &P, o: &Out, replay: &Json, poll_hash: u64, case: u64, selftest: bool) {
    let lag = 50 * MS + 2 * p.jitter + MS;
    if o.writes.iter().any(|w| !w.ok) {
        rep.stat("cases_skipped_write_failed", 1);
        return;
    }
    let mut fired: Vec<String> = Vec::new();
    // ---- offered side
    let mut w_inst: Vec<Vec<Ev>> = vec![Vec::new(); p.n_inst as usize];
    for w in &o.writes {
        w_inst[w.inst as usize].push(Ev { lo: w.t0, hi: w.t1, op: w.op });
    }
    let mut w_obs: Vec<(i64, i64, i32, i32, bool)> = o.obs.iter().map(|x| (x.t0, x.t1, x.total, x.change, true)).collect();
    for c in o.cbs.iter().filter(|c| c.kind == StatusKind::OfferedDeadlineMissed) {
        w_obs.push((c.t, c.t, c.total, c.change, false));
    }
    let ws = Side { name: "offered", d: p.d_w * MS, inst: w_inst.clone(), obs: w_obs, lag, p };
    let (w_total, w_upper) = evaluate_side(rep, &ws, replay, &mut fired);

    // signalling at quiet points
    let mut prev_total = 0i32;
    let cond_enabled = p.w_cond != 2;
    let mut quiet_judged = 0;
    for x in &o.obs {
        if x.quiet && x.total > prev_total {
            // all instances must be far from a period boundary
            let d = p.d_w * MS;
            // (for a disposed / unregistered instance: far from the boundaries of every accepted reading)
            let far = w_inst.iter().all(|i| {
                let from = i.iter().rposition(|e| e.op == OP_WRITE).unwrap_or(0);
                i[from..].iter().all(|l| {
                    let p_lo = (x.t0 - l.hi).rem_euclid(d);
                    let p_hi = (x.t1 - l.lo).rem_euclid(d);
                    p_lo > lag + 5 * MS && p_hi < d - 5 * MS && p_lo <= p_hi
                })
            });
            let u: i64 = w_inst.iter().map(|i| upper_ev(i, d, x.t1)).sum();
            let l: i64 = w_inst.iter().map(|i| lower_ev(i, d, x.t0, lag)).sum();
            if far && (x.total as i64) <= u && (x.total as i64) >= l {
                quiet_judged += 1;
                let lst_ok = p.w_lst.is_some()
                    && o.cbs[..x.cb_seen.min(o.cbs.len())]
                        .iter()
                        .any(|c| c.kind == StatusKind::OfferedDeadlineMissed && c.total > prev_total && c.total <= x.total);
                let cond_ok = cond_enabled && x.gtv == Some(true);
                // --selftest-unsignalled: oracle self-test, pretend that nothing signalled the increase
                let (lst_ok, cond_ok) = if selftest { (false, false) } else { (lst_ok, cond_ok) };
                if p.w_lst.is_some() && cond_enabled && (lst_ok != cond_ok) {
                    rep.stat("increase_signalled_by_only_one_of_listener_and_condition", 1);
                }
                if !(lst_ok || cond_ok) && x.gtv.is_some() {
                    let sig = "side=offered|unsignalled".to_string();
                    if !fired.contains(&sig) {
                        fired.push(sig.clone());
                        rep.violation(
                            sig,
                            format!(
                                "offered deadline-missed total_count rose from {} to {} (read at {:.3} ms, far from any period boundary) but neither a listener callback (listener: {}) nor a true StatusCondition trigger value (enabled: {}, observed {:?}) signalled it",
                                prev_total, x.total, ms(x.t0),
                                p.w_lst.map(|l| level_name(l, false)).unwrap_or("none"), cond_enabled, x.gtv
                            ),
                            replay.clone().set("violation", "unsignalled").set("side", "offered").set("at_ms", ms(x.t0)),
                        );
                    }
                }
            }
        }
        prev_total = x.total.max(prev_total);
    }

    // ---- requested side (only observable through the listener: the status getter is todo!())
    let da: Vec<&Cb> = o.cbs.iter().filter(|c| c.kind == StatusKind::DataAvailable).collect();
    let tight = p.r_lst == 0 && da.len() == o.writes.len();
    let mut r_inst: Vec<Vec<Ev>> = vec![Vec::new(); p.n_inst as usize];
    for (k, w) in o.writes.iter().enumerate() {
        let hi = if tight { w.t1.max(da[k].t) + MS } else { w.t1 + 55 * MS + 2 * p.jitter };
        r_inst[w.inst as usize].push(Ev { lo: w.t0, hi, op: w.op });
    }
    if tight {
        rep.stat("reader_side_cases_with_observed_reception_times", 1);
    }
    let rdm: Vec<&Cb> = o.cbs.iter().filter(|c| c.kind == StatusKind::RequestedDeadlineMissed).collect();
    let mut r_obs: Vec<(i64, i64, i32, i32, bool)> = rdm.iter().map(|c| (c.t, c.t, c.total, c.change, false)).collect();
    // the count known at the end of the run (last callback delivered before t_end) acts as a read
    let seen_end: Vec<&Cb> = o.cbs[..o.cb_seen_end.min(o.cbs.len())]
        .iter()
        .filter(|c| c.kind == StatusKind::RequestedDeadlineMissed)
        .collect();
    let end_total = seen_end.iter().map(|c| c.total).max().unwrap_or(0);
    r_obs.push((o.t_end - MS, o.t_end, end_total, 0, true));
    // intermediate lower-bound checks at the writer's poll instants
    for x in &o.obs {
        let t = o.cbs[..x.cb_seen.min(o.cbs.len())]
            .iter()
            .filter(|c| c.kind == StatusKind::RequestedDeadlineMissed)
            .map(|c| c.total)
            .max()
            .unwrap_or(0);
        r_obs.push((x.t0 - MS, x.t0, t, 0, true));
    }
    let rs = Side { name: "requested", d: p.d_r * MS, inst: r_inst, obs: r_obs, lag, p };
    let (r_total, r_upper) = evaluate_side(rep, &rs, replay, &mut fired);
    if r_total > 0 && o.reader_gtv_end == Some(false) {
        rep.stat("reader_condition_false_after_requested_deadline_missed", 1);
    }

    // ---- evidence
    rep.stat("writes", o.writes.iter().filter(|w| w.op == OP_WRITE).count() as i128);
    rep.stat("dispose_operations", o.writes.iter().filter(|w| w.op == OP_DISPOSE).count() as i128);
    rep.stat("unregister_instance_operations", o.writes.iter().filter(|w| w.op == OP_UNREGISTER).count() as i128);
    if p.n_inst > 1 {
        rep.stat("cases_with_several_instances", 1);
    }
    if o.writes.iter().any(|w| w.op != OP_WRITE) {
        rep.stat("cases_with_disposed_or_unregistered_instance", 1);
    }
    // an instance left for good while another one stayed alive and idle for at least one writer period
    let left = |i: &Vec<Ev>| i.last().map(|e| e.op != OP_WRITE).unwrap_or(false);
    let idle_alive = |i: &Vec<Ev>| i.last().map(|e| e.op == OP_WRITE && o.t_end - e.hi > p.d_w * MS + lag).unwrap_or(false);
    if w_inst.iter().any(left) && w_inst.iter().any(idle_alive) {
        rep.stat("cases_with_instance_gone_while_another_stays_alive_and_idle", 1);
        // ... and the gone instance was registered (first written) before the idle one
        let first = |i: &Vec<Ev>| i.first().map(|e| e.lo).unwrap_or(i64::MAX);
        let g = w_inst.iter().filter(|i| left(i)).map(first).min().unwrap_or(i64::MAX);
        let a = w_inst.iter().filter(|i| idle_alive(i)).map(first).max().unwrap_or(i64::MIN);
        if g < a {
            rep.stat("cases_with_gone_instance_registered_before_idle_alive_one", 1);
        }
    }
    rep.stat("offered_counts_judged(reads+callbacks)", ws.obs.len() as i128);
    rep.stat("requested_counts_judged(callbacks+checkpoints)", rs.obs.len() as i128);
    rep.stat("writer_status_reads", o.obs.len() as i128);
    rep.stat("quiet_point_signalling_checks", quiet_judged as i128);
    rep.stat("offered_deadline_missed_callbacks", o.cbs.iter().filter(|c| c.kind == StatusKind::OfferedDeadlineMissed).count() as i128);
    rep.stat("requested_deadline_missed_callbacks", rdm.len() as i128);
    rep.stat("offered_total_count_final", w_total as i128);
    rep.stat("offered_legit_upper_bound_final", w_upper as i128);
    rep.stat("requested_total_count_final", r_total as i128);
    rep.stat("requested_legit_upper_bound_final", r_upper as i128);
    for c in &o.cbs {
        rep.stat(&format!("callbacks_at_{}", level_name(c.level, c.side == 1)), 1);
    }
    rep.set("writer_deadlines_ms", p.d_w.to_string());
    rep.set("reader_deadlines_ms", p.d_r.to_string());
    if w_upper > 0 || r_upper > 0 {
        let mut h = vcore::fnv_str(&p.to_json().to_string());
        h = vcore::mix(h, w_total as u64);
        h = vcore::mix(h, r_total as u64);
        h = vcore::mix(h, poll_hash);
        rep.nontrivial(h);
    }
    if w_upper == 0 && r_upper == 0 {
        rep.stat("cases_without_any_elapsed_period(steady_stream)", 1);
    }
    if case < 64 {
        rep.sample(
            Json::obj()
                .set("case", case)
                .set("params", p.to_json())
                .set("offered_total_count", w_total)
                .set("offered_upper_bound", w_upper)
                .set("requested_total_count(last callback)", r_total)
                .set("requested_upper_bound", r_upper)
                .set("violations", fired.clone()),
        );
    }
}

pub fn run(shard: &Shard) -> Report {
    let mut rep = Report::new("C30");
    let thorough = shard.tier == "thorough";
    let trace = shard.args.has("trace");
    for case in shard.my_cases() {
        let cs = shard.case_seed(case);
        let mut rng = Rng::new(cs);
        let p = gen_params(&mut rng, thorough);
        if trace {
            eprintln!("case {case}: {}", p.to_json().to_string());
        }
        let mut cfg = WorldConfig::default();
        cfg.sim.seed = cs;
        cfg.sim.policy = p.policy;
        cfg.sim.clock_tick = p.clock_tick;
        cfg.sim.jitter_max = p.jitter;
        // a fault-free case needs a few thousand polls (see max_polls_per_case); the budget ends runs in
        // which the worker spins without virtual time advancing (reported as inconclusive, never as a verdict)
        cfg.sim.max_polls = shard.args.u64("max-polls", 100_000);
        let p2 = p.clone();
        let (res, stats, _net) = run_world(&cfg, move |w| scenario(w, p2));
        rep.eval();
        let replay = shard.base_replay("c30", case).set("engine", "scen_stat").set("params", p.to_json());
        rep.stat("worker_polls", stats.worker_polls as i128);
        rep.maxstat("max_polls_per_case", stats.polls as i128);
        rep.maxstat("max_virtual_s", ((stats.end_ns - EPOCH_NS) / SEC) as i128);
        let panicked = report_panics(&mut rep, &stats, &replay);
        let Some(o) = res else {
            if !panicked {
                rep.inconclusive(format!("case {case}: scenario did not finish ({:?})", stats.stop));
            }
            continue;
        };
        if !o.matched {
            if !panicked {
                rep.inconclusive(format!("case {case}: endpoints did not match within 20 s"));
            }
            continue;
        }
        if let Some(e) = &o.api_error {
            if !panicked {
                rep.inconclusive(format!("case {case}: {e}"));
            }
            continue;
        }
        if trace {
            for w in &o.writes {
                eprintln!("  write inst {} at {:.3}..{:.3} ms", w.inst, ms(w.t0), ms(w.t1));
            }
            for x in &o.obs {
                eprintln!("  read  at {:.3} ms total={} change={} quiet={} gtv={:?}", ms(x.t0), x.total, x.change, x.quiet, x.gtv);
            }
            for c in o.cbs.iter().filter(|c| c.kind != StatusKind::DataAvailable).take(shard.args.u64("tail", 40) as usize) {
                eprintln!("  cb    at {:.3} ms {} level={} total={} change={}", ms(c.t), kind_name(c.kind), c.level, c.total, c.change);
            }
        }
        evaluate(&mut rep, &p, &o, &replay, stats.poll_hash, case, shard.args.has("selftest-unsignalled"));
    }
    rep
}
