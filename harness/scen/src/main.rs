//! E1 scenario driver: `scen <scenario> --seed S --shard i --nshards n --cases N --tier T --out F`
mod common;
mod acks;
mod cfilter;
mod delivery;
mod durability;
mod fragdirect;
mod keeplast;
mod lifespan;
mod oversleep;

use common::Shard;
use vcore::Args;

fn main() {
    let args = Args::parse();
    let scenario = args.pos.first().cloned().unwrap_or_default();
    let shard = Shard::from_args(args);
    let rep = match scenario.as_str() {
        "c01" => delivery::run(&shard, "C01", delivery::Mode::Reliable),
        "c03" => acks::run(&shard),
        "c04" => durability::run(&shard),
        "c27" => keeplast::run(&shard),
        "c29" => lifespan::run(&shard),
        "c26" => cfilter::run(&shard),
        "c31" => oversleep::run(&shard),
        "c02" => delivery::run(&shard, "C02", delivery::Mode::BestEffort),
        "c05" => {
            // (a) direct micro-driver on all cases, (b) end-to-end on `--e2e` cases
            let mut rep = vcore::Report::new("C05");
            fragdirect::run(&shard, &mut rep);
            let e2e = shard.args.u64("e2e", 0);
            let mine: Vec<u64> = (0..e2e).filter(|c| c % shard.nshards == shard.shard).collect();
            let (rel, be): (Vec<u64>, Vec<u64>) = mine.into_iter().partition(|c| (c / shard.nshards) % 2 == 0);
            if shard.replay.is_none() {
                delivery::run_into(&shard, &mut rep, delivery::Mode::FragReliable, rel);
                delivery::run_into(&shard, &mut rep, delivery::Mode::FragBestEffort, be);
            }
            rep
        }
        other => {
            eprintln!("unknown scenario {other}");
            std::process::exit(3);
        }
    };
    rep.write(&shard.out);
}
