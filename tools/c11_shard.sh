#!/bin/bash
# C11 has two halves: in-process handle computation on generated types (xcdr c11, most shards) and the
# writer-handle == reader-handle comparison over the simulated wire (scen c11, last two shards).
# usage: c11_shard.sh <bin dir> <seed> <shard> <nshards> <cases> <tier> <out> [--replay <file>]
bin="$1"; seed="$2"; shard="$3"; n="$4"; cases="$5"; tier="$6"; out="$7"; shift 7
if [ "${1:-}" = "--replay" ]; then
  if grep -q "c11e2e" "$2" 2>/dev/null; then
    exec "$bin/scen" c11 --seed "$seed" --shard "$shard" --nshards "$n" --cases 1200 --tier "$tier" --out "$out" "$@"
  else
    exec "$bin/xcdr" c11 --seed "$seed" --shard "$shard" --nshards "$n" --cases "$cases" --tier "$tier" --out "$out" "$@"
  fi
fi
e2e=2
if [ "$n" -le 2 ]; then e2e=1; fi
if [ "$shard" -ge $((n - e2e)) ]; then
  c=$([ "$tier" = thorough ] && echo 6000 || echo 1200)
  exec "$bin/scen" c11 --seed "$seed" --shard $((shard - (n - e2e))) --nshards "$e2e" --cases "$c" --tier "$tier" --out "$out"
else
  exec "$bin/xcdr" c11 --seed "$seed" --shard "$shard" --nshards $((n - e2e)) --cases "$cases" --tier "$tier" --out "$out"
fi
