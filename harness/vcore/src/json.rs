//! Minimal JSON value with writer and parser (no external crates are available offline-safe
//! across all toolchains, so we keep our own).
use std::collections::BTreeMap;
use std::fmt::Write;

#[derive(Clone, Debug, PartialEq)]
pub enum Json {
    Null,
    Bool(bool),
    Int(i128),
    Float(f64),
    Str(String),
    Arr(Vec<Json>),
    Obj(BTreeMap<String, Json>),
}

impl Json {
    pub fn obj() -> Json {
        Json::Obj(BTreeMap::new())
    }
    pub fn arr() -> Json {
        Json::Arr(Vec::new())
    }
    pub fn s(x: impl Into<String>) -> Json {
        Json::Str(x.into())
    }
    pub fn i(x: impl Into<i128>) -> Json {
        Json::Int(x.into())
    }
    pub fn set(mut self, k: &str, v: impl Into<Json>) -> Json {
        if let Json::Obj(m) = &mut self {
            m.insert(k.to_string(), v.into());
        }
        self
    }
    pub fn put(&mut self, k: &str, v: impl Into<Json>) {
        if let Json::Obj(m) = self {
            m.insert(k.to_string(), v.into());
        }
    }
    pub fn push(&mut self, v: impl Into<Json>) {
        if let Json::Arr(a) = self {
            a.push(v.into());
        }
    }
    pub fn get(&self, k: &str) -> Option<&Json> {
        match self {
            Json::Obj(m) => m.get(k),
            _ => None,
        }
    }
    pub fn as_i64(&self) -> Option<i64> {
        match self {
            Json::Int(i) => Some(*i as i64),
            Json::Float(f) => Some(*f as i64),
            _ => None,
        }
    }
    pub fn as_u64(&self) -> Option<u64> {
        match self {
            Json::Int(i) => Some(*i as u64),
            _ => None,
        }
    }
    pub fn as_str(&self) -> Option<&str> {
        match self {
            Json::Str(s) => Some(s),
            _ => None,
        }
    }
    pub fn as_arr(&self) -> Option<&[Json]> {
        match self {
            Json::Arr(a) => Some(a),
            _ => None,
        }
    }
    pub fn as_bool(&self) -> Option<bool> {
        match self {
            Json::Bool(b) => Some(*b),
            _ => None,
        }
    }
    pub fn to_string(&self) -> String {
        let mut s = String::new();
        self.write(&mut s);
        s
    }
    fn write(&self, out: &mut String) {
        match self {
            Json::Null => out.push_str("null"),
            Json::Bool(b) => out.push_str(if *b { "true" } else { "false" }),
            Json::Int(i) => {
                let _ = write!(out, "{}", i);
            }
            Json::Float(f) => {
                if f.is_finite() {
                    let _ = write!(out, "{}", f);
                } else {
                    out.push_str("null");
                }
            }
            Json::Str(s) => write_str(out, s),
            Json::Arr(a) => {
                out.push('[');
                for (i, x) in a.iter().enumerate() {
                    if i > 0 {
                        out.push(',');
                    }
                    x.write(out);
                }
                out.push(']');
            }
            Json::Obj(m) => {
                out.push('{');
                for (i, (k, v)) in m.iter().enumerate() {
                    if i > 0 {
                        out.push(',');
                    }
                    write_str(out, k);
                    out.push(':');
                    v.write(out);
                }
                out.push('}');
            }
        }
    }
    pub fn parse(s: &str) -> Result<Json, String> {
        let mut p = Parser {
            b: s.as_bytes(),
            i: 0,
        };
        p.ws();
        let v = p.value()?;
        p.ws();
        if p.i != p.b.len() {
            return Err(format!("trailing data at {}", p.i));
        }
        Ok(v)
    }
}

fn write_str(out: &mut String, s: &str) {
    out.push('"');
    for c in s.chars() {
        match c {
            '"' => out.push_str("\\\""),
            '\\' => out.push_str("\\\\"),
            '\n' => out.push_str("\\n"),
            '\r' => out.push_str("\\r"),
            '\t' => out.push_str("\\t"),
            c if (c as u32) < 0x20 => {
                let _ = write!(out, "\\u{:04x}", c as u32);
            }
            c => out.push(c),
        }
    }
    out.push('"');
}

struct Parser<'a> {
    b: &'a [u8],
    i: usize,
}
impl Parser<'_> {
    fn ws(&mut self) {
        while self.i < self.b.len() && matches!(self.b[self.i], b' ' | b'\n' | b'\r' | b'\t') {
            self.i += 1;
        }
    }
    fn value(&mut self) -> Result<Json, String> {
        self.ws();
        if self.i >= self.b.len() {
            return Err("eof".into());
        }
        match self.b[self.i] {
            b'{' => {
                self.i += 1;
                let mut m = BTreeMap::new();
                self.ws();
                if self.peek() == Some(b'}') {
                    self.i += 1;
                    return Ok(Json::Obj(m));
                }
                loop {
                    self.ws();
                    let k = match self.value()? {
                        Json::Str(s) => s,
                        _ => return Err("key".into()),
                    };
                    self.ws();
                    if self.peek() != Some(b':') {
                        return Err("colon".into());
                    }
                    self.i += 1;
                    let v = self.value()?;
                    m.insert(k, v);
                    self.ws();
                    match self.peek() {
                        Some(b',') => self.i += 1,
                        Some(b'}') => {
                            self.i += 1;
                            return Ok(Json::Obj(m));
                        }
                        _ => return Err("obj".into()),
                    }
                }
            }
            b'[' => {
                self.i += 1;
                let mut a = Vec::new();
                self.ws();
                if self.peek() == Some(b']') {
                    self.i += 1;
                    return Ok(Json::Arr(a));
                }
                loop {
                    a.push(self.value()?);
                    self.ws();
                    match self.peek() {
                        Some(b',') => self.i += 1,
                        Some(b']') => {
                            self.i += 1;
                            return Ok(Json::Arr(a));
                        }
                        _ => return Err("arr".into()),
                    }
                }
            }
            b'"' => {
                self.i += 1;
                let mut s = String::new();
                loop {
                    if self.i >= self.b.len() {
                        return Err("str eof".into());
                    }
                    let c = self.b[self.i];
                    self.i += 1;
                    match c {
                        b'"' => return Ok(Json::Str(s)),
                        b'\\' => {
                            let e = self.b.get(self.i).copied().ok_or("esc")?;
                            self.i += 1;
                            match e {
                                b'n' => s.push('\n'),
                                b'r' => s.push('\r'),
                                b't' => s.push('\t'),
                                b'b' => s.push('\u{8}'),
                                b'f' => s.push('\u{c}'),
                                b'u' => {
                                    let h = std::str::from_utf8(&self.b[self.i..self.i + 4])
                                        .map_err(|_| "u")?;
                                    let cp = u32::from_str_radix(h, 16).map_err(|_| "u")?;
                                    self.i += 4;
                                    s.push(char::from_u32(cp).unwrap_or('?'));
                                }
                                c => s.push(c as char),
                            }
                        }
                        _ => {
                            // re-decode utf8 run
                            let start = self.i - 1;
                            let mut end = self.i;
                            while end < self.b.len() && self.b[end] != b'"' && self.b[end] != b'\\'
                            {
                                end += 1;
                            }
                            s.push_str(
                                std::str::from_utf8(&self.b[start..end]).map_err(|_| "utf8")?,
                            );
                            self.i = end;
                        }
                    }
                }
            }
            b't' => {
                self.i += 4;
                Ok(Json::Bool(true))
            }
            b'f' => {
                self.i += 5;
                Ok(Json::Bool(false))
            }
            b'n' => {
                self.i += 4;
                Ok(Json::Null)
            }
            _ => {
                let start = self.i;
                let mut float = false;
                while self.i < self.b.len()
                    && matches!(self.b[self.i], b'0'..=b'9' | b'-' | b'+' | b'.' | b'e' | b'E')
                {
                    if matches!(self.b[self.i], b'.' | b'e' | b'E') {
                        float = true;
                    }
                    self.i += 1;
                }
                let t = std::str::from_utf8(&self.b[start..self.i]).map_err(|_| "num")?;
                if float {
                    t.parse::<f64>().map(Json::Float).map_err(|e| e.to_string())
                } else {
                    t.parse::<i128>().map(Json::Int).map_err(|e| e.to_string())
                }
            }
        }
    }
    fn peek(&self) -> Option<u8> {
        self.b.get(self.i).copied()
    }
}

impl From<&str> for Json {
    fn from(s: &str) -> Json {
        Json::Str(s.to_string())
    }
}
impl From<String> for Json {
    fn from(s: String) -> Json {
        Json::Str(s)
    }
}
impl From<bool> for Json {
    fn from(b: bool) -> Json {
        Json::Bool(b)
    }
}
impl From<f64> for Json {
    fn from(b: f64) -> Json {
        Json::Float(b)
    }
}
macro_rules! from_int {
    ($($t:ty),*) => {$(impl From<$t> for Json { fn from(x: $t) -> Json { Json::Int(x as i128) } })*};
}
from_int!(i8, i16, i32, i64, u8, u16, u32, u64, usize, isize, i128);
impl<T: Into<Json>> From<Vec<T>> for Json {
    fn from(v: Vec<T>) -> Json {
        Json::Arr(v.into_iter().map(Into::into).collect())
    }
}
impl<T: Into<Json>> From<Option<T>> for Json {
    fn from(v: Option<T>) -> Json {
        match v {
            Some(x) => x.into(),
            None => Json::Null,
        }
    }
}
